"""C10 - tracing is purely observational and traces are reproducible.

D1 trace-only code has no effect on the run (no rebinding / mutation of run state, live user
   objects are only handed to overridable code inside a containing try, never consumed),
D1b uncontained serialisation sinks of the trace path receive JSON-safe values only (own producer rules: the leaves
   of the sweep domain signature on the normal form, by value forms of what is returned; canonical nodes appended only
   on paths through a successful json.dumps of the node - CFG, list found by its role in the returned mapping),
D2 no accumulating per-object / module state feeds the stream (a module-level literal table that is only read is a
   constant), and no object identity / process state / clock reaches a stable field (taint from id, hash,
   object.__repr__, random, time, uuid4 to what the trace-path functions return, persist or write; the volatile
   producers - timing block, run id, driver timestamp - are found by role),
D2 (round 3) an orchestrator attribute filled with a run-derived value on the execute() path is rebound in the same
   call before every read (CFG dominance, interprocedural through self-calls, extract-method aware); containers that
   exist once per process on the trace path (class body, module level, mutable default) are read-only, also through
   a local alias,
D1 (round 3) json sinks of the trace path are not stricter than the sanitiser's probe unless the extra failure is
   contained; driver callbacks raise nothing of their own,
D3 driver calls are gated on the trace being present.
Run state of execute and live parameters of the helpers are found by role / declared type, not by spelling.
Round 4: anchors by role - the SER builder is whatever execute() hands to on_node_event (method or module-level
function; sinks followed into helpers that are not inlined, the value they receive traced back to the `preprocessor`
entry of the processor metadata across parameters); trace-only helpers of the orchestrator module are also found
through the call graph from the trace-only blocks; the volatile timing producers through resolved calls; what a
function returns is followed through closures / lambdas of a local dispatch table; a canonical node may be appended
as an expression (`{**node, ..}`, `dict(node, k=v)`, `node | {..}`) or come out of a tuple-returning helper.
Round 5: D2 identity sources include raw memory images of arbitrary objects (buffer export `tobytes`, pickle/marshal,
`__reduce__`) unless the value is known to be bytes-like; D1 driver-reusable-after-close: a public driver method that
closes a handle resets every attribute that can refer to it (alias classes from `self.X = self.Y`, CFG paths, falsy-known
edges) - execute() closes the driver after every run and the next run reuses it; D1 mode-selected-work-contained: code
reached from execute() outside the trace-only blocks that receives a value derived from the trace driver (parameter, or
attribute filled by the constructor; methods of locally constructed instances resolved) lets it select only contained
work on user values (control-dependent CFG region of the test, conditional expressions, short-circuit operands,
comprehension filters; value kinds LIVE / CONT / PLAIN from declared types and value flow; callees decided
interprocedurally on the kinds of the arguments bound).
Round 6 (seed6 C10-b): D1 trace-only-work-contained: the trace-only blocks / conditional-expression arms of execute()
from which the run can still return (CFG: a normal return is reachable; the blocks of the re-raising handlers are the
known R9 report) and the orchestrator / trace-package functions called from there run no callable held as data (an
attribute the code treats as data - constructor keyword, attribute store, read as a value -, a local, a parameter,
`getattr(..)()`, a table entry; values the code itself puts there are followed into lambdas, nested defs and closures
returned by a factory) and no trace-package function with an open hook operation (value kinds of the arguments bound,
_ModeAnalysis) outside a containing try: moving work that both modes do (context delta, post checks) under the trace
test makes its failures trace-only.
Round 7 (seed7 C10 a/b/c, fix 42d5a53): pass-through sanitisers are found by role (probe a parameter with the JSON
encoder, hand the parameter back); D1 sinks-keep-sanitised-values-as-given: a driver callback applies no asdict / astuple /
deepcopy / type(v)(..) to a record or a part of it that carries such a value (record fields decided by value flow from the
producers execute() binds to the record builder; the record's own dataclasses may be converted); D1
mappings-of-caller-values-sanitised-throughout: a container that receives sanitised values receives only sanitised /
constructed-safe values on every branch; D1 trace-only-code-is-total: no uncontained, unguarded partial operation (n-th
element, next / min / max without default, .index, division) on run-derived values in trace-only code, failure handlers
included; D1 run-keyed-mappings-ordered-by-their-producer: with a sort_keys encoder in the drivers, a trace-package
function fills a returned mapping keyed by run-derived keys only while iterating over one sorted(..) of them.
"""
from __future__ import annotations

import ast
from typing import Dict, List, Optional, Set, Tuple

from ..cfg import CFG, edges_guaranteeing, returns_only_through
from ..engine import (
    GROWERS,
    AnalysisError,
    FuncNode,
    Repo,
    ancestors,
    assigned_value,
    call_attr,
    call_name,
    calls_in,
    dotted_name,
    kwarg,
    mutation_sites,
    names_stored,
    norm,
    qualname_of,
    stmt_of,
    walk_no_nested,
)
from ..normal import module_constants, nfunc
from ..report import Report
from .. import pat
from . import _orch
from ._orch import ORCH, EXECUTE

UTILS = "semantiva/trace/_utils.py"
DELTA = "semantiva/trace/delta_collector.py"
O = "SemantivaOrchestrator."
RUN_STATE = {"data", "context", "payload", "result", "node", "nodes", "node_defs", "transport", "resolved_spec", "pipeline_spec"}
TRACE_HELPERS = ["_start_timing", "_end_timing", "_iso_now", "_init_summaries", "_augment_output_summaries", "_data_summary", "_context_summary", "_make_ser_record", "_trace_options", "_collect_env_pins"]
HOOK_CALLS = {"len", "repr", "str", "serialize", "safe_repr", "canonical_json_bytes", "context_to_kv_repr", "sha256_bytes"}
HOOK_METHODS = {"to_bytes", "to_json", "dumps", "json", "get_metadata", "get_options", "fingerprint"}
CONSUMERS = {"list", "tuple", "sorted", "set", "frozenset", "iter", "next", "sum", "max", "min", "enumerate", "zip", "any", "all", "reversed", "join", "dict"}
REITERABLE = {"list", "tuple", "dict", "set", "frozenset", "str", "bytes", "bytearray", "Mapping", "Sequence", "Set", "MutableMapping", "MutableSequence", "range"}
LIVE_PARAMS = {"data", "obj", "o", "v", "value", "context_view", "mapping", "a", "b"}


def contained(node: ast.AST) -> bool:
    """Is *node* lexically inside a try whose handler catches Exception (or everything) and does not re-raise?"""
    child = node
    for a in ancestors(node):
        if isinstance(a, FuncNode + (ast.Lambda,)):
            return False
        if isinstance(a, ast.Try) and any(child is s or any(child is x for x in ast.walk(s)) for s in a.body):
            for h in a.handlers:
                t = ast.unparse(h.type) if h.type is not None else "BaseException"
                if t in ("Exception", "BaseException") or h.type is None:
                    if not any(isinstance(x, ast.Raise) for st in h.body for x in ast.walk(st)):
                        return True
        # `with contextlib.suppress(Exception):` is the same construct spelled as a context manager
        if isinstance(a, (ast.With, ast.AsyncWith)) and any(child is s for s in a.body) and _suppressed(a) & {"Exception", "BaseException"}:
            return True
        child = a
    return False


def _suppressed(w: ast.AST) -> Set[str]:
    """Exception classes (last component of their names) swallowed by a `with contextlib.suppress(..)` statement."""
    out: Set[str] = set()
    for it in getattr(w, "items", []):
        c = it.context_expr
        if isinstance(c, ast.Call) and dotted_name(c.func) in ("contextlib.suppress", "suppress") and not c.keywords:
            for a in c.args:
                out |= {(dotted_name(e) or "?").split(".")[-1] for e in (a.elts if isinstance(a, ast.Tuple) else [a])}
    return out


class _TraceFacts:
    """Which locals of execute() tell that a trace driver is attached, decided from the value they are bound to (not
    from the spelling of the test): `pos` - the local being true implies the trace parameter is present, `neg` - the
    local being false implies it, `nn` - the local not being None implies it.  A test guarantees presence on the
    edges `cfg.edges_guaranteeing` derives from these atoms, so `a is not None and b`, `not (a is None or not b)`
    and an inverted test with swapped branches are the same thing."""

    _FALSY = (None, "", 0, False, 0.0, b"")

    def __init__(self, ex: ast.AST):
        self.ex = ex
        self.param = _orch.trace_param(ex)
        self.pos: Set[str] = {self.param}
        self.neg: Set[str] = set()
        self.nn: Set[str] = {self.param}
        # (value or None when the binding is not a plain assignment, the binding statement)
        bound: Dict[str, List[Tuple[Optional[ast.AST], ast.AST]]] = {}
        for n in walk_no_nested(ex):
            if isinstance(n, ast.Assign):
                for t in n.targets:
                    if isinstance(t, ast.Name):
                        bound.setdefault(t.id, []).append((n.value, n))
                    else:
                        for nm in names_stored(t):
                            bound.setdefault(nm, []).append((None, n))
            elif isinstance(n, ast.AnnAssign) and isinstance(n.target, ast.Name):
                if n.value is not None:
                    bound.setdefault(n.target.id, []).append((n.value, n))
            elif isinstance(n, ast.NamedExpr):
                bound.setdefault(n.target.id, []).append((n.value, n))
            elif isinstance(n, (ast.AugAssign, ast.For, ast.AsyncFor)):
                for nm in names_stored(n.target):
                    bound.setdefault(nm, []).append((None, n))
            elif isinstance(n, (ast.With, ast.AsyncWith)):
                for it in n.items:
                    if it.optional_vars is not None:
                        for nm in names_stored(it.optional_vars):
                            bound.setdefault(nm, []).append((None, n))
            elif isinstance(n, ast.ExceptHandler) and n.name:
                bound.setdefault(n.name, []).append((None, n))
        bound.pop(self.param, None)
        changed = True
        while changed:
            changed = False
            for nm, vals in bound.items():
                for k, cell in (("pos", self.pos), ("neg", self.neg), ("nn", self.nn)):
                    if nm in cell:
                        continue
                    # the local tells something when every binding either does (by its value, or because it is only
                    # executed under a test that does) or binds a constant that cannot be mistaken for it
                    telling = [k in self._kinds(v) or k in self._guard_kinds(n) for v, n in vals]
                    neutral = [self._neutral(v, k) for v, _n in vals]
                    if any(telling) and all(t or u for t, u in zip(telling, neutral)):
                        cell.add(nm)
                        changed = True

    def _neutral(self, v: Optional[ast.AST], k: str) -> bool:
        if v is None:
            return False
        if k == "nn":
            return isinstance(v, ast.Constant) and v.value is None
        if k == "pos":
            return self._falsy_const(v)
        return isinstance(v, ast.Constant) and bool(v.value)

    def _guard_kinds(self, n: ast.AST) -> Set[str]:
        """A binding that is only executed on an edge of a test that guarantees the trace: the local is true / not
        None only if that edge was taken (given that its other bindings are constants that are false / None)."""
        child = n
        for a in ancestors(n):
            if isinstance(a, FuncNode + (ast.Lambda,)):
                break
            if isinstance(a, ast.If):
                eg = edges_guaranteeing(a.test, self.atom)
                if ("T" in eg and any(child is s for s in a.body)) or ("F" in eg and any(child is s for s in a.orelse)):
                    return {"pos", "nn"}
            child = a
        return set()

    def _falsy_const(self, e: ast.AST) -> bool:
        if isinstance(e, ast.Constant):
            return not e.value
        if isinstance(e, (ast.Dict, ast.List, ast.Tuple, ast.Set)):
            return not (e.keys if isinstance(e, ast.Dict) else e.elts)
        return False

    def _kinds(self, v: Optional[ast.AST]) -> Set[str]:
        if v is None:
            return set()
        if isinstance(v, ast.Name):
            return {k for k, cell in (("pos", self.pos), ("neg", self.neg), ("nn", self.nn)) if v.id in cell}
        if isinstance(v, ast.Call) and call_attr(v) == "cast" and len(v.args) == 2 and not v.keywords:
            return self._kinds(v.args[1])
        if isinstance(v, ast.NamedExpr):
            return self._kinds(v.value)
        if isinstance(v, ast.IfExp):
            eg = edges_guaranteeing(v.test, self.atom)
            for lab, other in (("T", v.orelse), ("F", v.body)):
                if lab in eg and self._falsy_const(other):
                    # true / not None only on the arm that is taken when the trace is present
                    return {"pos"} | ({"nn"} if isinstance(other, ast.Constant) and other.value is None else set())
            return self._kinds(v.body) & self._kinds(v.orelse)
        eg = edges_guaranteeing(v, self.atom)
        return ({"pos"} if "T" in eg else set()) | ({"neg"} if "F" in eg else set())

    def atom(self, e: ast.AST) -> Optional[bool]:
        """True: *e* being true means the trace is present; False: *e* being false means it."""
        if isinstance(e, ast.Name):
            return True if e.id in self.pos else False if e.id in self.neg else None
        if isinstance(e, ast.NamedExpr):
            return self.atom(e.value)
        if isinstance(e, ast.Compare) and len(e.ops) == 1:
            l, r_ = e.left, e.comparators[0]
            if isinstance(l, ast.Constant) and l.value is None:
                l, r_ = r_, l
            if isinstance(l, ast.Name) and l.id in self.nn and isinstance(r_, ast.Constant) and r_.value is None:
                if isinstance(e.ops[0], (ast.IsNot, ast.NotEq)):
                    return True
                if isinstance(e.ops[0], (ast.Is, ast.Eq)):
                    return False
        return None

    def fold(self, e: ast.AST) -> Optional[bool]:
        """True when the test can only be true with a trace attached, False when it can only be false with one."""
        eg = edges_guaranteeing(e, self.atom)
        return True if "T" in eg else False if "F" in eg else None

    def driver_vars(self) -> Set[str]:
        out = set()
        for c in calls_in(self.ex):
            if isinstance(c.func, ast.Attribute) and c.func.attr in _orch.DRIVER_METHODS and isinstance(c.func.value, ast.Name) and c.func.value.id in (self.nn | self.pos):
                out.add(c.func.value.id)
        return out


def run(repo: Repo, R: Report) -> None:
    ex = repo.func(ORCH, EXECUTE)
    R.assume(
        "payload classes whose hooks (__len__, __repr__, to_json) have side effects of their own are outside static reach: the rules show the framework does not cause a difference",
        "assertions.environment (incl. registry.fingerprint) is an environment snapshot by documentation, not a function of (config, payload)",
        "time/clock reads and uuid4 feed only the documented volatile fields",
    )
    R.undecided("equality of returned values traced vs untraced for payload classes with side-effecting hooks", "byte equality of two traces (only the structural sources of non-volatile differences are decided)")
    facts = _TraceFacts(ex)
    drivers = facts.driver_vars()
    fold = facts.fold

    # ------------------------------------------------------------------ D3 gating
    r_gate = R.rule("C10-D3-gating", "every trace driver call in execute is reachable only through a test that the trace/driver is present", 6)
    g = CFG(ex, may_raise=lambda p: set())

    present_atom = facts.atom

    dnodes = [n for n in g.nodes if n.ast is not None and n.kind == "stmt" and any(_orch.is_driver_call(c, drivers) for c in calls_in(n.ast))]
    if len(dnodes) < 5:
        raise AnalysisError(f"execute(): only {len(dnodes)} driver call statements found")
    for n in dnodes:
        holds, path, guards = returns_only_through(g, present_atom, targets=[n.id])
        R.check(holds and guards > 0, r_gate, ORCH, EXECUTE, norm(n.ast)[:90], "a driver method can be invoked without the trace being present (trace=None executes driver code / raises)", n.line, path)

    # ------------------------------------------------------------------ D1 effects in trace-only blocks
    r_eff = R.rule("C10-D1-no-effect-on-run", "statements executed only when a trace is attached neither rebind nor mutate the run's data/context/payload/nodes, and the trace helpers do not mutate the live objects they are given", 10)
    trace_blocks: List[ast.If] = []
    for n in ast.walk(ex):
        if isinstance(n, ast.If) and fold(n.test) is True:
            trace_blocks.append(n)
    if len(trace_blocks) < 4:
        raise AnalysisError("execute(): trace-guarded blocks not recognised")
    run_state = RUN_STATE | _run_state_by_role(ex, trace_blocks)
    R.note(f"run state of execute found by role: {sorted(run_state)}")
    for blk in trace_blocks:
        body_mod = ast.Module(body=blk.body, type_ignores=[])
        stored = set()
        for st in blk.body:
            for x in ast.walk(st):
                if isinstance(x, ast.Name) and isinstance(x.ctx, (ast.Store, ast.Del)):
                    stored.add(x.id)
        bad_rebind = stored & run_state
        muts = []
        for st in blk.body:
            muts.extend(mutation_sites(st, run_state, include_nested=True))
        what = ""
        if bad_rebind:
            what = f"run state `{sorted(bad_rebind)[0]}` is rebound inside code that only runs with a trace attached"
        elif muts:
            what = f"`{norm(muts[0][0])[:60]}` mutates run state inside code that only runs with a trace attached"
        R.check(not bad_rebind and not muts, r_eff, ORCH, EXECUTE, f"trace-only block at `{norm(blk)[:50]}` (line {blk.lineno})", what + ": traced and untraced runs diverge", blk.lineno)
    helper_fns: List[Tuple[str, str, ast.FunctionDef]] = []
    for h in TRACE_HELPERS:
        f = repo.maybe_func(ORCH, O + h)
        if f is not None:
            helper_fns.append((ORCH, O + h, f))
    # ... and whatever else of this module the trace-only blocks call (a helper that became a module-level function,
    # a piece split off a summary method): found through the call graph, not by name
    # only code that runs with a trace attached and not otherwise: every call site in the module lies in a trace-only
    # block of execute or in another such function
    omod_ = repo.module(ORCH)
    in_trace_block = {id(x) for blk in trace_blocks for st in blk.body for x in ast.walk(st)}
    cand: Dict[int, ast.AST] = {}
    todo_fns = [t for blk in trace_blocks for st in blk.body for c in calls_in(st, include_nested=True) for m, t in repo.resolve_call(omod_, c) if m.rel == ORCH]
    while todo_fns:
        t = todo_fns.pop()
        if id(t) in cand or not isinstance(t, FuncNode) or t is ex or t.name == "__init__" or any(isinstance(a, FuncNode) for a in ancestors(t)):
            continue
        cand[id(t)] = t
        todo_fns += [t2 for c in calls_in(t, include_nested=True) for m, t2 in repo.resolve_call(omod_, c) if m.rel == ORCH]
    all_sites: Dict[int, List[Tuple[ast.AST, ast.Call]]] = {}
    for _m, _qn, f in repo.all_functions():
        if _m.rel != ORCH or any(isinstance(a, FuncNode) for a in ancestors(f)):
            continue
        for c in calls_in(f, include_nested=True):
            for m, t in repo.resolve_call(omod_, c):
                if id(t) in cand:
                    all_sites.setdefault(id(t), []).append((f, c))
    changed = True
    while changed:
        changed = False
        for k in list(cand):
            if any(not (id(c) in in_trace_block or id(f) in cand) for f, c in all_sites.get(k, [])):
                del cand[k]
                changed = True
    known = {id(f) for _r, _q, f in helper_fns}
    for t in sorted(cand.values(), key=lambda t: t.lineno):
        if id(t) not in known:
            helper_fns.append((ORCH, qualname_of(t), t))
    umod = repo.module(UTILS)
    for qn, f in [(q, n) for q, n in umod.defs.items() if isinstance(n, FuncNode) and "." not in q]:
        helper_fns.append((UTILS, qn, f))
    dmod = repo.module(DELTA)
    for qn, f in [(q, n) for q, n in dmod.defs.items() if isinstance(n, FuncNode)]:
        helper_fns.append((DELTA, qn, f))
    for rel, qn, f in helper_fns:
        params = {a.arg for a in f.args.args + f.args.kwonlyargs} - {"self", "cls", "trace_opts", "summaries", "maxlen", "max_pairs"}
        live = params & (LIVE_PARAMS | {"node", "pre_ctx", "post_ctx", "context_delta", "params", "param_sources", "pre_checks", "post_checks", "env_pins", "timing", "error"})
        muts = mutation_sites(f, live)
        # building a fresh local from a param and mutating the local is fine: mutation_sites is rooted at the param name only
        R.check(not muts, r_eff, rel, qn, f"{qn} does not mutate its live arguments {sorted(live)}", f"`{norm(muts[0][0])[:70]}` mutates an object handed to trace code (the run sees the change)" if muts else "", f.lineno)

    # ------------------------------------------------------------------ D1 containment of hooks on live objects
    r_cont = R.rule("C10-D1-hook-containment", "trace code hands live payload/context values to user-overridable code (len, repr, to_bytes, to_json, serialisation) only inside a try that contains Exception; it never consumes them (list/iter/sorted/for over an object not known to be re-iterable)", 10)
    for rel, qn, f in helper_fns:
        live = _live_params(f)
        if not live:
            continue
        for c in calls_in(f):
            name = call_attr(c)
            args_live = [a for a in c.args if isinstance(a, ast.Name) and a.id in live]
            recv_live = isinstance(c.func, ast.Attribute) and isinstance(c.func.value, ast.Name) and c.func.value.id in live
            if (name in HOOK_CALLS and args_live and isinstance(c.func, ast.Name)) or (recv_live and name in HOOK_METHODS):
                if name in ("sha256_bytes",):
                    continue
                # helpers that contain internally are themselves checked; a call to them is safe
                internal = name in ("safe_repr", "serialize", "canonical_json_bytes", "context_to_kv_repr") and rel != UTILS
                ok = contained(c) or _callee_contains(repo, umod, name) or _all_callers_contained(repo, f, 0)
                R.check(ok, r_cont, rel, qn, norm(c)[:80], "a live user object is handed to overridable code outside any containing try: an exception there changes what the traced run raises", c.lineno)
            # consumption
            if name in CONSUMERS and args_live and (isinstance(c.func, ast.Name) or name == "join"):
                a = args_live[0]
                if not _guarded_reiterable(c, a.id):
                    R.violation(r_cont, rel, qn, norm(stmt_of(c))[:90], f"`{name}({a.id})` consumes an arbitrary live object (a one-shot iterator in the payload is drained by tracing before/after the node sees it)", c.lineno)
        for n in walk_no_nested(f):
            if isinstance(n, (ast.For, ast.comprehension)) and isinstance(n.iter, ast.Name) and n.iter.id in _opaque_params(f):
                if not _guarded_reiterable(n if isinstance(n, ast.For) else n.iter, n.iter.id):
                    R.violation(r_cont, rel, qn, norm(n if isinstance(n, ast.For) else n.iter)[:90], "iteration over an arbitrary live object inside trace code", getattr(n, "lineno", f.lineno))

    # ------------------------------------------------------------------ D1b serialisation sinks on SAFE data
    _json_safe_producers(repo, R)
    r_sink = R.rule("C10-D1b-sinks", "uncontained json/deepcopy/asdict sinks in SER construction are applied only to the sanitised preprocessor metadata", 2)
    builders = _ser_builders(repo, ex, drivers)
    for site_rel, site_qn, site_fn, c, why in _ser_sink_sites(repo, builders):
        R.check(not why, r_sink, site_rel, site_qn, norm(c)[:80], f"an uncontained serialisation sink is applied to a value that is not the sanitised preprocessor metadata ({why}): a non-JSON configuration value makes the traced run raise", c.lineno)

    # ------------------------------------------------------------------ D2 no accumulating state feeds the stream
    r_hist = R.rule("C10-D2-no-history", "orchestrator and driver keep no accumulating per-object or module-level state that the records of a later run are computed from; stable record fields derive from this call's arguments", 3)
    omod = repo.module(ORCH)
    for cls_name in ("SemantivaOrchestrator", "LocalSemantivaOrchestrator"):
        cls = omod.defs.get(cls_name)
        if not isinstance(cls, ast.ClassDef):
            continue
        grown: Dict[str, ast.AST] = {}
        for f in [n for n in cls.body if isinstance(n, FuncNode)]:
            for n in ast.walk(f):
                if isinstance(n, ast.Assign):
                    for t in n.targets:
                        if isinstance(t, ast.Subscript) and (dotted_name(t.value) or "").startswith("self.") and not isinstance(t.slice, ast.Constant):
                            grown.setdefault(dotted_name(t.value), n)
                if isinstance(n, ast.Call) and isinstance(n.func, ast.Attribute) and n.func.attr in GROWERS and (dotted_name(n.func.value) or "").startswith("self."):
                    grown.setdefault(dotted_name(n.func.value), n)
        for attr, site in grown.items():
            readers = [qualname_of(f) for f in [n for n in cls.body if isinstance(n, FuncNode)] if any(isinstance(x, ast.Attribute) and dotted_name(x) == attr and isinstance(x.ctx, ast.Load) for x in ast.walk(f))]
            R.violation(r_hist, ORCH, cls_name, norm(site)[:90], f"`{attr}` accumulates across execute() calls and is read in {sorted(set(readers))[:3]}: what a run records (or retains) depends on what the same orchestrator ran before", site.lineno)
        R.ok(r_hist, ORCH, cls_name, f"accumulating instance attributes: {len(grown)}", "none" if not grown else "")
    # module-level mutable state in the orchestrator module: a binding is history only when something can
    # change it after import (mutation, rebinding, or the object escaping to code that could); a literal table
    # that is only read is a constant, wherever it is written
    consts = module_constants(omod)
    mod_state = [st for st in omod.tree.body if isinstance(st, (ast.Assign, ast.AnnAssign)) and isinstance(getattr(st, "value", None), (ast.Dict, ast.List, ast.Set, ast.Call, ast.ListComp, ast.DictComp, ast.SetComp)) and not (isinstance(st.value, ast.Call) and call_attr(st.value) in ("TypeVar", "getLogger", "frozenset", "tuple", "object", "NewType", "compile"))]
    for st in mod_state:
        nm = dotted_name(st.targets[0] if isinstance(st, ast.Assign) else st.target)
        if nm is None:
            continue
        uses = [(qn, x) for _m, qn, f in repo.all_functions() if _m.rel == ORCH for x in ast.walk(f) if isinstance(x, ast.Name) and x.id == nm]
        frozen = nm in consts and _immutable_leaves(st.value)
        escaping = [(qn, x) for qn, x in uses if not _read_only_use(x)]
        ok = not uses or (frozen and not escaping)
        where = ""
        if not ok:
            qn, x = (escaping or uses)[0]
            where = f" (`{norm(stmt_of(x))[:60]}` in {qn})"
        R.check(ok, r_hist, ORCH, "<module>", norm(st)[:80], f"module-level mutable `{nm}` is used by the orchestrator and is not a read-only literal table{where}: records can depend on earlier runs in the process", st.lineno)
    # ids of SER / pipeline_end come from this call (shared with C06-D3): _make_ser_record reads no self attribute
    for b_rel, b_qn, b_fn in _ser_closure(repo, builders)[0]:
        self_reads = sorted({dotted_name(x) for x in ast.walk(b_fn) if isinstance(x, ast.Attribute) and isinstance(x.value, ast.Name) and x.value.id == "self" and isinstance(x.ctx, ast.Load) and not (isinstance(getattr(x, "_parent", None), ast.Call) and x._parent.func is x)} - {None})
        if b_fn.args.args and b_fn.args.args[0].arg != "self":
            self_reads = []  # a module-level function: `self` is not the orchestrator
        R.check(not self_reads, r_hist, b_rel, b_qn, "SER construction reads no instance state", f"SER fields are computed from persistent instance state {self_reads}", b_fn.lineno)
    _no_identity_in_stream(repo, R, ex, helper_fns, drivers)
    _no_run_carried_instance_state(repo, R)
    _no_shared_mutable_tables(repo, R)
    _sinks_not_stricter_than_sanitiser(repo, R, drivers)
    _caller_data_reaches_sink_sanitised(repo, R)
    _driver_reusable_after_close(repo, R)
    _mode_selected_work_contained(repo, R, ex, fold)
    _trace_only_work_contained(repo, R, ex, facts, drivers)
    _sinks_keep_values_as_given(repo, R, ex, drivers)
    _mappings_of_sanitised_values_agree(repo, R)
    _trace_only_code_is_total(repo, R, ex, facts, helper_fns)
    _record_mapping_keys_ordered(repo, R, ex, facts)
    _written_text_always_encodable(repo, R)
    _published_class_state_is_snapshot(repo, R, [ex] + [f for _r, _q, f in builders])
    # the caller-owned canonical spec is not mutated (pipeline_id would depend on history)
    from . import c04

    R.rule_prefix = "C10-D2/"
    try:
        c04.no_mutation_of_hashed_input(repo, R)
    finally:
        R.rule_prefix = ""


# ---------------------------------------------------------------------------------------------------------
# D1b: the SER builder, found by role, and the serialisation sinks on its path
# ---------------------------------------------------------------------------------------------------------
SER_SINKS = {"json.dumps", "json.loads", "copy.deepcopy", "deepcopy", "asdict", "dataclasses.asdict", "compute_node_semantic_id"}
_PASS_THROUGH = {"json.dumps", "json.loads", "copy.deepcopy", "deepcopy", "dict", "copy.copy"}
PRE_KEY = "preprocessor"


def _ser_builders(repo: Repo, ex: ast.AST, drivers: Set[str]) -> List[Tuple[str, str, ast.AST]]:
    """The function(s) whose result execute() hands to the driver's on_node_event: whatever they are called and
    wherever they live (method, module-level function), they are what builds the step record."""
    omod = repo.module(ORCH)
    out: List[Tuple[str, str, ast.AST]] = []
    seen: Set[int] = set()
    for c in calls_in(ex):
        if not _orch.is_driver_call(c, drivers, "on_node_event"):
            continue
        for a in list(c.args) + [k.value for k in c.keywords]:
            for form in _value_forms(ex, a):
                if not isinstance(form, ast.Call):
                    continue
                for m, f in repo.resolve_call(omod, form):
                    if isinstance(f, FuncNode) and f.name != "__init__" and id(f) not in seen:
                        seen.add(id(f))
                        out.append((m.rel, qualname_of(f), f))
    if not out:
        raise AnalysisError("execute(): the function that builds the record handed to on_node_event was not recognised")
    return out


def _ser_closure(repo: Repo, builders):
    """Normal forms of the SER builders and of the same-module functions they call that the normaliser did not
    inline (public helpers, helpers with several returns), with the call sites through which each is entered."""
    fns: List[Tuple[str, str, ast.AST]] = []
    sites: Dict[int, List[Tuple[ast.AST, ast.Call]]] = {}
    nf_of: Dict[int, ast.AST] = {}
    todo = [(rel, qn, f, 0) for rel, qn, f in builders]
    while todo:
        rel, qn, raw, depth = todo.pop(0)
        if id(raw) in nf_of:
            continue
        nf = nfunc(repo, rel, qn)
        nf_of[id(raw)] = nf
        fns.append((rel, qn, nf))
        if depth >= 3:
            continue
        mod = repo.module(rel)
        for c in calls_in(nf, include_nested=True):
            for m, t in repo.resolve_call(mod, c):
                if m.rel == rel and isinstance(t, ast.FunctionDef) and t.name != "__init__" and enclosing_function_is_module_or_class(t):
                    sites.setdefault(id(t), []).append((nf, c))
                    todo.append((rel, qualname_of(t), t, depth + 1))
    return fns, {id(nf_of[k]): v for k, v in sites.items() if k in nf_of}, {id(nf) for _r, _q, nf in fns[:len(builders)]}


def enclosing_function_is_module_or_class(f: ast.AST) -> bool:
    return not any(isinstance(a, FuncNode) for a in ancestors(f))


def _bind_call(f: ast.AST, c: ast.Call) -> Optional[Dict[str, ast.AST]]:
    """parameter name -> argument expression of the call *c* to *f* (None when it cannot be told)."""
    if any(isinstance(a, ast.Starred) for a in c.args) or any(k.arg is None for k in c.keywords) or f.args.vararg or f.args.kwarg:
        return None
    pos = [a.arg for a in f.args.posonlyargs + f.args.args]
    if pos and pos[0] in ("self", "cls") and isinstance(c.func, ast.Attribute):
        pos = pos[1:]
    if len(c.args) > len(pos):
        return None
    out: Dict[str, ast.AST] = dict(zip(pos, c.args))
    for k in c.keywords:
        out[k.arg] = k.value
    allp = f.args.posonlyargs + f.args.args
    for a, d in list(zip(allp[len(allp) - len(f.args.defaults):], f.args.defaults)) + [(a, d) for a, d in zip(f.args.kwonlyargs, f.args.kw_defaults) if d is not None]:
        out.setdefault(a.arg, d)
    return out


def _scope_chain(n: ast.AST, root: ast.AST) -> List[ast.AST]:
    """The function scopes *n* is evaluated in, innermost first, up to *root*."""
    out = [a for a in ancestors(n) if isinstance(a, FuncNode + (ast.Lambda,))]
    if root in out:
        out = out[:out.index(root) + 1]
    elif n is not root:
        out.append(root)
    return out or [root]


def _ser_sink_sites(repo: Repo, builders):
    """(rel, qualname, function, sink call, reason) for every uncontained serialisation sink on the SER
    construction path; reason is '' when the value it is applied to is the sanitised preprocessor metadata (read
    by its key from the processor's metadata, possibly copied through json / dict), else says what it is."""
    fns, sites, roots = _ser_closure(repo, builders)

    def derives(fn: ast.AST, e: Optional[ast.AST], depth: int = 0) -> str:
        if e is None or isinstance(e, ast.Constant):
            return ""
        if depth > 8:
            return f"`{norm(e)[:40]}`: derivation too deep"
        if isinstance(e, ast.IfExp):
            return derives(fn, e.body, depth + 1) or derives(fn, e.orelse, depth + 1)
        if isinstance(e, ast.BoolOp):
            return next((w for w in (derives(fn, v, depth + 1) for v in e.values) if w), "")
        if isinstance(e, ast.Subscript):
            if isinstance(e.slice, ast.Constant) and e.slice.value == PRE_KEY:
                return ""
            return f"`{norm(e)[:40]}` is not the `{PRE_KEY}` entry of the processor metadata"
        if isinstance(e, ast.Call):
            d = call_name(e) or ""
            if call_attr(e) == "get" and e.args and isinstance(e.args[0], ast.Constant) and e.args[0].value == PRE_KEY:
                return next((w for w in (derives(fn, a, depth + 1) for a in e.args[1:]) if w), "")
            if (d in _PASS_THROUGH or d.split(".")[-1] in ("deepcopy",)) and len(e.args) == 1:
                return derives(fn, e.args[0], depth + 1)
            if call_attr(e) == "copy" and isinstance(e.func, ast.Attribute) and not e.args:
                return derives(fn, e.func.value, depth + 1)
            return f"`{norm(e)[:40]}` is not derived from the sanitised preprocessor metadata"
        if isinstance(e, ast.Name):
            for scope in _scope_chain(e, fn):
                vals = assigned_value(scope, e.id)
                other = [x for x in walk_no_nested(scope) if isinstance(x, ast.Name) and x.id == e.id and isinstance(x.ctx, ast.Store)]
                if vals or other:
                    if len(other) > len(vals):
                        return f"`{e.id}` is bound by something other than a plain assignment"
                    return next((w for w in (derives(scope if not isinstance(scope, ast.Lambda) else fn, v, depth + 1) for v in vals) if w), "")
                params = {a.arg for a in scope.args.posonlyargs + scope.args.args + scope.args.kwonlyargs}
                if e.id in params:
                    if id(scope) in roots or scope is not fn and not isinstance(scope, ast.Lambda) and id(scope) not in sites:
                        return f"`{e.id}` is a parameter of the record builder (run data), not the preprocessor metadata"
                    callers = sites.get(id(scope), [])
                    if not callers:
                        return f"`{e.id}`: no call site of {getattr(scope, 'name', '<lambda>')} found"
                    for caller, call in callers:
                        b = _bind_call(scope, call)
                        if b is None:
                            raise AnalysisError(f"SER construction: arguments of `{norm(call)[:60]}` cannot be bound to parameters")
                        if e.id not in b:
                            return f"`{e.id}` is not bound at `{norm(call)[:40]}`"
                        cf = next((a for a in [call] + list(ancestors(call)) if isinstance(a, FuncNode) and (id(a) in sites or id(a) in roots)), caller)
                        w = derives(cf, b[e.id], depth + 1)
                        if w:
                            return w
                    return ""
            return f"`{e.id}` is not a local of the record builder"
        return f"`{norm(e)[:40]}` is not derived from the sanitised preprocessor metadata"

    out = []
    for rel, qn, nf in fns:
        for c in calls_in(nf, include_nested=True):
            d = call_name(c) or ""
            if d not in SER_SINKS or contained(c):
                continue
            # the inner call of json.loads(json.dumps(x)) is decided on its own
            args = list(c.args[:1]) or [k.value for k in c.keywords][:1]
            why = next((w for w in (derives(nf, a) for a in args) if w), "")
            out.append((rel, qn, nf, c, why))
    return out


def _callee_contains(repo: Repo, umod, name: Optional[str]) -> bool:
    """Does trace/_utils.<name> contain its own hooks (every hook call on its parameter inside a containing try)?"""
    f = umod.defs.get(name or "")
    if not isinstance(f, FuncNode):
        return False
    params = {a.arg for a in f.args.args}
    for c in calls_in(f):
        a = call_attr(c)
        touches = any(isinstance(x, ast.Name) and x.id in params for x in ast.walk(c))
        if touches and (a in HOOK_CALLS or a in HOOK_METHODS or (call_name(c) or "").startswith("json.")) and a not in ("sha256_bytes", "len"):
            if not contained(c):
                return False
    return True


def _all_callers_contained(repo: Repo, f: ast.AST, depth: int) -> bool:
    """Every call site of function *f* inside the trace path (orchestrator, trace package) is contained,
    directly or through its own callers (two levels)."""
    name = getattr(f, "name", None)
    if name is None or depth > 2:
        return False
    sites = []
    for m in repo.modules.values():
        if not (m.rel.startswith("semantiva/trace/") or m.rel == ORCH):
            continue
        for qn, g in [(q, n) for q, n in m.defs.items() if isinstance(n, FuncNode)]:
            for c in calls_in(g):
                if call_attr(c) == name and g is not f:
                    sites.append((g, c))
    if not sites:
        return False
    return all(contained(c) or _all_callers_contained(repo, g, depth + 1) for g, c in sites)


def _guarded_reiterable(node: ast.AST, var: str) -> bool:
    return _guarded_isinstance(node, var, REITERABLE)


def _guarded_isinstance(node: ast.AST, var: str, allowed: Set[str]) -> bool:
    """Is *node* in the true branch of a test `isinstance(<var>, T)` with every T in *allowed*?"""
    child = node
    for a in ancestors(node):
        if isinstance(a, FuncNode):
            return False
        if isinstance(a, ast.If) and any(child is s or any(child is x for x in ast.walk(s)) for s in a.body):
            for c in ast.walk(a.test):
                if isinstance(c, ast.Call) and call_attr(c) == "isinstance" and len(c.args) == 2 and dotted_name(c.args[0]) == var:
                    t = c.args[1]
                    names = [dotted_name(e) for e in (t.elts if isinstance(t, ast.Tuple) else [t])]
                    if names and all(n is not None and n.split(".")[-1] in allowed for n in names):
                        return True
        child = a
    return False


# ---------------------------------------------------------------------------------------------------------
# D2: read-only literal tables
# ---------------------------------------------------------------------------------------------------------
READ_METHODS = {"get", "keys", "values", "items", "copy", "index", "count", "__contains__", "__getitem__", "__len__", "__iter__"}
READ_BUILTINS = {"len", "sorted", "list", "dict", "set", "tuple", "frozenset", "isinstance", "bool", "any", "all", "min", "max", "sum", "enumerate", "iter", "reversed", "zip", "repr", "str"}


def _immutable_leaves(e: ast.AST, top: bool = True) -> bool:
    """A literal container (one level of mutability only: the container itself) whose elements cannot be changed
    through a reference obtained by reading it."""
    if isinstance(e, ast.Constant):
        return True
    if isinstance(e, ast.UnaryOp) and isinstance(e.operand, ast.Constant):
        return True
    if isinstance(e, ast.Tuple):
        return all(_immutable_leaves(x, False) for x in e.elts)
    if isinstance(e, ast.Call) and dotted_name(e.func) in ("frozenset", "tuple") and len(e.args) == 1:
        return _immutable_leaves(e.args[0], True)
    if not top:
        return False
    if isinstance(e, (ast.List, ast.Set)):
        return all(_immutable_leaves(x, False) for x in e.elts)
    if isinstance(e, ast.Dict):
        return all(k is not None and _immutable_leaves(k, False) and _immutable_leaves(v, False) for k, v in zip(e.keys, e.values))
    return False


def _read_only_use(x: ast.Name) -> bool:
    """Is this occurrence of a module-level name a read that neither changes the object nor lets it escape
    (receiver of a read method, subscript load, membership / comparison operand, iteration source, argument of a
    builtin that only reads, spread into a fresh container)?"""
    if not isinstance(x.ctx, ast.Load):
        return False
    p = getattr(x, "_parent", None)
    if isinstance(p, ast.Attribute) and p.value is x:
        pp = getattr(p, "_parent", None)
        return isinstance(pp, ast.Call) and pp.func is p and p.attr in READ_METHODS
    if isinstance(p, ast.Subscript) and p.value is x:
        return isinstance(p.ctx, ast.Load)
    if isinstance(p, ast.Compare):
        return True
    if isinstance(p, (ast.For, ast.comprehension)) and p.iter is x:
        return True
    if isinstance(p, ast.Call) and x in p.args and isinstance(p.func, ast.Name) and p.func.id in READ_BUILTINS:
        return True
    if isinstance(p, ast.Starred):
        return isinstance(getattr(p, "_parent", None), (ast.List, ast.Tuple, ast.Set))
    if isinstance(p, ast.Dict) and x in p.values and p.keys[p.values.index(x)] is None:
        return True  # {**TABLE, ...}
    if isinstance(p, (ast.BoolOp, ast.UnaryOp, ast.If, ast.While, ast.IfExp)) and (not isinstance(p, ast.IfExp) or p.test is x) and (not isinstance(p, ast.BoolOp)):
        return True  # truth test
    return False


# ---------------------------------------------------------------------------------------------------------
# D1b: producers of what the traced run serialises uncontained are JSON-safe by construction
# ---------------------------------------------------------------------------------------------------------
SEM = "semantiva/metadata/semantic_id.py"
GRAPH = "semantiva/pipeline/graph_builder.py"
SANITISERS = {"float", "int", "str", "bool", "len", "repr", "_json_safe_sample", "serialize_json_safe", "safe_repr", "sha256_bytes", "_sha256_json", "hexdigest"}


_LEAF_CTX: Dict[str, object] = {}


def _sanitiser_problems(repo: Repo, rel: str, qn: str) -> List[Tuple[ast.AST, str]]:
    """(return statement, why) for every return of the function through which a value can leave that is neither text,
    nor built by a total conversion, nor the argument after a proof that the strict JSON encoder accepts it (a completed
    `json.dumps` of the whole value, a test against the exact JSON scalar types - of every item, for a container) on
    every path to that return.  The value analysis is the one C06-D2c uses for the sanitisers it knows by name
    (`c06._Sanitiser`: normal form, CFG, proof edges); here it is applied to whatever function plays the role."""
    from . import c06

    S = c06._Sanitiser(repo, rel, qn)
    g = S.g
    rets = [n for n in g.nodes if n.kind == "stmt" and isinstance(n.ast, ast.Return)]
    if not rets:
        raise AnalysisError(f"{qn}: no return statement found")
    out: List[Tuple[ast.AST, str]] = []
    edges_cache: Dict[str, Set[Tuple[int, str]]] = {}
    done: Set[int] = set()
    for n in rets:
        if id(n.ast) in done or n.ast.value is None:
            continue
        done.add(id(n.ast))
        ids = g.nodes_for(n.ast)
        arms: List[Tuple[ast.AST, List[Tuple[ast.AST, bool]]]] = []

        def split(e: ast.AST, guards) -> None:
            if isinstance(e, ast.IfExp):
                split(e.body, guards + [(e.test, True)])
                split(e.orelse, guards + [(e.test, False)])
            else:
                arms.append((e, guards))

        split(n.ast.value, [])
        for arm, guards in arms:
            for tag in sorted(S.classify(arm, ids)):
                if tag in ("text", "safe"):
                    continue
                if tag.startswith("raw:"):
                    ptag = tag[4:]
                    if ptag not in edges_cache:
                        edges_cache[ptag] = S.proof_edges(ptag)
                    seen = g.reach([g.entry], blocked_edges=edges_cache[ptag])
                    open_ids = [i for i in ids if i in seen]
                    if not open_ids:
                        continue
                    subj = lambda x, ids_=ids, ptag_=ptag: S.param_of(x, ids_) == ptag_
                    if any(("T" if pol else "F") in edges_guaranteeing(t, lambda tt: S.proves(tt, subj)) for t, pol in guards):
                        continue
                    path = g.path_to(seen, open_ids[0])
                    via = next((p_.split(": ", 1)[-1].split(" <-")[0][:80] for p_ in reversed(path[:-1]) if ": <" not in p_), "function entry")
                    out.append((n.ast, f"returns its argument `{ptag.split('@')[0]}` unchanged on a path where nothing proves that json.dumps accepts it (reached via `{via}`): only a completed strict json.dumps of the whole value, or a test against the exact JSON scalar types str / int / float / bool / None (of every item, for a container), does - `numbers.Number` also covers numpy scalars, Decimal, Fraction and complex"))
                else:
                    out.append((n.ast, f"returns `{tag[1:]}`, which is neither text nor a value proven JSON-encodable"))
    return out


def _leaf_safe(fn: ast.AST, e: ast.AST, depth: int = 0) -> bool:
    """Is the value of *e* JSON-safe by construction (sanitiser table, literals, containers of those)?  Locals are
    looked up by whatever name they have (all their assignments must be safe)."""
    if isinstance(e, (ast.Constant, ast.JoinedStr)):
        return True
    if isinstance(e, ast.Attribute) and e.attr in ("__name__", "__qualname__", "__module__"):
        return True
    if isinstance(e, ast.Call):
        a = call_attr(e)
        if _LEAF_CTX:
            # a function of the repository applied to the leaf is a sanitiser by role, whatever it is called and
            # wherever it lives: whether it deserves the name is decided on its own body (C10-D1b-leaf-sanitisers-sound)
            targets = [(m, t) for m, t in _LEAF_CTX["repo"].resolve_call(_LEAF_CTX["mod"], e) if isinstance(t, ast.FunctionDef) and t.name != "__init__"]
            if targets and enclosing_function_is_module_or_class(targets[0][1]):
                for m, t in targets:
                    _LEAF_CTX["found"].setdefault(id(t), (m.rel, qualname_of(t), e))
                return True
        if a in SANITISERS:
            return True
        if a in ("list", "sorted", "tuple") and e.args:
            return _leaf_safe(fn, e.args[0], depth)
        return False
    if isinstance(e, ast.Dict):
        return all(k is not None and isinstance(k, ast.Constant) and _leaf_safe(fn, v, depth) for k, v in zip(e.keys, e.values))
    if isinstance(e, (ast.List, ast.Tuple)):
        return all(_leaf_safe(fn, v, depth) for v in e.elts)
    if isinstance(e, ast.ListComp):
        return _leaf_safe(fn, e.elt, depth)
    if isinstance(e, ast.IfExp):
        return _leaf_safe(fn, e.body, depth) and _leaf_safe(fn, e.orelse, depth)
    if isinstance(e, ast.Name) and depth < 4:
        vals = _lookup(fn, e)
        return bool(vals) and all(_leaf_safe(fn, v, depth + 1) for v in vals)
    return False


def _value_forms(fn: ast.AST, e: ast.AST, depth: int = 0) -> List[ast.AST]:
    """The expressions *e* can stand for: itself, both arms of a conditional, every assignment of a local."""
    if isinstance(e, ast.IfExp):
        return _value_forms(fn, e.body, depth) + _value_forms(fn, e.orelse, depth)
    if isinstance(e, ast.Name) and depth < 4:
        vals = _lookup(fn, e)
        if vals:
            return [f for v in vals for f in _value_forms(fn, v, depth + 1)]
    return [e]


def _lookup(fn: ast.AST, e: ast.Name) -> List[ast.AST]:
    """What the name *e* can stand for where it is written: the plain assignments of the innermost enclosing
    function that binds it (a closure reads the locals of the function it is defined in), else a module-level
    assignment; nothing for a parameter."""
    for a in ancestors(e):
        if isinstance(a, FuncNode + (ast.Lambda,)):
            if not isinstance(a, ast.Lambda):
                vals = assigned_value(a, e.id)
                if vals:
                    return vals
            if e.id in {x.arg for x in a.args.posonlyargs + a.args.args + a.args.kwonlyargs}:
                return []
        elif isinstance(a, ast.Module):
            return [st.value for st in a.body if isinstance(st, (ast.Assign, ast.AnnAssign)) and st.value is not None and any(isinstance(t, ast.Name) and t.id == e.id for t in (st.targets if isinstance(st, ast.Assign) else [st.target]))]
    return assigned_value(fn, e.id)


def _callee_defs(repo: Repo, mod, fn: ast.AST, f: ast.AST, depth: int = 0) -> Optional[List[ast.AST]]:
    """The local callables (nested defs, lambdas, functions of the same module) the expression *f* in call position
    can stand for - directly, through a local, or picked from a local dispatch table (`T.get(k[, d])`, `T[k]` with T a
    dict display); None when that cannot be told."""
    if depth > 5:
        return None
    if isinstance(f, ast.Lambda):
        return [f]
    if isinstance(f, ast.Constant) and f.value is None:
        return []  # `None` is never called on a path that returns
    if isinstance(f, ast.IfExp):
        parts = [_callee_defs(repo, mod, fn, x, depth + 1) for x in (f.body, f.orelse)]
        return None if any(x is None for x in parts) else parts[0] + parts[1]
    if isinstance(f, ast.Name):
        r = repo.resolve_name(mod, f, f)
        if r is not None and r[0] is mod and isinstance(r[1], ast.FunctionDef):
            return [r[1]]
        vals = _lookup(fn, f)
        if not vals:
            return None
        parts = [_callee_defs(repo, mod, fn, v, depth + 1) for v in vals]
        return None if any(x is None for x in parts) else [d for x in parts for d in x]
    table: Optional[ast.AST] = None
    extra: List[ast.AST] = []
    if isinstance(f, ast.Call) and call_attr(f) == "get" and isinstance(f.func, ast.Attribute) and 1 <= len(f.args) <= 2 and not f.keywords:
        table, extra = f.func.value, list(f.args[1:])
    elif isinstance(f, ast.Subscript):
        table = f.value
    if table is None:
        return None
    out: List[ast.AST] = []
    for form in _value_forms(fn, table):
        if not isinstance(form, ast.Dict) or any(k is None for k in form.keys):
            return None
        extra = extra + list(form.values)
    for v in extra:
        d = _callee_defs(repo, mod, fn, v, depth + 1)
        if d is None:
            return None
        out.extend(d)
    return out


def _returned_forms(repo: Repo, mod, f: ast.AST, depth: int = 0, seen: Tuple[int, ...] = ()) -> List[Tuple[ast.AST, ast.AST, ast.AST]]:
    """(function, return statement, value form) for everything *f* can return, looking through locals, conditional
    expressions and calls of local callables (closures of a dispatch table, helpers the normaliser left alone)."""
    out: List[Tuple[ast.AST, ast.AST, ast.AST]] = []
    if isinstance(f, ast.Lambda):
        rets: List[Tuple[ast.AST, ast.AST]] = [(f, f.body)]
    else:
        rets = [(n, n.value) for n in walk_no_nested(f) if isinstance(n, ast.Return) and n.value is not None]
    for ret, value in rets:
        for form in _value_forms(f, value):
            callees = _callee_defs(repo, mod, f, form.func) if isinstance(form, ast.Call) and depth < 4 else None
            if callees and not any(id(c) in seen or c is f for c in callees):
                for c in callees:
                    out.extend(_returned_forms(repo, mod, c, depth + 1, seen + (id(f),)))
            else:
                out.append((f, ret, form))
    return out


def _json_safe_producers(repo: Repo, R: Report) -> None:
    r = R.rule("C10-D1b-json-safe-producers", "what the traced run serialises outside a containing try (preprocessor metadata in SER construction, the canonical spec handed to pipeline_start / compute_pipeline_id) is JSON-safe by construction: every leaf of a sweep variable's domain signature passes a sanitiser, and a canonical node is appended only after it has been json-dumped (a failure there fails traced and untraced runs alike, before execute)", 6)
    r_san = R.rule("C10-D1b-leaf-sanitisers-sound", "a function of the repository that the producers of uncontained trace input apply to a leaf (a sample of a sweep sequence, a value stored into a canonical node) - found by that role, not by its name or home module - lets a value out only as text, through a total conversion, or as its argument after a proof that the strict JSON encoder accepts it on every path to that return (completed json.dumps of the whole value; test against the exact JSON scalar types): the consumers in the trace-only part of execute() (`compute_pipeline_semantic_id(canonical)`, the pipeline_start record) json-dump what it returns outside any try, so an unsound fast path makes the traced run raise where the untraced run returns", 1)
    _LEAF_CTX.clear()
    _LEAF_CTX.update({"repo": repo, "mod": repo.module(SEM), "found": {}})
    try:
        _json_safe_producers_body(repo, R, r)
        found = dict(_LEAF_CTX["found"])  # type: ignore[arg-type]
    finally:
        _LEAF_CTX.clear()
    if not found:
        raise AnalysisError("no repository function is applied to a leaf of the domain signature / a canonical node (the sample sanitiser vanished)")
    for rel, qn, site in sorted(found.values(), key=lambda t: (t[0], t[1])):
        probs = _sanitiser_problems(repo, rel, qn)
        if probs:
            ret, why = probs[0]
            R.violation(r_san, rel, qn, norm(ret)[:100], f"{why}; `{norm(site)[:50]}` puts what it returns into metadata that the trace-only part of execute() hashes / writes uncontained (the preprocessor metadata copied into the canonical spec): a sweep over such values runs untraced and raises TypeError as soon as a trace driver is attached", ret.lineno)
        else:
            R.ok(r_san, rel, qn, f"{qn}: text, a total conversion, or the argument after a proof of encodability (applied at `{norm(site)[:50]}`)")


def _json_safe_producers_body(repo: Repo, R: Report, r) -> None:
    vds = nfunc(repo, SEM, "variable_domain_signature", keep=tuple(SANITISERS))
    n_leaves = 0
    for scope, ret, form in _returned_forms(repo, repo.module(SEM), vds):
        where = "variable_domain_signature" if scope is vds else f"variable_domain_signature.{getattr(scope, 'name', '<lambda>')}"
        if not isinstance(form, ast.Dict):
            n_leaves += 1
            R.check(_leaf_safe(scope, form), r, SEM, where, f"returned: {norm(form)[:70]}", "the domain signature is not built from sanitised leaves: a raw configuration value can reach json.dumps in SER construction (the traced run raises, the untraced run does not)", getattr(form, "lineno", vds.lineno))
            continue
        items = list(zip(form.keys, form.values))
        # later `sig[key] = value` stores into the returned local
        if isinstance(ret, ast.Return) and isinstance(ret.value, ast.Name):
            for n in walk_no_nested(scope):
                if isinstance(n, ast.Assign) and len(n.targets) == 1 and isinstance(n.targets[0], ast.Subscript) and dotted_name(n.targets[0].value) == ret.value.id:
                    items.append((n.targets[0].slice, n.value))
        for k, v in items:
            kname = k.value if isinstance(k, ast.Constant) else "?"
            # getattr(spec, "key", None) of a from_context variable: the key is a mapping key of the YAML (str)
            if isinstance(v, ast.Call) and call_attr(v) == "getattr" and kname == "key":
                continue
            n_leaves += 1
            R.check(k is not None and _leaf_safe(scope, v), r, SEM, where, f"{kname!r}: {norm(v)[:70]}",
                    "a raw configuration value (e.g. a YAML date in a sweep sequence) is embedded unsanitised in metadata that is hashed/serialised uncontained in SER construction and attached to pipeline_start: json.dumps raises TypeError in the traced run only", getattr(v, "lineno", vds.lineno))
    if n_leaves == 0:
        raise AnalysisError("variable_domain_signature: no returned value recognised")

    # canonical nodes: appended only after having been json-dumped
    if _LEAF_CTX:
        _LEAF_CTX["mod"] = repo.module(GRAPH)
    bcs = nfunc(repo, GRAPH, "build_canonical_spec")
    node_lists: Set[str] = set()
    for ret in [n for n in walk_no_nested(bcs) if isinstance(n, ast.Return) and n.value is not None]:
        first = ret.value.elts[0] if isinstance(ret.value, ast.Tuple) and ret.value.elts else ret.value
        for form in _value_forms(bcs, first):
            if isinstance(form, ast.Dict):
                for k, v in zip(form.keys, form.values):
                    if isinstance(k, ast.Constant) and k.value == "nodes":
                        if isinstance(v, ast.Name):
                            node_lists.add(v.id)
                        else:
                            raise AnalysisError(f"build_canonical_spec: `nodes` is built by `{norm(v)[:60]}` (unknown shape)")
    if not node_lists:
        raise AnalysisError("build_canonical_spec: the returned canonical mapping / its `nodes` list was not recognised")
    g = CFG(bcs)
    grow: List[Tuple[ast.AST, Optional[List[ast.AST]]]] = []  # (growing statement / call, elements added or None when unknown)
    for c in calls_in(bcs):
        if isinstance(c.func, ast.Attribute) and c.func.attr in GROWERS and isinstance(c.func.value, ast.Name) and c.func.value.id in node_lists:
            if c.func.attr == "append" and len(c.args) == 1 and not c.keywords:
                grow.append((c, [c.args[0]]))
            elif c.func.attr == "insert" and len(c.args) == 2 and not c.keywords:
                grow.append((c, [c.args[1]]))
            elif c.func.attr == "extend" and len(c.args) == 1 and isinstance(c.args[0], (ast.List, ast.Tuple)) and not any(isinstance(x, ast.Starred) for x in c.args[0].elts):
                grow.append((c, list(c.args[0].elts)))
            else:
                grow.append((c, None))
    for n in walk_no_nested(bcs):
        if isinstance(n, ast.AugAssign) and isinstance(n.target, ast.Name) and n.target.id in node_lists:
            lit = isinstance(n.op, ast.Add) and isinstance(n.value, (ast.List, ast.Tuple)) and not any(isinstance(x, ast.Starred) for x in n.value.elts)
            grow.append((n, list(n.value.elts) if lit else None))
    if not grow:
        raise AnalysisError("build_canonical_spec: no statement adds to the canonical node list")

    def parts(e: ast.AST, depth: int = 0) -> Optional[Tuple[Set[str], List[ast.AST]]]:
        """(names of the objects the element is, or is a shallow copy of; values put next to the copied entries)."""
        if depth > 6:
            return None
        if isinstance(e, ast.Name):
            names, extras = {e.id}, []
            vals = _lookup(bcs, e) + _unpacked_values(bcs, e)
            for v in vals:
                if isinstance(v, ast.Constant):
                    continue
                sub = parts(v, depth + 1)
                if sub is None:
                    # built by something else (a helper call, a literal): the name itself is the object to be dumped
                    continue
                names |= sub[0]
                extras += sub[1]
            return names, extras
        if isinstance(e, ast.Dict):
            names, extras = set(), []
            for k, v in zip(e.keys, e.values):
                if k is None:
                    sub = parts(v, depth + 1)
                    if sub is None:
                        return None
                    names |= sub[0]
                    extras += sub[1]
                else:
                    extras.append(v)
            return (names, extras) if names else None
        if isinstance(e, ast.BinOp) and isinstance(e.op, ast.BitOr):
            l, r_ = parts(e.left, depth + 1), parts(e.right, depth + 1)
            if l is None and r_ is None:
                return None
            side = lambda x, raw: x if x is not None else (set(), list(raw.values) if isinstance(raw, ast.Dict) and all(k is not None for k in raw.keys) else [raw])
            (ln, le), (rn, re_) = side(l, e.left), side(r_, e.right)
            return ln | rn, le + re_
        if isinstance(e, ast.Call):
            a_ = call_attr(e)
            src = None
            if a_ in ("dict", "deepcopy") and len(e.args) == 1 and isinstance(e.func, ast.Name):
                src = e.args[0]
            elif call_name(e) in ("copy.copy", "copy.deepcopy") and len(e.args) == 1:
                src = e.args[0]
            elif a_ == "copy" and isinstance(e.func, ast.Attribute) and not e.args:
                src = e.func.value
            if src is None:
                return None
            sub = parts(src, depth + 1)
            if sub is None or any(k.arg is None for k in e.keywords):
                return None
            return sub[0], sub[1] + [k.value for k in e.keywords]
        return None

    for c, elems in grow:
        if elems is None:
            R.violation(r, GRAPH, "build_canonical_spec", norm(c)[:90], "canonical nodes are added in a way the analysis cannot relate to a preceding json.dumps of the node", c.lineno)
            continue
        for elem_expr in elems:
            _canonical_element(R, r, bcs, g, c, elem_expr, parts(elem_expr))


def _unpacked_values(fn: ast.AST, e: ast.Name) -> List[ast.AST]:
    """The component bound to *e* by a tuple assignment `a, e = <tuple display>` (directly or through a local)."""
    out: List[ast.AST] = []
    for n in walk_no_nested(fn):
        if isinstance(n, ast.Assign) and len(n.targets) == 1 and isinstance(n.targets[0], (ast.Tuple, ast.List)):
            tg = n.targets[0].elts
            idx = [i for i, t in enumerate(tg) if isinstance(t, ast.Name) and t.id == e.id]
            if not idx or any(isinstance(t, ast.Starred) for t in tg):
                continue
            for form in _value_forms(fn, n.value):
                if isinstance(form, (ast.Tuple, ast.List)) and len(form.elts) == len(tg) and not any(isinstance(x, ast.Starred) for x in form.elts):
                    out.append(form.elts[idx[0]])
    return out


def _canonical_element(R: Report, r, bcs: ast.AST, g: CFG, c: ast.AST, elem_expr: ast.AST, pr) -> None:
    """One element added to the canonical node list by the statement / call *c*: it is (a shallow copy of) an object
    that was json-dumped on every path to *c*, and whatever was put into it after that dump is JSON-safe."""
    if pr is None or not pr[0]:
        R.violation(r, GRAPH, "build_canonical_spec", norm(c)[:90], "canonical nodes are added in a way the analysis cannot relate to a preceding json.dumps of the node", c.lineno)
        return
    base, extras = pr
    dump_nodes = {nid for d in calls_in(bcs) if call_name(d) in ("json.dumps", "dumps") and d.args and isinstance(d.args[0], ast.Name) and d.args[0].id in base for nid in g.nodes_for(stmt_of(d))}
    targets = set(g.nodes_for(stmt_of(c)))
    loop = next((a for a in ancestors(c) if isinstance(a, (ast.For, ast.While))), None)
    starts = g.nodes_for(loop) if loop is not None else [g.entry]
    blocked_edges = {(d, "n") for d in dump_nodes}

    def uncovered(from_nodes) -> bool:
        seen = g.reach(list(from_nodes), blocked_edges=blocked_edges)
        return any(t in seen for t in targets)

    bad = ""
    if not dump_nodes or uncovered(starts):
        bad = f"`{norm(c)[:50]}` can be reached without a successful json.dumps of the node"
    else:
        # whatever is stored into the node after the dump must itself be safe
        for n in walk_no_nested(bcs):
            if isinstance(n, ast.Assign) and len(n.targets) == 1 and isinstance(n.targets[0], ast.Subscript) and dotted_name(n.targets[0].value) in base:
                if uncovered(g.nodes_for(n)) and not _leaf_safe(bcs, n.value):
                    bad = f"`{norm(n)[:60]}` stores an unsanitised value into the node after (or without) the json.dumps that vouches for it"
                    break
        for v in extras:
            if not bad and uncovered(g.nodes_for(stmt_of(v))) and not _leaf_safe(bcs, v):
                bad = f"`{norm(v)[:60]}` is put into the node next to the dumped entries, after (or without) the json.dumps that vouches for it"
    R.check(not bad, r, GRAPH, "build_canonical_spec", f"a canonical node is json-dumped before it is appended ({norm(c)[:40]})", bad + ": canonical nodes are no longer serialised when built, so a non-JSON parameter is only discovered when the traced run hashes / writes the spec (the untraced run succeeds)", c.lineno)


# ---------------------------------------------------------------------------------------------------------
# D1: what the run is made of, found by role (so that renaming a local does not blind the effect rule)
# ---------------------------------------------------------------------------------------------------------
def _alias_sources(e: ast.AST) -> Set[str]:
    """Names whose object (or an attribute of it) *e* merely passes on: `x`, `x.attr`, tuples of those."""
    if isinstance(e, ast.Name):
        return {e.id}
    if isinstance(e, ast.Attribute):
        return _alias_sources(e.value)
    if isinstance(e, (ast.Tuple, ast.List)):
        return {n for x in e.elts for n in _alias_sources(x)}
    if isinstance(e, ast.Starred):
        return _alias_sources(e.value)
    return set()


def _run_state_by_role(ex: ast.AST, trace_blocks: List[ast.If]) -> Set[str]:
    """Locals of execute that carry the run: what is returned, what the node callable hands to `process`, the
    objects those were read from (alias closure over plain assignments), the node being run and the sequence it
    is taken from."""
    in_trace = {id(x) for blk in trace_blocks for st in blk.body for x in ast.walk(st)}
    state: Set[str] = set()
    for n in walk_no_nested(ex):
        if isinstance(n, ast.Return) and n.value is not None:
            state |= {x.id for x in ast.walk(n.value) if isinstance(x, ast.Name) and isinstance(x.ctx, ast.Load)}
    for n in ast.walk(ex):
        if n is not ex and isinstance(n, FuncNode + (ast.Lambda,)) and any(call_attr(c) == "process" for c in ast.walk(n) if isinstance(c, ast.Call)):
            bound = {a.arg for a in n.args.args + n.args.kwonlyargs}
            state |= {x.id for x in ast.walk(n) if isinstance(x, ast.Name) and isinstance(x.ctx, ast.Load)} - bound
    params = {a.arg for a in ex.args.args + ex.args.kwonlyargs}
    state -= {"self", "cls"}
    # classes / functions called are not state: keep names that are stored somewhere in execute or are parameters
    stored = {x.id for x in ast.walk(ex) if isinstance(x, ast.Name) and isinstance(x.ctx, ast.Store)}
    state &= stored | params
    changed = True
    while changed:
        changed = False
        for n in walk_no_nested(ex):
            if id(n) in in_trace:
                continue
            new: Set[str] = set()
            if isinstance(n, ast.Assign) and any(names_stored(t) & state for t in n.targets):
                new = _alias_sources(n.value)
            elif isinstance(n, ast.For) and names_stored(n.target) & state:
                it = n.iter
                if isinstance(it, ast.Call) and call_attr(it) in ("enumerate", "iter", "list", "tuple", "reversed", "zip"):
                    new = {a for x in it.args for a in _alias_sources(x)}
                else:
                    new = _alias_sources(it)
            new = (new & (stored | params)) - {"self", "cls"}
            if not new <= state:
                state |= new
                changed = True
    return state


# ---------------------------------------------------------------------------------------------------------
# D2: no object identity / process state / clock in the stable part of the stream
# ---------------------------------------------------------------------------------------------------------
JSONL = "semantiva/trace/drivers/jsonl.py"
IDENTITY_CALLS = {
    "id", "hash", "object.__repr__", "object.__str__", "object.__hash__", "object.__format__", "object.__reduce__",
    "sys.getrefcount", "os.getpid", "os.getppid", "os.urandom", "threading.get_ident", "threading.get_native_id",
    "threading.current_thread", "multiprocessing.current_process", "weakref.ref",
}
IDENTITY_PREFIXES = ("random.", "secrets.")
CLOCK_CALLS = {
    "datetime.now", "datetime.utcnow", "datetime.today", "datetime.datetime.now", "datetime.datetime.utcnow", "datetime.datetime.today",
    "date.today", "datetime.date.today", "uuid.uuid1", "uuid.uuid4", "uuid.uuid6", "uuid.uuid7", "uuid1", "uuid4",
    "time", "perf_counter", "monotonic", "process_time", "time_ns",
}
SINK_METHODS = _orch.DRIVER_METHODS | {"write", "writelines"}
LOG_RECEIVERS = {"logger", "logging", "log", "warnings", "_logger", "LOGGER"}


# raw memory images of an arbitrary object: the bytes a buffer export / pickle yields are those of the object's
# storage, not of its content - an array of objects exports the addresses of its elements, a structured buffer its
# padding, a pickle the sharing structure (memo by identity) and the iteration order of hashed containers
RAW_IMAGE_METHODS = {"tobytes", "tostring", "__reduce__", "__reduce_ex__", "__getstate__"}
RAW_IMAGE_CALLS = {"pickle.dumps", "cPickle.dumps", "marshal.dumps", "dill.dumps", "cloudpickle.dumps", "ctypes.string_at", "numpy.frombuffer", "np.frombuffer"}
BYTES_LIKE = {"bytes", "bytearray", "memoryview"}


def _source_kind(c: ast.Call) -> Optional[str]:
    d = call_name(c) or ""
    if d in IDENTITY_CALLS or d.startswith(IDENTITY_PREFIXES):
        return "identity"
    if d in RAW_IMAGE_CALLS:
        return "raw memory image"
    if isinstance(c.func, ast.Attribute) and c.func.attr in RAW_IMAGE_METHODS:
        # the raw bytes of a value known to be bytes / bytearray / memoryview are its content (numpy refuses to
        # export an object array through the buffer protocol, so a memoryview never carries addresses)
        recv = dotted_name(c.func.value)
        if recv is not None and _guarded_isinstance(c, recv, BYTES_LIKE):
            return None
        return "raw memory image"
    if d in CLOCK_CALLS or (d.startswith("time.") and d.count(".") == 1):
        return "clock"
    return None


# interpreter-wide tables and counters that the code running in the process changes as a side effect of running: what
# they hold when a run is traced is a record of what ran before (which modules were imported, how many objects /
# threads / loggers exist), not a property of the installed environment
HISTORY_TABLES = {"sys.modules", "sys.path", "sys.meta_path", "sys.path_hooks", "sys.path_importer_cache", "gc.garbage", "warnings.filters",
                  "logging.root.manager.loggerDict", "logging.Logger.manager.loggerDict", "threading._active"}
# kept out: importlib.metadata.*, import_module, importlib.util.find_spec, platform.* - they answer from what is installed
HISTORY_CALLS = {"gc.get_objects", "gc.get_count", "gc.get_stats", "gc.get_referrers", "gc.get_referents", "sys.getallocatedblocks", "sys._getframe",
                 "sys._current_frames", "threading.active_count", "threading.enumerate", "tracemalloc.get_traced_memory",
                 "tracemalloc.take_snapshot", "resource.getrusage", "inspect.stack", "inspect.currentframe"}
_IMPORTERS = {"import_module", "importlib.import_module", "__import__", "importlib.__import__"}


def _lookup_backed_by_import(f: ast.AST, table: ast.AST, key: ast.AST, full) -> bool:
    """The look-up of *key* in the module table is only a short cut for importing it: every path through *f* to a
    normal return either runs `import_module(<key>)` or leaves a test on the edge that says the look-up succeeded
    (`m is not None`, `m`, `<key> in sys.modules`) - so the module used is the one an import yields, whether or not
    something imported it before."""
    g = CFG(f)
    st = stmt_of(table)
    holders: Set[str] = set()
    if isinstance(st, (ast.Assign, ast.AnnAssign)) and getattr(st, "value", None) is not None:
        for t in (st.targets if isinstance(st, ast.Assign) else [st.target]):
            if isinstance(t, ast.Name):
                holders.add(t.id)
    for x in ast.walk(st):
        if isinstance(x, ast.NamedExpr) and any(y is table for y in ast.walk(x.value)):
            holders.add(x.target.id)
    k = norm(key)

    def found(e: ast.AST) -> Optional[bool]:
        if isinstance(e, ast.NamedExpr):
            e = ast.Name(id=e.target.id, ctx=ast.Load())
        if isinstance(e, ast.Name) and e.id in holders:
            return True
        if isinstance(e, ast.Compare) and len(e.ops) == 1:
            l, r_, op = e.left, e.comparators[0], e.ops[0]
            if isinstance(l, ast.Name) and l.id in holders and isinstance(r_, ast.Constant) and r_.value is None:
                return True if isinstance(op, (ast.IsNot, ast.NotEq)) else False if isinstance(op, (ast.Is, ast.Eq)) else None
            if isinstance(op, (ast.In, ast.NotIn)) and norm(l) == k and full(r_) == "sys.modules":
                return isinstance(op, ast.In)
        return None

    blocked: Set[Tuple[int, str]] = set()
    for n in g.nodes:
        if n.kind in ("if", "while") and n.part is not None:
            blocked |= {(n.id, e) for e in edges_guaranteeing(n.part, found)}
        elif n.kind == "stmt" and n.ast is not None and not isinstance(n.ast, FuncNode + (ast.ClassDef,)):
            if any((full(c.func) or "") in _IMPORTERS and c.args and norm(c.args[0]) == k for c in calls_in(n.ast)):
                blocked |= {(n.id, lab) for _t, lab in g.succ[n.id]}  # a failed import is decided by what is installed, too
    seen = g.reach([g.entry], blocked_edges=blocked)
    return g.ret_exit not in seen


def _history_sources(mod, f: ast.AST) -> List[Tuple[ast.AST, str]]:
    """(expression, what) for every read in *f* of an interpreter-wide table / counter that records what ran before
    (import aliases resolved through the module's import table).  A look-up in the module table whose key the same
    function also imports (`sys.modules.get(k) or import_module(k)`) is decided by what is installed, whichever
    arm supplies the module, and is no source."""
    imports = getattr(mod, "imports", {}) or {}

    def full(e: ast.AST) -> Optional[str]:
        d = dotted_name(e)
        if d is None:
            return None
        head, _, rest = d.partition(".")
        tgt = imports.get(head)
        if tgt is not None:
            return tgt + ("." + rest if rest else "")
        return d

    imported_keys = {norm(c.args[0]) for c in ast.walk(f) if isinstance(c, ast.Call) and (full(c.func) or "") in _IMPORTERS and c.args}
    out: List[Tuple[ast.AST, str]] = []
    for n in ast.walk(f):
        if isinstance(n, (ast.Attribute, ast.Name)) and isinstance(n.ctx, ast.Load) and full(n) in HISTORY_TABLES:
            par = getattr(n, "_parent", None)
            if isinstance(par, ast.Attribute) and par.value is n and full(par) in HISTORY_TABLES:
                continue  # the longer chain is the table
            key: Optional[ast.AST] = None
            if isinstance(par, ast.Subscript) and par.value is n:
                key = par.slice
            elif isinstance(par, ast.Attribute) and par.value is n and par.attr in ("get", "__getitem__", "__contains__") and isinstance(getattr(par, "_parent", None), ast.Call) and par._parent.args:
                key = par._parent.args[0]
            elif isinstance(par, ast.Compare) and n in par.comparators and len(par.ops) == 1 and isinstance(par.ops[0], (ast.In, ast.NotIn)):
                key = par.left
            if key is not None and full(n) == "sys.modules" and norm(key) in imported_keys and isinstance(f, FuncNode) and _lookup_backed_by_import(f, n, key, full):
                continue
            out.append((n, f"`{full(n)}` (interpreter-wide table that records what the process did before)"))
        elif isinstance(n, ast.Call) and (full(n.func) or "") in HISTORY_CALLS:
            out.append((n, f"`{full(n.func)}(..)` (interpreter-wide counter / table that records what the process did before)"))
    return out


def _flows_to_output(f: ast.AST, src: ast.AST, through_tests: bool = False) -> Optional[ast.AST]:
    """Does the value of the expression *src* reach what *f* returns / yields / hands to a driver or a file?  Name-level
    taint over assignments, container stores and mutator calls; a comparison (`id(a) == id(b)`, `id(o) in seen`)
    yields a bool that carries no identity, so taint stops there - unless *through_tests*: whether a key is in a
    table that the process fills as it runs is exactly the history the table holds.  Returns the sink statement."""
    tainted: Set[str] = set()

    def carries(e: Optional[ast.AST]) -> bool:
        if e is None:
            return False
        todo = [e]
        while todo:
            n = todo.pop()
            if isinstance(n, ast.Compare) and not through_tests:
                continue
            if n is src:
                return True
            if isinstance(n, ast.Name) and isinstance(n.ctx, ast.Load) and n.id in tainted:
                return True
            if isinstance(n, ast.Call) and isinstance(n.func, ast.Name) and n.func.id in ("len", "isinstance", "bool", "type", "callable") and not (through_tests and n.func.id in ("len", "bool")):
                continue
            todo.extend(ast.iter_child_nodes(n))
        return False

    def root(e: ast.AST) -> Optional[str]:
        while isinstance(e, (ast.Attribute, ast.Subscript, ast.Starred)):
            e = e.value
        return e.id if isinstance(e, ast.Name) else None

    changed = True
    while changed:
        changed = False
        for n in ast.walk(f):
            add: Set[str] = set()
            if isinstance(n, ast.Assign) and carries(n.value):
                for t in n.targets:
                    add |= names_stored(t) | ({root(t)} if isinstance(t, (ast.Subscript, ast.Attribute)) else set())
            elif isinstance(n, (ast.AnnAssign, ast.AugAssign)) and carries(n.value):
                add |= names_stored(n.target) | ({root(n.target)} if isinstance(n.target, (ast.Subscript, ast.Attribute)) else set())
            elif isinstance(n, ast.NamedExpr) and carries(n.value):
                add.add(n.target.id)
            elif isinstance(n, (ast.For, ast.comprehension)) and carries(n.iter):
                add |= names_stored(n.target)
            elif isinstance(n, ast.Call) and isinstance(n.func, ast.Attribute) and n.func.attr in GROWERS and any(carries(a) for a in list(n.args) + [k.value for k in n.keywords]):
                add.add(root(n.func.value))
            add -= {None, "self", "cls"}
            if not add <= tainted:
                tainted |= add
                changed = True
    for n in ast.walk(f):
        if isinstance(n, (ast.Return, ast.Yield, ast.YieldFrom)) and carries(n.value):
            return n
        if isinstance(n, ast.Lambda) and carries(n.body):
            return n
        if isinstance(n, ast.Call) and isinstance(n.func, ast.Attribute) and n.func.attr in SINK_METHODS and root(n.func.value) not in LOG_RECEIVERS:
            if any(carries(a) for a in list(n.args) + [k.value for k in n.keywords]):
                return n
        # persisted on the object: a later record can be computed from it
        if isinstance(n, (ast.Assign, ast.AnnAssign, ast.AugAssign)) and carries(n.value):
            tg = n.targets if isinstance(n, ast.Assign) else [n.target]
            if any(isinstance(t, (ast.Attribute, ast.Subscript)) and root(t) in ("self", "cls") for t in tg):
                return n
    if through_tests:
        # what is returned under a test on the table differs from what is returned otherwise
        for n in ast.walk(f):
            if isinstance(n, (ast.If, ast.While, ast.IfExp)) and carries(n.test):
                if isinstance(n, ast.IfExp):
                    st = stmt_of(n)
                    if isinstance(st, ast.Return) or (isinstance(st, (ast.Assign, ast.AnnAssign)) and not _const_reset(getattr(st, "value", None))):
                        return st
                    continue
                rets = [x for part in (n.body, n.orelse) for b in part for x in ast.walk(b) if isinstance(x, ast.Return)]
                if rets:
                    return rets[0]
    return None


def _volatile_producers(repo: Repo, ex: ast.AST) -> Set[int]:
    """Functions (ids of their defs) whose results feed only the documented volatile `timing` block of a SER, found by
    role: the names in the `timing=` argument of SER construction, the calls they are assigned from (methods or
    module-level functions of the orchestrator module, resolved through the call graph), and what those call."""
    omod = repo.module(ORCH)
    names: Set[str] = set()
    for c in calls_in(ex):
        t = kwarg(c, "timing")
        if t is not None:
            names |= {x.id for x in ast.walk(t) if isinstance(x, ast.Name)}
    fns: Dict[int, ast.AST] = {}
    todo = set(names)
    seen: Set[str] = set()
    while todo:
        nm = todo.pop()
        if nm in seen:
            continue
        seen.add(nm)
        for n in walk_no_nested(ex):
            if isinstance(n, ast.Assign) and nm in {x for t in n.targets for x in names_stored(t)} and isinstance(n.value, ast.Call):
                hit = [t for m, t in repo.resolve_call(omod, n.value) if m.rel == ORCH and isinstance(t, FuncNode)]
                if hit:
                    fns.update({id(t): t for t in hit})
                    todo |= {x.id for a in n.value.args for x in ast.walk(a) if isinstance(x, ast.Name)}
    work = list(fns.values())
    while work:
        f = work.pop()
        for c in calls_in(f):
            for m, t in repo.resolve_call(omod, c):
                if m.rel == ORCH and isinstance(t, FuncNode) and id(t) not in fns:
                    fns[id(t)] = t
                    work.append(t)
    return set(fns)


TRACE_MODEL = "semantiva/trace/model.py"


def _driver_arg(repo: Repo, c: ast.Call, index: int) -> Optional[ast.AST]:
    """The argument a driver-callback call binds to the callback's parameter number *index* (self not counted), by
    position or by the name the TraceDriver interface gives that parameter."""
    if len(c.args) > index and not any(isinstance(a, ast.Starred) for a in c.args[:index + 1]):
        return c.args[index]
    meth = call_attr(c)
    if repo.has_module(TRACE_MODEL):
        f = repo.maybe_func(TRACE_MODEL, f"TraceDriver.{meth}")
        if f is not None:
            pos = [a.arg for a in f.args.posonlyargs + f.args.args][1:]
            if index < len(pos):
                return kwarg(c, pos[index])
    return None


def _no_identity_in_stream(repo: Repo, R: Report, ex: ast.AST, helper_fns, drivers: Set[str]) -> None:
    r = R.rule("C10-D2-no-identity-in-stream", "no value derived from object identity, process state, randomness (id, hash, object.__repr__, pid, random) or - outside the documented volatile fields (run id, timing, driver timestamp/seq) - from a clock or a random uuid reaches what the trace-path functions return, persist or write: equal runs yield equal stable fields", 20)
    r_hist = R.rule("C10-D2-no-process-history-in-stream", "nothing a trace-path function returns, persists or writes is read from (or selected by a test on) an interpreter-wide table or counter that other code in the process fills as it runs - the module table `sys.modules`, the import path, garbage-collector / allocator / thread / logger registries: environment pins and summaries are functions of what is installed and of this run, not of what happened to run before", 20)
    volatile = _volatile_producers(repo, ex)
    if not volatile:
        raise AnalysisError("execute(): the producers of the volatile timing block were not recognised")
    scan: Dict[Tuple[str, str], Tuple[ast.AST, bool]] = {}
    omod = repo.module(ORCH)
    for qn, f in omod.defs.items():
        if isinstance(f, FuncNode) and qn != EXECUTE and ((qn.startswith(O) and qn.count(".") == 1) or "." not in qn):
            scan[(ORCH, qn)] = (f, id(f) not in volatile)
    for rel, qn, f in helper_fns:
        if rel != ORCH:
            scan.setdefault((rel, qn), (f, True))
    for rel in (SEM, GRAPH):
        if repo.has_module(rel):
            for qn, f in repo.module(rel).defs.items():
                if isinstance(f, FuncNode) and "." not in qn:
                    scan.setdefault((rel, qn), (f, True))
    if repo.has_module(JSONL):
        for qn, f in repo.module(JSONL).defs.items():
            if isinstance(f, FuncNode) and qn.count(".") == 1:
                scan.setdefault((JSONL, qn), (f, False))  # timestamps / seq / file names are the driver's volatile fields
    for (rel, qn), (f, clock_too) in sorted(scan.items()):
        bad = None
        fmod = repo.module(rel)
        for c in [c for c in ast.walk(f) if isinstance(c, ast.Call)]:
            kind = _source_kind(c)
            if kind is None and clock_too and rel == ORCH and any(id(t) in volatile for _m, t in repo.resolve_call(fmod, c)):
                kind = "clock"  # a producer of the volatile timing block called from code that builds stable fields
            if kind is None or (kind == "clock" and not clock_too):
                continue
            sink = _flows_to_output(f, c)
            if sink is not None:
                bad = (c, kind, sink)
                break
        hist_bad = False
        if bad is None:
            for src, what in _history_sources(fmod, f):
                sink = _flows_to_output(f, src, through_tests=True)
                if sink is not None:
                    R.violation(r_hist, rel, qn, norm(stmt_of(src))[:90], f"{what} decides `{norm(sink)[:60]}`: what this trace-path function returns / writes now depends on which modules were imported, objects created or threads started by whatever ran earlier in the process - the same configuration on the same payload gives a different stable field (environment pins, summaries) after an unrelated execution, although nothing installed changed", src.lineno)
                    hist_bad = True
                    break
        if bad:
            c, kind, sink = bad
            R.violation(r, rel, qn, norm(stmt_of(c))[:90], f"`{norm(c)[:50]}` ({kind}) flows into `{norm(sink)[:60]}`: a stable trace field now depends on the memory address / process / moment of the run (a raw image of an arbitrary object carries the addresses of the objects it refers to), so two runs of the same configuration on the same payload give different traces", c.lineno)
        else:
            R.ok(r, rel, qn, f"{qn}: no identity" + ("/clock" if clock_too else "") + " source reaches the output")
        if not hist_bad:
            R.ok(r_hist, rel, qn, f"{qn}: nothing it returns / writes is read from an interpreter-wide history table")
    _no_volatile_object_text_in_stream(repo, R, {**scan, (ORCH, EXECUTE): (ex, True)})
    for src, what in _history_sources(omod, ex):
        sink = _flows_to_output(ex, src, through_tests=True)
        R.check(sink is None, r_hist, ORCH, EXECUTE, norm(stmt_of(src))[:90], f"{what} decides `{norm(sink)[:60] if sink is not None else ''}`: what execute() hands to the trace driver depends on what ran earlier in the process", src.lineno)
    # execute itself: the only clock/uuid source is the run id handed to on_pipeline_start
    run_id_names: Set[str] = set()
    for c in calls_in(ex):
        if _orch.is_driver_call(c, drivers, "on_pipeline_start"):
            a = _driver_arg(repo, c, 1)
            if isinstance(a, ast.Name):
                run_id_names.add(a.id)
    for c in [c for c in ast.walk(ex) if isinstance(c, ast.Call)]:
        kind = _source_kind(c)
        if kind is None:
            continue
        st = stmt_of(c)
        is_run_id = kind == "clock" and isinstance(st, (ast.Assign, ast.AnnAssign)) and (names_stored(st.targets[0]) if isinstance(st, ast.Assign) else names_stored(st.target)) <= run_id_names and bool(run_id_names)
        R.check(is_run_id, r, ORCH, EXECUTE, norm(st)[:90], f"`{norm(c)[:50]}` ({kind}) is used in execute for something other than the run id: it can reach a stable field of the records", c.lineno)


# ---------------------------------------------------------------------------------------------------------
# D1: which parameters of a trace helper are live user objects (by declared type, not by spelling)
# ---------------------------------------------------------------------------------------------------------
SCALAR_ANN = {"int", "str", "bool", "float", "bytes", "None"}
CONFIG_PARAMS = {"self", "cls", "trace_opts", "summaries", "maxlen", "max_pairs"}


def _ann_names(a: Optional[ast.AST]) -> Set[str]:
    if a is None:
        return set()
    if isinstance(a, ast.Constant) and isinstance(a.value, str):
        try:
            a = ast.parse(a.value, mode="eval").body
        except SyntaxError:
            return {"?"}
    return {x.id for x in ast.walk(a) if isinstance(x, ast.Name)} | {x.attr for x in ast.walk(a) if isinstance(x, ast.Attribute)} | {"None" for x in ast.walk(a) if isinstance(x, ast.Constant) and x.value is None}


def _opaque_params(f: ast.AST) -> Set[str]:
    """Parameters declared as an arbitrary object (`Any`, `object`, or nothing): a payload / context value."""
    out = set()
    for a in f.args.args + f.args.kwonlyargs:
        if a.arg in CONFIG_PARAMS:
            continue
        names = _ann_names(a.annotation)
        if not names or names & {"Any", "object"} and not names & {"dict", "Dict", "Mapping", "list", "List", "Sequence", "Iterable", "tuple", "Tuple", "set", "Set"}:
            out.add(a.arg)
    return out


def _live_params(f: ast.AST) -> Set[str]:
    """Parameters through which user-defined code can be reached: everything that is not declared a plain scalar
    and is not one of the helper's own configuration parameters (plus the historical spellings)."""
    out = set()
    for a in f.args.args:
        if a.arg in CONFIG_PARAMS:
            continue
        names = _ann_names(a.annotation)
        if a.arg in LIVE_PARAMS or _opaque_params_one(names):
            out.add(a.arg)
    return out


def _opaque_params_one(names: Set[str]) -> bool:
    return not names or bool(names & {"Any", "object"}) and not names <= SCALAR_ANN


# ---------------------------------------------------------------------------------------------------------
# D2: instance state of the orchestrator that survives a run (memo / last-value cell on `self`)
# ---------------------------------------------------------------------------------------------------------
MUTATORS = GROWERS | {"pop", "popitem", "clear", "remove", "discard", "sort", "reverse", "popleft"}


def _self_attr(n: ast.AST) -> Optional[str]:
    if isinstance(n, ast.Attribute) and isinstance(n.value, ast.Name) and n.value.id == "self":
        return n.attr
    return None


def _const_reset(v: Optional[ast.AST]) -> bool:
    """A value that carries nothing of any run: a constant, an empty container."""
    if v is None or isinstance(v, ast.Constant):
        return True
    if isinstance(v, (ast.Dict, ast.List, ast.Set, ast.Tuple)):
        return not (v.keys if isinstance(v, ast.Dict) else v.elts)
    if isinstance(v, ast.Call) and dotted_name(v.func) in ("dict", "list", "set", "tuple", "frozenset", "OrderedDict", "collections.OrderedDict") and not v.args and not v.keywords:
        return True
    return False


def _string_arg(c: ast.Call, i: int) -> Optional[str]:
    return c.args[i].value if len(c.args) > i and isinstance(c.args[i], ast.Constant) and isinstance(c.args[i].value, str) else None


def _self_accesses(f: ast.AST):
    """(kind, attr, node, value) for every access to an attribute of `self` in *f* (nested lambdas / defs included).
    kind: 'rebind' (self.X = v, setattr, del self.X; value None for del), 'mutate' (store through / mutator on
    self.X), 'read' (the value of self.X is used)."""
    for n in ast.walk(f):
        if isinstance(n, ast.Call) and isinstance(n.func, ast.Name) and n.args and isinstance(n.args[0], ast.Name) and n.args[0].id == "self":
            nm = _string_arg(n, 1)
            if n.func.id in ("getattr", "hasattr") and nm is not None:
                yield "read", nm, n, None
            elif n.func.id == "setattr" and nm is not None and len(n.args) == 3:
                yield "rebind", nm, n, n.args[2]
            elif n.func.id == "delattr" and nm is not None:
                yield "rebind", nm, n, None
            elif n.func.id in ("getattr", "hasattr", "setattr", "delattr", "vars"):
                yield "read", "__dict__", n, None
            continue
        a = _self_attr(n)
        if a is None:
            continue
        par = getattr(n, "_parent", None)
        if isinstance(n.ctx, ast.Store):
            st = stmt_of(n)
            if isinstance(st, ast.AugAssign) and st.target is n:
                yield "read", a, n, None
                yield "rebind", a, n, st
            else:
                val = getattr(st, "value", None) if isinstance(st, (ast.Assign, ast.AnnAssign)) else st
                # tuple targets: the value is whatever the right-hand side yields
                yield "rebind", a, n, val
            continue
        if isinstance(n.ctx, ast.Del):
            yield "rebind", a, n, None
            continue
        # Load: a designation of the cell being written, or a read
        cur, p = n, par
        through_store = False
        while isinstance(p, (ast.Subscript, ast.Attribute)) and p.value is cur:
            if isinstance(p.ctx, (ast.Store, ast.Del)):
                through_store = True
                break
            cur, p = p, getattr(p, "_parent", None)
        if through_store:
            yield "mutate", a, n, None
            if isinstance(getattr(p, "_parent", None), ast.AugAssign):
                yield "read", a, n, None
            continue
        if isinstance(par, ast.Attribute) and par.value is n and par.attr in MUTATORS and isinstance(getattr(par, "_parent", None), ast.Call) and par._parent.func is par:
            yield "mutate", a, n, None
            if not isinstance(getattr(par._parent, "_parent", None), ast.Expr):
                yield "read", a, n, None
            continue
        yield "read", a, n, None


def _in_nested_callable(n: ast.AST, f: ast.AST) -> bool:
    """Is *n* inside a lambda / def nested in *f* (so it does not run where it is written)?"""
    for a in ancestors(n):
        if a is f:
            return False
        if isinstance(a, FuncNode + (ast.Lambda,)):
            return True
    return False


def _orchestrator_closure(repo: Repo):
    """Methods of the orchestrator classes (base + subclasses) reachable from execute through `self.m(...)`,
    `super().m(...)` and property reads."""
    omod = repo.module(ORCH)
    base = repo.cls(ORCH, "SemantivaOrchestrator")
    classes = [(omod, base)] + [(m, c) for m, c in repo.subclasses(base) if c is not base]
    methods: Dict[str, List[Tuple[str, str, ast.AST]]] = {}
    for m, c in classes:
        for st in c.body:
            if isinstance(st, FuncNode):
                methods.setdefault(st.name, []).append((m.rel, f"{c.name}.{st.name}", st))
    if "execute" not in methods:
        raise AnalysisError("SemantivaOrchestrator.execute vanished")
    clo: Dict[int, Tuple[str, str, ast.AST]] = {}
    todo = list(methods["execute"])
    callers: Dict[str, List[Tuple[ast.AST, ast.AST]]] = {}
    while todo:
        rel, qn, f = todo.pop()
        if id(f) in clo:
            continue
        clo[id(f)] = (rel, qn, f)
        for n in ast.walk(f):
            name = None
            if isinstance(n, ast.Call) and isinstance(n.func, ast.Attribute):
                recv = n.func.value
                if (isinstance(recv, ast.Name) and recv.id == "self") or (isinstance(recv, ast.Call) and dotted_name(recv.func) == "super"):
                    name = n.func.attr
            elif _self_attr(n) in methods and isinstance(n.ctx, ast.Load) and not (isinstance(getattr(n, "_parent", None), ast.Call) and n._parent.func is n):
                name = n.attr  # property read / bound method taken as a value
            if name in methods:
                callers.setdefault(name, []).append((f, n))
                todo.extend(methods[name])
    return clo, callers, set(methods)


def _no_run_carried_instance_state(repo: Repo, R: Report) -> None:
    r = R.rule("C10-D2-no-run-carried-instance-state", "an attribute of the orchestrator that the code reachable from execute() both fills with a run-derived value and reads is (re)bound in the same execute() call on every path before the read: nothing execute() computes (records, summaries, results) is taken from what the same orchestrator object ran before", 2)
    clo, callers, method_names = _orchestrator_closure(repo)
    acc: Dict[str, Dict[str, List[Tuple[ast.AST, ast.AST, Optional[ast.AST]]]]] = {}
    for rel, qn, f in clo.values():
        for kind, attr, node, val in _self_accesses(f):
            acc.setdefault(attr, {}).setdefault(kind, []).append((f, node, val))
    cfgs: Dict[int, CFG] = {}

    def cfg_of(f: ast.AST) -> CFG:
        if id(f) not in cfgs:
            cfgs[id(f)] = CFG(f)
        return cfgs[id(f)]

    def nodes_at(g: CFG, n: ast.AST) -> List[int]:
        cur: Optional[ast.AST] = stmt_of(n)
        while cur is not None:
            ids = g.nodes_for(cur)
            if ids:
                return ids
            cur = next((a for a in ancestors(cur) if isinstance(a, ast.stmt)), None)
        return []

    defs_by_name: Dict[str, List[ast.AST]] = {}
    for _rel, _qn, f in clo.values():
        defs_by_name.setdefault(getattr(f, "name", ""), []).append(f)
    summary: Dict[Tuple[str, int], bool] = {}

    def reset_nodes(attr: str, f: ast.AST, depth: int) -> Set[int]:
        """CFG nodes of *f* after whose normal completion self.<attr> has been rebound in this call: a rebinding
        statement whose value does not come from self.<attr>, or a statement calling a method of the orchestrator
        that rebinds it on every path to its normal exit (extract-method)."""
        g = cfg_of(f)
        out: Set[int] = set()
        for ff, node, val in acc[attr].get("rebind", []):
            if ff is not f:
                continue
            if val is not None and any(k == "read" and a == attr for k, a, _n, _v in _self_accesses(val)):
                continue
            out.update(g.nodes_for(stmt_of(node)))
        if depth < 3:
            for c in calls_in(f):
                if isinstance(c.func, ast.Attribute) and ((isinstance(c.func.value, ast.Name) and c.func.value.id == "self") or (isinstance(c.func.value, ast.Call) and dotted_name(c.func.value.func) == "super")):
                    tg = defs_by_name.get(c.func.attr, [])
                    if tg and not _in_nested_callable(c, f) and all(always_rebinds(attr, t, depth + 1) for t in tg):
                        out.update(g.nodes_for(stmt_of(c)))
        return out

    def always_rebinds(attr: str, f: ast.AST, depth: int) -> bool:
        key = (attr, id(f))
        if key in summary:
            return summary[key]
        summary[key] = False  # recursion guard
        g = cfg_of(f)
        rs = reset_nodes(attr, f, depth)
        if rs:
            reach = g.reach([g.entry], blocked_edges={(w, "n") for w in rs})
            exits = [n.id for n in g.nodes if n.kind == "ret_exit"]
            summary[key] = bool(exits) and not any(e in reach for e in exits)
        return summary[key]

    def fresh(attr: str, f: ast.AST, at: ast.AST, depth: int = 0, seen: Tuple[int, ...] = ()) -> bool:
        """Every path of this execute() call to *at* (a node of *f*) passes a rebinding of self.<attr> whose
        value does not itself come from self.<attr>."""
        g = cfg_of(f)
        targets = nodes_at(g, at)
        resets = reset_nodes(attr, f, 0)
        if targets:
            reach = g.reach([g.entry], blocked_edges={(w, "n") for w in resets})
            own = [t for t in targets if t in reach]
            if not own:
                return True
        if getattr(f, "name", "") == "execute" or depth > 4 or id(f) in seen:
            return False
        sites = callers.get(getattr(f, "name", ""), [])
        return bool(sites) and all(fresh(attr, g2, site, depth + 1, seen + (id(f),)) for g2, site in sites)

    n_cells = 0
    for attr in sorted(acc):
        kinds = acc[attr]
        reads = kinds.get("read", [])
        if not reads or attr in method_names:
            continue
        derived = [(f, node) for f, node, val in kinds.get("rebind", []) if not _const_reset(val)] + [(f, node) for f, node, _v in kinds.get("mutate", [])]
        if attr == "__dict__":
            f, node, _ = reads[0]
            R.violation(r, ORCH, qualname_of(f), norm(stmt_of(node))[:90], "the instance dictionary of the orchestrator is accessed by a computed name on the execute() path: what is read cannot be related to this run", node.lineno)
            continue
        n_cells += 1
        if not derived:
            R.ok(r, ORCH, "SemantivaOrchestrator", f"self.{attr}: configuration (only constant resets are written on the execute() path)")
            continue
        stale = [(f, node) for f, node, _v in reads if not fresh(attr, f, node)]
        if stale:
            f, node = stale[0]
            wf, wnode = derived[0]
            R.violation(r, ORCH, qualname_of(f), norm(stmt_of(node))[:90], f"`self.{attr}` is read here without having been rebound earlier in the same execute() call, and is filled with a run-derived value by `{norm(stmt_of(wnode))[:60]}` in {qualname_of(wf)}: the orchestrator object outlives a run, so what this run records / returns is taken from an earlier run of the same object (memo / last-value cell never reset)", node.lineno)
        else:
            R.ok(r, ORCH, "SemantivaOrchestrator", f"self.{attr}: every read on the execute() path follows a rebinding in the same call")
    if n_cells == 0:
        raise AnalysisError("execute(): no instance attribute read on the execute() path was recognised")


# ---------------------------------------------------------------------------------------------------------
# D2: class-level / module-level / default-argument containers shared by every instance and every run
# ---------------------------------------------------------------------------------------------------------
MUTABLE_CTORS = {"dict", "list", "set", "defaultdict", "OrderedDict", "Counter", "deque", "bytearray", "collections.defaultdict", "collections.OrderedDict", "collections.Counter", "collections.deque"}


def _mutable_value(v: Optional[ast.AST]) -> bool:
    if isinstance(v, (ast.Dict, ast.List, ast.Set, ast.ListComp, ast.DictComp, ast.SetComp)):
        return True
    return isinstance(v, ast.Call) and (dotted_name(v.func) or "") in MUTABLE_CTORS


def _shared_use_ok(x: ast.AST, fn: Optional[ast.AST]) -> Optional[ast.AST]:
    """None when this occurrence of a shared container only reads it; else the statement through which it is
    changed or escapes.  A plain local alias (`t = <shared>`) is followed one level: every use of the alias must
    itself be a read-only use."""
    if _read_only_use(x):  # type: ignore[arg-type]
        return None
    p = getattr(x, "_parent", None)
    if fn is not None and isinstance(p, (ast.Assign, ast.AnnAssign)) and p.value is x:
        tgts = p.targets if isinstance(p, ast.Assign) else [p.target]
        if len(tgts) == 1 and isinstance(tgts[0], ast.Name):
            alias = tgts[0].id
            for n in ast.walk(fn):
                if isinstance(n, ast.Name) and n.id == alias and isinstance(n.ctx, ast.Load) and not _read_only_use(n):
                    return stmt_of(n)
                if isinstance(n, (ast.Global, ast.Nonlocal)) and alias in n.names:
                    return n
            return None
    return stmt_of(x)


def _enclosing_function(n: ast.AST) -> Optional[ast.AST]:
    return next((a for a in ancestors(n) if isinstance(a, FuncNode)), None)


def _no_shared_mutable_tables(repo: Repo, R: Report) -> None:
    r = R.rule("C10-D2-no-shared-mutable-tables", "a container created once per process on the trace path (class body of a driver / orchestrator / collector, module level of the trace modules, mutable default argument) is only ever read: it is not changed in place, not stored into instance state and not handed out, neither directly nor through a local alias - detail options and summaries of one driver / run are not shared with another", 4)
    rels = [ORCH, UTILS, DELTA] + sorted(m for m in repo.modules if m.startswith("semantiva/trace/drivers/"))
    for rel in rels:
        if not repo.has_module(rel):
            continue
        mod = repo.module(rel)
        n_cells = 0
        # class-level containers
        for cls in [c for c in ast.walk(mod.tree) if isinstance(c, ast.ClassDef)]:
            for st in cls.body:
                if not isinstance(st, (ast.Assign, ast.AnnAssign)) or not _mutable_value(getattr(st, "value", None)):
                    continue
                tgt = st.targets[0] if isinstance(st, ast.Assign) else st.target
                if not isinstance(tgt, ast.Name) or tgt.id.startswith("__"):
                    continue
                n_cells += 1
                bad: Optional[ast.AST] = None
                where = None
                for x in ast.walk(mod.tree):
                    if isinstance(x, ast.Attribute) and x.attr == tgt.id and isinstance(x.value, (ast.Name, ast.Call, ast.Attribute)):
                        fn = _enclosing_function(x)
                        site = stmt_of(x) if not isinstance(x.ctx, ast.Load) else _shared_use_ok(x, fn)
                        if site is not None:
                            bad, where = site, fn
                            break
                    if isinstance(x, ast.Name) and x.id == tgt.id and x is not tgt and _enclosing_function(x) is None and any(a is cls for a in ancestors(x)):
                        site = stmt_of(x) if not isinstance(x.ctx, ast.Load) else _shared_use_ok(x, None)
                        if site is not None:
                            bad, where = site, None
                            break
                leaves_ok = _immutable_leaves(st.value) if not isinstance(st.value, ast.Call) else not st.value.args and not st.value.keywords
                if bad is None and not leaves_ok:
                    # elements are themselves mutable: a read hands out something that can be changed
                    used = [x for x in ast.walk(mod.tree) if isinstance(x, ast.Attribute) and x.attr == tgt.id and isinstance(x.ctx, ast.Load)]
                    if used:
                        bad, where = stmt_of(used[0]), _enclosing_function(used[0])
                R.check(bad is None, r, rel, cls.name, norm(st)[:80], f"`{cls.name}.{tgt.id}` exists once per process and `{norm(bad)[:70] if bad is not None else ''}`" + (f" in {qualname_of(where)}" if where is not None else "") + " changes it in place or lets it escape (into instance state / to a caller): every instance and every later run sees what an earlier one did - the trace of a run depends on what was created or run before in the process", getattr(bad, "lineno", st.lineno))
        # module-level containers of the trace modules (the orchestrator module is decided by C10-D2-no-history)
        if rel != ORCH:
            for st in mod.tree.body:
                if not isinstance(st, (ast.Assign, ast.AnnAssign)) or not _mutable_value(getattr(st, "value", None)):
                    continue
                tgt = st.targets[0] if isinstance(st, ast.Assign) else st.target
                if not isinstance(tgt, ast.Name) or tgt.id.startswith("__"):
                    continue
                n_cells += 1
                bad, where = None, None
                for x in ast.walk(mod.tree):
                    if isinstance(x, ast.Name) and x.id == tgt.id and x is not tgt:
                        fn = _enclosing_function(x)
                        if fn is not None and not any(isinstance(g, ast.Global) and tgt.id in g.names for g in ast.walk(fn)) and tgt.id in {a.arg for a in fn.args.args + fn.args.kwonlyargs + fn.args.posonlyargs} | {y.id for y in ast.walk(fn) if isinstance(y, ast.Name) and isinstance(y.ctx, ast.Store) and y.id == tgt.id}:
                            continue  # a local of the same name
                        site = stmt_of(x) if not isinstance(x.ctx, ast.Load) else _shared_use_ok(x, fn)
                        if site is not None:
                            bad, where = site, fn
                            break
                leaves_ok = _immutable_leaves(st.value) if not isinstance(st.value, ast.Call) else not st.value.args and not st.value.keywords
                if bad is None and not leaves_ok:
                    used = [x for x in ast.walk(mod.tree) if isinstance(x, ast.Name) and x.id == tgt.id and isinstance(x.ctx, ast.Load)]
                    if used:
                        bad, where = stmt_of(used[0]), _enclosing_function(used[0])
                R.check(bad is None, r, rel, "<module>", norm(st)[:80], f"module-level `{tgt.id}` exists once per process and `{norm(bad)[:70] if bad is not None else ''}`" + (f" in {qualname_of(where)}" if where is not None else "") + " changes it in place or lets it escape: every driver / run in the process shares it - the trace of a run depends on what was created or run before", getattr(bad, "lineno", st.lineno))
        # mutable default arguments
        for qn, f in [(q, n) for q, n in mod.defs.items() if isinstance(n, FuncNode)]:
            pos = f.args.posonlyargs + f.args.args
            pairs = list(zip(pos[len(pos) - len(f.args.defaults):], f.args.defaults)) + [(a, d) for a, d in zip(f.args.kwonlyargs, f.args.kw_defaults) if d is not None]
            for a, d in pairs:
                if not _mutable_value(d):
                    continue
                n_cells += 1
                bad = None
                for x in ast.walk(f):
                    if isinstance(x, ast.Name) and x.id == a.arg and isinstance(x.ctx, ast.Load):
                        bad = _shared_use_ok(x, f)
                        if bad is not None:
                            break
                R.check(bad is None, r, rel, qn, f"default `{a.arg}={norm(d)[:40]}`", f"the default value of `{a.arg}` is one object for all calls and `{norm(bad)[:70] if bad is not None else ''}` changes it or lets it escape: later calls see what earlier ones left", getattr(bad, "lineno", f.lineno))
        R.ok(r, rel, "<module>", f"{rel}: {n_cells} shared container(s) (class level / module level / mutable default), each decided above" if n_cells else f"{rel}: no shared container (class level, module level, mutable default argument)")


# ---------------------------------------------------------------------------------------------------------
# D1: the driver-side sinks accept everything the sanitisers let through, and driver callbacks raise nothing
# ---------------------------------------------------------------------------------------------------------
def _caught_without_reraise(node: ast.AST, classes: Set[str]) -> bool:
    """Is *node* inside the body of a try one of whose handlers catches one of *classes* (or everything) and
    neither re-raises nor itself contains an uncovered strict sink?"""
    child = node
    for a in ancestors(node):
        if isinstance(a, FuncNode + (ast.Lambda,)):
            return False
        if isinstance(a, ast.Try) and any(child is s for s in a.body):
            for h in a.handlers:
                if h.type is None:
                    names = {"BaseException"}
                else:
                    names = {(dotted_name(e) or "?").split(".")[-1] for e in (h.type.elts if isinstance(h.type, ast.Tuple) else [h.type])}
                if names & (classes | {"Exception", "BaseException"}):
                    if not any(isinstance(x, ast.Raise) for st in h.body for x in ast.walk(st)):
                        return True
        if isinstance(a, (ast.With, ast.AsyncWith)) and any(child is s for s in a.body) and _suppressed(a) & (classes | {"Exception", "BaseException"}):
            return True
        child = a
    return False


def _strict_options(c: ast.Call) -> List[Tuple[str, str]]:
    """Encoder options of a json.dumps / json.dump call that reject values the default encoder accepts."""
    out = []
    for k in c.keywords:
        if k.arg == "allow_nan" and not (isinstance(k.value, ast.Constant) and k.value.value is True):
            out.append(("allow_nan", "ValueError"))
        elif k.arg == "check_circular" and not (isinstance(k.value, ast.Constant) and k.value.value is True):
            out.append(("check_circular", "RecursionError"))
        elif k.arg == "sort_keys" and not (isinstance(k.value, ast.Constant) and not k.value.value):
            # sorting compares the keys: a mapping whose keys are of different types (1 and "a") encodes without
            # sort_keys and raises TypeError with it
            out.append(("sort_keys", "TypeError"))
        elif k.arg == "cls" and not (isinstance(k.value, ast.Constant) and k.value.value is None):
            out.append(("cls", "Exception"))
        elif k.arg is None:
            out.append(("**options", "Exception"))
    return out


def _sinks_not_stricter_than_sanitiser(repo: Repo, R: Report, drivers: Set[str]) -> None:
    r = R.rule("C10-D1-sinks-accept-sanitised-values", "the serialisation sinks of the trace path (driver callbacks, trace utilities, SER construction) use an encoder that accepts every value the sanitisers let through (JSON-safe means: the default json encoder succeeds; non-finite floats are in that domain) or contain the extra failure; driver callbacks invoked from execute() raise no exception of their own - a driver failure would replace what the run returns or raises", 8)
    # what `JSON-safe` means here: the probe of the sanitiser
    probe_strict: Set[str] = set()
    sj = repo.maybe_func(UTILS, "serialize_json_safe")
    if sj is None:
        raise AnalysisError("trace/_utils.py: serialize_json_safe vanished")
    probes = [c for c in calls_in(nfunc(repo, UTILS, "serialize_json_safe")) if (call_name(c) or "") in ("json.dumps", "json.dump", "dumps")]
    if not probes:
        raise AnalysisError("serialize_json_safe: the json.dumps probe was not recognised")
    probe_strict = set.intersection(*[{o for o, _e in _strict_options(c)} for c in probes])
    rels = [ORCH, UTILS, DELTA] + sorted(m for m in repo.modules if m.startswith("semantiva/trace/drivers/"))
    for rel in rels:
        if not repo.has_module(rel):
            continue
        mod = repo.module(rel)
        for qn, f in [(q, n) for q, n in mod.defs.items() if isinstance(n, FuncNode)]:
            for c in calls_in(f):
                d = call_name(c) or ""
                if d not in ("json.dumps", "json.dump", "dumps", "dump") or (d in ("dumps", "dump") and isinstance(c.func, ast.Attribute)):
                    continue
                extra = [(o, e) for o, e in _strict_options(c) if o not in probe_strict]
                open_ = [(o, e) for o, e in extra if not _caught_without_reraise(c, {e})]
                R.check(not open_, r, rel, qn, norm(c)[:80], (f"`{open_[0][0]}=` makes this sink reject values that the sanitisers accept (serialize_json_safe probes without it; e.g. a NaN / inf parameter for allow_nan, a mapping with keys of mixed types for sort_keys) and the resulting {open_[0][1]} is not contained here: the traced run raises where the untraced run returns" if open_ else ""), c.lineno)
    # driver callbacks raise nothing of their own
    n_cb = 0
    for rel in [m for m in rels if m.startswith("semantiva/trace/drivers/")]:
        mod = repo.module(rel)
        for cls in [c for c in mod.tree.body if isinstance(c, ast.ClassDef)]:
            meths = {st.name: st for st in cls.body if isinstance(st, FuncNode)}
            roots = [m for m in meths if m in _orch.DRIVER_METHODS or m == "get_options"]
            if not roots:
                continue
            todo, seen = list(roots), set()
            while todo:
                m = todo.pop()
                if m in seen or m not in meths:
                    continue
                seen.add(m)
                for c in ast.walk(meths[m]):
                    if isinstance(c, ast.Call) and _self_attr(c.func) is not None:
                        todo.append(c.func.attr)
            for m in sorted(seen):
                f = meths[m]
                n_cb += 1
                raises = [x for x in ast.walk(f) if isinstance(x, ast.Raise)]
                open_r = [x for x in raises if not _caught_without_reraise(x, {"Exception"})]
                R.check(not open_r, r, rel, f"{cls.name}.{m}", f"{cls.name}.{m} raises nothing of its own", (f"`{norm(open_r[0])[:70]}` raises out of a driver callback that execute() invokes inside the node's try: the exception replaces the result / the exception of the run (traced and untraced runs differ)" if open_r else ""), open_r[0].lineno if open_r else f.lineno)
    if n_cb == 0:
        raise AnalysisError("no trace driver class with callbacks found under semantiva/trace/drivers/")


# ---------------------------------------------------------------------------------------------------------
# D1: caller-supplied mappings handed to a driver callback are made JSON-safe before they are encoded
# ---------------------------------------------------------------------------------------------------------
_LEAF_SANITISERS = {"serialize_json_safe", "safe_repr", "str", "repr"}


def _caller_data_reaches_sink_sanitised(repo: Repo, R: Report) -> None:
    r = R.rule("C10-D1-caller-data-sanitised", "a value that execute() takes from the caller's run metadata (run_space_context, ...) and hands to a trace-driver callback is encoded only after every leaf went through a sanitiser (or the callback's failure fallback drops it): such values are arbitrary Python objects (a YAML date, a numpy scalar), and an encoder failure in on_pipeline_start - which execute() calls outside any try - makes the traced run raise where the untraced run returns", 1)
    ex = nfunc(repo, ORCH, EXECUTE)  # helpers that assemble the keyword arguments are inlined
    meta_param = next((a.arg for a in ex.args.args + ex.args.kwonlyargs if a.arg == "run_metadata"), None)

    def caller_data(e: Optional[ast.AST], depth: int = 0) -> bool:
        """*e* is (derived from) a value stored in the caller's run metadata."""
        if e is None or depth > 4:
            return False
        for x in ast.walk(e):
            if isinstance(x, ast.Subscript) or (isinstance(x, ast.Call) and call_attr(x) == "get"):
                base = x.value if isinstance(x, ast.Subscript) else x.func.value
                d = dotted_name(base) or ""
                if d == meta_param or "run_metadata" in d:
                    return True
            if isinstance(x, ast.Name) and x is not e and False:
                pass
        names = {x.id for x in ast.walk(e) if isinstance(x, ast.Name)}
        return any(caller_data(v, depth + 1) for nm in names for v in assigned_value(ex, nm))

    # keyword names under which caller data reaches a driver callback (directly, or through a ** mapping filled by key)
    passed: Dict[str, Set[str]] = {}
    for c in calls_in(ex):
        meth = call_attr(c)
        if meth not in _orch.DRIVER_METHODS:
            continue
        for k in c.keywords:
            if k.arg is not None and caller_data(k.value):
                passed.setdefault(meth, set()).add(k.arg)
            elif k.arg is None and isinstance(k.value, ast.Name):
                for n in walk_no_nested(ex):
                    if isinstance(n, ast.Assign) and len(n.targets) == 1 and isinstance(n.targets[0], ast.Subscript) and dotted_name(n.targets[0].value) == k.value.id and isinstance(n.targets[0].slice, ast.Constant) and caller_data(n.value):
                        passed.setdefault(meth, set()).add(n.targets[0].slice.value)
    if not passed:
        raise AnalysisError("execute: no value taken from the run metadata reaches a trace-driver callback (anchor vanished)")
    n = 0
    for rel in sorted(m for m in repo.modules if m.startswith("semantiva/trace/drivers/")):
        mod = repo.module(rel)
        for cls in [c for c in mod.tree.body if isinstance(c, ast.ClassDef)]:
            for meth, params in sorted(passed.items()):
                f0 = next((st for st in cls.body if isinstance(st, FuncNode) and st.name == meth), None)
                if f0 is None:
                    continue
                f = nfunc(repo, rel, f"{cls.name}.{meth}")
                annots = {a.arg: (ast.unparse(a.annotation) if a.annotation is not None else "") for a in f.args.args + f.args.kwonlyargs}
                dumps = [c for c in calls_in(f) if (call_name(c) or "") in ("json.dumps", "json.dump")]
                if not dumps:
                    continue
                for p in sorted(params):
                    if p not in annots:
                        continue
                    scalar = annots[p].replace(" ", "") in ("str", "int", "float", "bool", "str|None", "int|None", "float|None", "bool|None", "Optional[str]", "Optional[int]")
                    if scalar:
                        continue
                    n += 1
                    # every occurrence of the parameter that flows into the record is wrapped by a sanitiser, leaf by leaf
                    raw_uses = []
                    for x in walk_no_nested(f):
                        if isinstance(x, ast.Name) and x.id == p and isinstance(x.ctx, ast.Load):
                            anc = list(ancestors(x))
                            stmt = next((a for a in anc if isinstance(a, ast.stmt)), None)
                            if isinstance(stmt, (ast.If, ast.While, ast.Assert)) and any(x is y for y in ast.walk(stmt.test)):
                                continue  # presence test
                            if any(isinstance(a, ast.Call) and ((call_name(a) or "").split(".")[-1] in _LEAF_SANITISERS) for a in anc):
                                continue
                            # iterated to sanitise the leaves: `for k, v in p.items()` / comprehension over p.items()
                            it = next((a for a in anc if isinstance(a, (ast.comprehension, ast.For)) and any(x is y for y in ast.walk(a.iter))), None)
                            if it is not None:
                                tgt_names = {y.id for y in ast.walk(it.target) if isinstance(y, ast.Name)}
                                holder = next((a for a in anc if isinstance(a, (ast.DictComp, ast.ListComp, ast.For))), None)
                                vals = []
                                if isinstance(holder, ast.DictComp):
                                    vals = [holder.value]
                                elif isinstance(holder, ast.For):
                                    vals = [s.value for s in ast.walk(holder) if isinstance(s, ast.Assign)]
                                raw_leaf = any(isinstance(y, ast.Name) and y.id in tgt_names and not any(isinstance(a2, ast.Call) and (call_name(a2) or "").split(".")[-1] in _LEAF_SANITISERS for a2 in ancestors(y) if any(a2 is z for v in vals for z in ast.walk(v))) for v in vals for y in ast.walk(v) if isinstance(y, ast.Name) and y.id in tgt_names and y.id != next(iter(tgt_names), ""))
                                if vals and not raw_leaf:
                                    continue
                            raw_uses.append(x)
                    # or the failure fallback of the encoder drops the key
                    dropped = any(isinstance(c, ast.Call) and call_attr(c) == "pop" and c.args and isinstance(c.args[0], ast.Constant) and c.args[0].value == p and any(isinstance(a, ast.ExceptHandler) for a in ancestors(c)) for c in ast.walk(f))
                    ok = not raw_uses or dropped
                    R.check(ok, r, rel, f"{cls.name}.{meth}", f"`{p}` (caller's run metadata) is sanitised before encoding", f"`{norm(stmt_of(raw_uses[0]))[:80] if raw_uses else ''}` puts the caller-supplied `{p}` into the record as it is: a value the JSON encoder rejects (a date from YAML, a numpy scalar, a set) makes `{meth}` raise - execute() calls it unguarded, so the traced run fails where the untraced run succeeds", raw_uses[0].lineno if raw_uses else f0.lineno)
    if n == 0:
        raise AnalysisError("no trace-driver callback receives the run-metadata values under the names execute() uses")


# ---------------------------------------------------------------------------------------------------------
# D1 (round 5): a driver is used for run after run - what releases its handles leaves no attribute on a closed one
# ---------------------------------------------------------------------------------------------------------
def _handle_attrs(cls: ast.ClassDef) -> Tuple[Dict[str, ast.AST], Dict[str, Set[str]]]:
    """(attributes of `self` that hold an open file: bound from an `open(..)` / `<path>.open(..)` call somewhere in the
    class, or bound from / to such an attribute -> the statement that shows it; attribute -> the attributes it can be
    the same object as, through `self.X = self.Y`)."""
    handles: Dict[str, ast.AST] = {}
    pairs: List[Tuple[str, str, ast.AST]] = []
    for n in ast.walk(cls):
        if not isinstance(n, (ast.Assign, ast.AnnAssign)) or getattr(n, "value", None) is None:
            continue
        tgts = n.targets if isinstance(n, ast.Assign) else [n.target]
        for t in tgts:
            a = _self_attr(t)
            if a is None:
                continue
            v = n.value
            if isinstance(v, ast.Call) and call_attr(v) == "open":
                handles.setdefault(a, n)
            for form in ([v.body, v.orelse] if isinstance(v, ast.IfExp) else [v]):
                b = _self_attr(form)
                if b is not None and b != a:
                    pairs.append((a, b, n))
    alias: Dict[str, Set[str]] = {}
    changed = True
    while changed:
        changed = False
        for a, b, n in pairs:
            if (a in handles) != (b in handles):
                handles.setdefault(a, n)
                handles.setdefault(b, n)
                changed = True
    for a, b, n in pairs:
        if a in handles:
            alias.setdefault(a, set()).add(b)
            alias.setdefault(b, set()).add(a)
    # transitive
    changed = True
    while changed:
        changed = False
        for a in list(alias):
            for b in list(alias[a]):
                new = alias.get(b, set()) - alias[a] - {a}
                if new:
                    alias[a] |= new
                    changed = True
    return handles, alias


def _driver_reusable_after_close(repo: Repo, R: Report) -> None:
    r = R.rule("C10-D1-driver-reusable-after-close", "execute() closes the trace driver at the end of every run and the same driver object serves the next run (and the run-space records around the runs): on every path through a public driver method that closes a file handle, each attribute that can refer to the closed handle - the attribute itself or one bound to the same object elsewhere in the class - is reset to a constant (or is known to be empty) before the method returns, so the open-on-demand guards of the next run do not take a closed handle for an open one", 1)
    n_inst = 0
    for rel in sorted(m for m in repo.modules if m.startswith("semantiva/trace/drivers/")):
        mod = repo.module(rel)
        for cls in [c for c in mod.tree.body if isinstance(c, ast.ClassDef)]:
            meths = {st.name: st for st in cls.body if isinstance(st, FuncNode)}
            if not (set(meths) & _orch.DRIVER_METHODS):
                continue
            handles, alias = _handle_attrs(cls)
            if not handles:
                continue
            for mname, raw in sorted(meths.items()):
                if mname.startswith("_") and not mname.startswith("__") or mname == "__init__":
                    continue  # private helpers are analysed where they are inlined
                try:
                    f = nfunc(repo, rel, f"{cls.name}.{mname}", deep=True)
                except AnalysisError:
                    f = raw
                closes: List[Tuple[ast.Call, str]] = []
                for c in calls_in(f):
                    if call_attr(c) == "close" and isinstance(c.func, ast.Attribute) and not c.args:
                        a = _self_attr(c.func.value)
                        if a is None and isinstance(c.func.value, ast.Name):
                            # a local that stands for the attribute (`fh = self._file` / `fh, self._file = self._file, None`)
                            for v in assigned_value(f, c.func.value.id) + _unpacked_values(f, c.func.value):
                                a = a or _self_attr(v)
                        if a in handles:
                            closes.append((c, a))
                if not closes:
                    continue
                g = CFG(f)
                for h in sorted(handles):
                    related = {h} | alias.get(h, set())
                    mine = [(c, a) for c, a in closes if a in related]
                    if not mine:
                        continue
                    n_inst += 1

                    def empty_atom(e: ast.AST, h=h) -> Optional[bool]:
                        if _self_attr(e) == h:
                            return False
                        if isinstance(e, ast.Compare) and len(e.ops) == 1 and _self_attr(e.left) == h and isinstance(e.comparators[0], ast.Constant) and e.comparators[0].value is None:
                            if isinstance(e.ops[0], ast.Is):
                                return True
                            if isinstance(e.ops[0], ast.IsNot):
                                return False
                        return None

                    blocked: Set[Tuple[int, str]] = set()
                    for n in g.nodes:
                        if n.kind in ("if", "while") and n.part is not None:
                            blocked |= {(n.id, e) for e in edges_guaranteeing(n.part, empty_atom)}
                        if n.kind == "stmt" and n.ast is not None:
                            st = n.ast
                            resets = False
                            if isinstance(st, (ast.Assign, ast.AnnAssign)) and getattr(st, "value", None) is not None:
                                tg = st.targets if isinstance(st, ast.Assign) else [st.target]
                                for t in tg:
                                    if _self_attr(t) == h and _const_reset(st.value):
                                        resets = True
                                    if isinstance(t, (ast.Tuple, ast.List)) and isinstance(st.value, (ast.Tuple, ast.List)) and len(t.elts) == len(st.value.elts):
                                        resets = resets or any(_self_attr(x) == h and _const_reset(v) for x, v in zip(t.elts, st.value.elts))
                            # a helper method the normaliser left alone that resets the attribute first thing
                            for c in calls_in(st):
                                tgt = meths.get(c.func.attr) if isinstance(c.func, ast.Attribute) and _self_attr(c.func) is not None else None
                                if tgt is not None and any(isinstance(s, ast.Assign) and any(_self_attr(t) == h for t in s.targets) and _const_reset(s.value) for s in tgt.body):
                                    resets = True
                            if resets:
                                blocked.add((n.id, "n"))
                    before = g.reach([g.entry], blocked_edges=blocked)
                    bad = None
                    for c, a in mine:
                        for nid in g.nodes_for(stmt_of(c)):
                            if nid not in before:
                                continue
                            after = g.reach([nid], blocked_edges=blocked, skip_labels={"EXC", "BASE"})
                            if g.ret_exit in after:
                                bad = (c, a, g.path_to(after, g.ret_exit))
                                break
                        if bad:
                            break
                    why = ""
                    if bad:
                        c, a, _path = bad
                        same = "" if a == h else f" (`self.{h}` and `self.{a}` are bound to the same handle by `{norm(handles[h] if _self_attr(getattr(handles[h], 'value', None)) else handles[a])[:60]}`)"
                        why = f"`{norm(c)[:50]}` closes the handle and a path to the end of {mname}() leaves `self.{h}` referring to it{same}: the driver is kept for the next run, whose `if self.{h}: return`-style guards then write to / flush a closed file - the traced run raises `ValueError: I/O operation on closed file` where the untraced run returns, and the run-space records are lost"
                    R.check(not bad, r, rel, f"{cls.name}.{mname}", f"self.{h} is reset on every path of {mname}() that closes the handle it may refer to", why, bad[0].lineno if bad else raw.lineno, bad[2] if bad else None)
    if n_inst == 0:
        raise AnalysisError("no trace driver method that closes a file handle held in an instance attribute was recognised")


# ---------------------------------------------------------------------------------------------------------
# D1 (round 5): code that runs with and without a trace may take a trace-derived value (the driver's detail options)
# only to select work that cannot raise on user values
# ---------------------------------------------------------------------------------------------------------
_CONTAINER_ANN = {"dict", "Dict", "Mapping", "MutableMapping", "list", "List", "Sequence", "MutableSequence", "Iterable", "Collection", "set", "Set", "FrozenSet", "frozenset", "tuple", "Tuple", "OrderedDict"}
_PLAIN_ANN = SCALAR_ANN | {"Optional", "Union", "Literal"}
_TOTAL_CALLS = {"isinstance", "issubclass", "type", "id", "callable", "hasattr", "getattr", "cast", "typing.cast"}
_PLAIN_RESULT = {"len", "isinstance", "type", "id", "str", "repr", "bool", "int", "float", "callable", "hasattr", "hash", "format", "ascii"}
_CONT_RESULT = {"set", "list", "sorted", "dict", "tuple", "frozenset", "reversed", "enumerate", "zip", "iter", "filter", "map"}
_CONT_VIEWS = {"keys", "values", "items", "copy", "union", "intersection", "difference", "symmetric_difference"}
_CONT_ELEMENT = {"get", "pop", "setdefault", "popitem"}
PLAIN, CONT, LIVE = 0, 1, 2


class _ValueKinds:
    """Which expressions of one function stand for a user value (LIVE: a payload / context value - an operator, a
    builtin protocol or a method call on it runs user code), for a plain container of such values (CONT: a snapshot
    dict, a set of keys) or for neither.  Seeded from the parameters (declared type, or the kind of the argument a
    caller binds), closed over assignments, loops and comprehensions."""

    def __init__(self, repo: Repo, mod, fn: ast.AST, seed: Optional[Dict[str, int]] = None, flags: Set[str] = frozenset()):
        self.repo, self.mod, self.fn = repo, mod, fn
        self.kind: Dict[str, int] = {}
        params = fn.args.posonlyargs + fn.args.args + fn.args.kwonlyargs
        for a in params:
            if a.arg in ("self", "cls") or a.arg in flags:
                continue
            if seed is not None and a.arg in seed:
                k = seed[a.arg]
                names = _ann_names(a.annotation)
                if k == LIVE and names & _CONTAINER_ANN:
                    k = CONT  # declared a plain container of values
                self.kind[a.arg] = k
                continue
            if seed is not None:
                continue
            names = _ann_names(a.annotation)
            if names and names <= _PLAIN_ANN:
                continue
            self.kind[a.arg] = CONT if names & _CONTAINER_ANN else LIVE
        for extra in [fn.args.vararg, fn.args.kwarg]:
            if extra is not None and seed is None:
                self.kind[extra.arg] = CONT
        changed = True
        rounds = 0
        while changed and rounds < 20:
            changed = False
            rounds += 1
            for n in ast.walk(fn):
                binds: List[Tuple[ast.AST, int]] = []
                if isinstance(n, ast.Assign):
                    k = self.of(n.value)
                    binds = [(t, k) for t in n.targets]
                elif isinstance(n, (ast.AnnAssign, ast.AugAssign)) and n.value is not None:
                    binds = [(n.target, self.of(n.value))]
                elif isinstance(n, ast.NamedExpr):
                    binds = [(n.target, self.of(n.value))]
                elif isinstance(n, (ast.For, ast.comprehension)):
                    binds = [(n.target, LIVE if self.of(n.iter) != PLAIN else PLAIN)]
                elif isinstance(n, ast.withitem) and n.optional_vars is not None:
                    binds = [(n.optional_vars, self.of(n.context_expr))]
                for t, k in binds:
                    if k == PLAIN:
                        continue
                    for x in ast.walk(t):
                        if isinstance(x, ast.Name) and isinstance(x.ctx, ast.Store) and x.id not in flags and self.kind.get(x.id, PLAIN) < k:
                            self.kind[x.id] = k
                            changed = True

    def _plain_return(self, c: ast.Call) -> bool:
        tg = [t for _m, t in self.repo.resolve_call(self.mod, c) if isinstance(t, FuncNode)]
        if not tg:
            return False
        for t in tg:
            names = _ann_names(t.returns)
            if not names or not names <= _PLAIN_ANN | {"bytes"}:
                return False
        return True

    def of(self, e: Optional[ast.AST]) -> int:
        if e is None or isinstance(e, (ast.Constant, ast.JoinedStr, ast.Compare, ast.Lambda)):
            return PLAIN
        if isinstance(e, ast.Name):
            return self.kind.get(e.id, PLAIN)
        if isinstance(e, ast.Attribute):
            return LIVE if self.of(e.value) == LIVE else PLAIN
        if isinstance(e, ast.Subscript):
            return LIVE if self.of(e.value) != PLAIN else PLAIN
        if isinstance(e, ast.Starred):
            return self.of(e.value)
        if isinstance(e, ast.Await):
            return self.of(e.value)
        if isinstance(e, ast.NamedExpr):
            return self.of(e.value)
        if isinstance(e, ast.IfExp):
            return max(self.of(e.body), self.of(e.orelse))
        if isinstance(e, ast.BoolOp):
            return max(self.of(v) for v in e.values)
        if isinstance(e, ast.UnaryOp):
            return PLAIN if isinstance(e.op, ast.Not) else self.of(e.operand)
        if isinstance(e, ast.BinOp):
            return max(self.of(e.left), self.of(e.right))
        if isinstance(e, (ast.List, ast.Tuple, ast.Set)):
            return CONT if any(self.of(x) != PLAIN for x in e.elts) else PLAIN
        if isinstance(e, ast.Dict):
            return CONT if any(self.of(x) != PLAIN for x in list(e.values) + [k for k in e.keys if k is not None]) else PLAIN
        if isinstance(e, (ast.ListComp, ast.SetComp, ast.GeneratorExp, ast.DictComp)):
            return CONT if any(self.of(g.iter) != PLAIN for g in e.generators) else PLAIN
        if isinstance(e, ast.Call):
            d = call_name(e) or ""
            args = list(e.args) + [k.value for k in e.keywords]
            top = max([self.of(a) for a in args], default=PLAIN)
            if isinstance(e.func, ast.Name):
                if d in _PLAIN_RESULT:
                    return PLAIN
                if d in _CONT_RESULT:
                    return CONT if top != PLAIN else PLAIN
                if d == "getattr":
                    return LIVE if args and self.of(args[0]) == LIVE else PLAIN
                if d in ("next", "min", "max", "sum"):
                    return LIVE if top != PLAIN else PLAIN
            if isinstance(e.func, ast.Attribute):
                rk = self.of(e.func.value)
                if rk == CONT:
                    if e.func.attr in _CONT_VIEWS:
                        return CONT
                    return LIVE if e.func.attr in _CONT_ELEMENT else PLAIN
                if rk == LIVE:
                    return PLAIN if self._plain_return(e) else LIVE
            if top == PLAIN or self._plain_return(e):
                return PLAIN
            return LIVE if top == LIVE else CONT
        return PLAIN


def _hook_ops(vk: _ValueKinds, root: ast.AST) -> List[Tuple[ast.AST, str]]:
    """(node, what) for every operation inside *root* (nested defs / lambdas excluded) that runs user code on a LIVE
    value: a comparison, arithmetic, a truth test, iteration, subscription, attribute read, formatting, or a call that
    is handed / invoked on one."""
    out: List[Tuple[ast.AST, str]] = []
    todo = [root]
    while todo:
        n = todo.pop()
        if n is not root and isinstance(n, FuncNode + (ast.Lambda,)):
            continue
        todo.extend(ast.iter_child_nodes(n))
        if isinstance(n, ast.Compare):
            operands = [n.left] + list(n.comparators)
            for i, op in enumerate(n.ops):
                if isinstance(op, (ast.Is, ast.IsNot)):
                    continue
                l, r_ = vk.of(operands[i]), vk.of(operands[i + 1])
                if isinstance(op, (ast.In, ast.NotIn)):
                    if l == LIVE or r_ == LIVE:
                        out.append((n, "membership test on a user value (`__contains__` / `__hash__` / `__eq__`)"))
                elif l == LIVE or r_ == LIVE:
                    out.append((n, "comparison of user values (`__eq__` / `__ne__` / ordering of the value's class; the result may not even be a bool)"))
        elif isinstance(n, ast.Call):
            d = call_name(n) or ""
            if d in _TOTAL_CALLS:
                continue
            args = list(n.args) + [k.value for k in n.keywords]
            recv_live = isinstance(n.func, ast.Attribute) and vk.of(n.func.value) == LIVE
            if recv_live or any(vk.of(a) == LIVE for a in args):
                out.append((n, "call that hands a user value to / invokes a method of user-overridable code"))
        elif isinstance(n, ast.UnaryOp):
            if vk.of(n.operand) == LIVE:
                out.append((n, "truth test / unary operator on a user value" if isinstance(n.op, ast.Not) else "unary operator on a user value"))
        elif isinstance(n, ast.BoolOp):
            if any(vk.of(v) == LIVE and isinstance(v, (ast.Name, ast.Attribute, ast.Subscript, ast.Call)) for v in n.values):
                out.append((n, "truth test of a user value (`__bool__` / `__len__`)"))
        elif isinstance(n, ast.BinOp):
            if vk.of(n.left) == LIVE or vk.of(n.right) == LIVE:
                out.append((n, "arithmetic on user values"))
        elif isinstance(n, ast.AugAssign):
            if vk.of(n.value) == LIVE or vk.of(n.target) == LIVE:
                out.append((n, "arithmetic on user values"))
        elif isinstance(n, (ast.If, ast.While, ast.IfExp)):
            if vk.of(n.test) == LIVE and isinstance(n.test, (ast.Name, ast.Attribute, ast.Subscript, ast.Call)):
                out.append((n.test, "truth test of a user value (`__bool__` / `__len__`)"))
        elif isinstance(n, (ast.For, ast.comprehension)):
            if vk.of(n.iter) == LIVE:
                out.append((n.iter, "iteration over a user value"))
        elif isinstance(n, ast.Subscript) and isinstance(n.ctx, ast.Load):
            if vk.of(n.value) == LIVE:
                out.append((n, "subscription of a user value (`__getitem__`)"))
        elif isinstance(n, ast.Attribute) and isinstance(n.ctx, ast.Load):
            par = getattr(n, "_parent", None)
            if vk.of(n.value) == LIVE and not (isinstance(par, ast.Call) and par.func is n) and not (n.attr.startswith("__") and n.attr.endswith("__")):
                out.append((n, "attribute read on a user value (`__getattr__` / property)"))
        elif isinstance(n, ast.FormattedValue):
            if vk.of(n.value) == LIVE:
                out.append((n, "formatting of a user value (`__format__` / `__str__`)"))
    out.sort(key=lambda t: (getattr(t[0], "lineno", 0), getattr(t[0], "col_offset", 0)))
    return out


class _ModeAnalysis:
    def __init__(self, repo: Repo):
        self.repo = repo
        self.safe_cache: Dict[Tuple[int, Tuple[Tuple[str, int], ...]], bool] = {}

    def open_hooks(self, mod, vk: _ValueKinds, roots: List[ast.AST], depth: int = 0) -> List[Tuple[ast.AST, str]]:
        """Hook operations inside *roots* that are neither inside a containing try nor calls of repository functions
        that contain whatever they do with the user values they are handed."""
        out: List[Tuple[ast.AST, str]] = []
        seen: Set[int] = set()
        for root in roots:
            for n, what in _hook_ops(vk, root):
                if id(n) in seen:
                    continue
                seen.add(id(n))
                if contained(n):
                    continue
                if isinstance(n, ast.Call) and depth < 4 and self._callee_contains(mod, vk, n, depth):
                    continue
                out.append((n, what))
        out.sort(key=lambda t: (getattr(t[0], "lineno", 0), getattr(t[0], "col_offset", 0)))
        return out

    def _callee_contains(self, mod, vk: _ValueKinds, c: ast.Call, depth: int) -> bool:
        targets = [(m, t) for m, t in self.repo.resolve_call(mod, c) if isinstance(t, FuncNode)]
        if not targets:
            return False
        if isinstance(c.func, ast.Attribute) and vk.of(c.func.value) == LIVE:
            return False  # a method of the user value itself
        for m, t in targets:
            b = _bind_call(t, c)
            if b is None:
                return False
            seed = {p: vk.of(a) for p, a in b.items() if vk.of(a) != PLAIN}
            key = (id(t), tuple(sorted(seed.items())))
            if key not in self.safe_cache:
                self.safe_cache[key] = True  # recursion: assume the inner call is fine, the outer one decides
                cvk = _ValueKinds(self.repo, m, t, seed=seed)
                self.safe_cache[key] = not self.open_hooks(m, cvk, list(t.body), depth + 1)
            if not self.safe_cache[key]:
                return False
        return True


def _mentions(e: Optional[ast.AST], names: Set[str], attrs: Set[str] = frozenset()) -> bool:
    if e is None:
        return False
    for x in ast.walk(e):
        if isinstance(x, ast.Name) and isinstance(x.ctx, ast.Load) and x.id in names:
            return True
        if attrs and _self_attr(x) in attrs and isinstance(x.ctx, ast.Load):
            return True
    return False


def _only_from(e: ast.AST, names: Set[str], attrs: Set[str], local_names: Set[str]) -> bool:
    """Every variable the value of *e* is computed from is one of *names* / `self.<attrs>` (and there is one)."""
    hit = False
    todo = [e]
    while todo:
        x = todo.pop()
        if isinstance(x, ast.Attribute) and _self_attr(x) is not None:
            if x.attr in attrs:
                hit = True
                continue
            par = getattr(x, "_parent", None)
            if isinstance(par, ast.Call) and par.func is x:
                continue  # a method of the same object applied to the operands
            return False
        if isinstance(x, ast.Call):
            todo.extend(list(x.args) + [k.value for k in x.keywords])
            if isinstance(x.func, ast.Attribute):
                todo.append(x.func.value if _self_attr(x.func) is None else x.func)
            continue
        if isinstance(x, ast.Name):
            if x.id in names:
                hit = True
            elif x.id in local_names:
                return False
            continue
        if isinstance(x, (ast.Lambda,) + FuncNode):
            return False
        todo.extend(ast.iter_child_nodes(x))
    return hit


def _mode_selected_work_contained(repo: Repo, R: Report, ex: ast.AST, fold) -> None:
    r = R.rule("C10-D1-mode-selected-work-contained", "code that runs whether or not a trace is attached (reached from execute() outside its trace-only blocks) and is handed a value derived from the trace driver - the detail options, kept in a parameter or in an attribute its constructor fills - lets that value select only work that cannot raise on user values: every operation on a payload / context value (comparison, truth test, len / repr / serialisation, method call, iteration) that is executed under one outcome of a test on the trace-derived value and not under the other sits inside a try that contains Exception, or is a call of a function that does - otherwise the same run raises in one mode and returns in the other", 2)
    omod = repo.module(ORCH)
    # what of execute() is computed from the trace driver alone
    locals_ex = {x.id for x in ast.walk(ex) if isinstance(x, ast.Name) and isinstance(x.ctx, ast.Store)} | {a.arg for a in ex.args.args + ex.args.kwonlyargs}
    flags: Set[str] = {_orch.trace_param(ex)}
    changed = True
    while changed:
        changed = False
        for n in ast.walk(ex):
            if isinstance(n, (ast.Assign, ast.AnnAssign)) and getattr(n, "value", None) is not None:
                tg = n.targets if isinstance(n, ast.Assign) else [n.target]
                if all(isinstance(t, ast.Name) for t in tg) and _only_from(n.value, flags, set(), locals_ex - {"self"}):
                    for t in tg:
                        if t.id not in flags:
                            flags.add(t.id)
                            changed = True
    # trace-only code of execute (decided by the other D1 rules)
    trace_only: Set[int] = set()
    for n in ast.walk(ex):
        if isinstance(n, (ast.If, ast.IfExp)):
            v = fold(n.test)
            part = (n.body if v is True else n.orelse if v is False else [])
            for st in (part if isinstance(part, list) else [part]):
                trace_only |= {id(x) for x in ast.walk(st)}
    # functions that receive a trace-derived value: (function, parameters that carry it); classes whose constructor does
    work: List[Tuple[object, ast.AST, frozenset]] = []
    attr_flags: Dict[int, Tuple[object, ast.ClassDef, Set[str]]] = {}
    done: Set[Tuple[int, frozenset]] = set()

    def feed(mod, caller_flags: Set[str], caller_attrs: Set[str], c: ast.Call) -> None:
        args = list(c.args) + [k.value for k in c.keywords]
        if not any(_mentions(a, caller_flags, caller_attrs) for a in args):
            return
        for m, t in repo.resolve_call(mod, c) or _method_of_local_instance(repo, mod, c):
            if not isinstance(t, FuncNode):
                continue
            b = _bind_call(t, c)
            if b is None:
                continue
            carried = frozenset(p for p, a in b.items() if _mentions(a, caller_flags, caller_attrs))
            if carried:
                work.append((m, t, carried))

    for c in calls_in(ex, include_nested=True):
        if id(c) not in trace_only:
            feed(omod, flags, set(), c)
    ma = _ModeAnalysis(repo)
    n_tests = 0
    guard = 0
    while work and guard < 200:
        guard += 1
        mod, fn, carried = work.pop(0)
        cls = next((a for a in ancestors(fn) if isinstance(a, ast.ClassDef)), None)
        if fn.name == "__init__" and cls is not None:
            # the constructor keeps the value on the object: every method of the class reads it from there
            cell = attr_flags.setdefault(id(cls), (mod, cls, set()))
            grew = False
            for n in ast.walk(fn):
                if isinstance(n, (ast.Assign, ast.AnnAssign)) and getattr(n, "value", None) is not None and _mentions(n.value, set(carried)):
                    for t in (n.targets if isinstance(n, ast.Assign) else [n.target]):
                        a = _self_attr(t)
                        if a is not None and a not in cell[2]:
                            cell[2].add(a)
                            grew = True
            if grew:
                for st in cls.body:
                    if isinstance(st, FuncNode):
                        done.discard((id(st), frozenset()))
                        work.append((mod, st, frozenset()))
        attrs = attr_flags[id(cls)][2] if cls is not None and id(cls) in attr_flags else set()
        key = (id(fn), carried | frozenset("self." + a for a in attrs))
        if key in done or (not carried and not attrs):
            continue
        done.add(key)
        qn = qualname_of(fn)
        # locals computed from the trace-derived values alone
        fl: Set[str] = set(carried)
        locals_fn = {x.id for x in ast.walk(fn) if isinstance(x, ast.Name) and isinstance(x.ctx, ast.Store)} | {a.arg for a in fn.args.posonlyargs + fn.args.args + fn.args.kwonlyargs}
        changed = True
        while changed:
            changed = False
            for n in walk_no_nested(fn):
                if isinstance(n, (ast.Assign, ast.AnnAssign)) and getattr(n, "value", None) is not None:
                    tg = n.targets if isinstance(n, ast.Assign) else [n.target]
                    if all(isinstance(t, ast.Name) for t in tg) and _only_from(n.value, fl, attrs, locals_fn - {"self"}):
                        for t in tg:
                            if t.id not in fl:
                                fl.add(t.id)
                                changed = True
        for c in calls_in(fn, include_nested=True):
            feed(mod, fl, attrs, c)
        vk = _ValueKinds(repo, mod, fn, flags=fl)
        g = CFG(fn)
        # statement level: what runs under one outcome of the test and not under the other
        for t in g.nodes:
            if t.kind not in ("if", "while") or t.part is None or not _mentions(t.part, fl, attrs):
                continue
            n_tests += 1
            sides = []
            for lab in ("T", "F"):
                starts = [s for s, l in g.succ[t.id] if l == lab]
                sides.append(set(g.reach(starts, blocked={t.id})) if starts else set())
            dep = (sides[0] - sides[1]) | (sides[1] - sides[0])
            roots = []
            for nid in sorted(dep):
                n = g.nodes[nid]
                if n.part is not None:
                    roots.append(n.part)
                elif n.kind == "stmt" and n.ast is not None:
                    roots.append(n.ast)
            # ... and what the test itself evaluates after the trace-derived operand
            roots += _after_flag_operands(t.part, fl, attrs)
            bad = ma.open_hooks(mod, vk, roots)
            _report_mode(R, r, mod.rel, qn, t.ast, t.part, bad)
        # expression level: conditional expressions, short-circuit operands, comprehension filters
        for n in walk_no_nested(fn):
            roots = []
            test = None
            if isinstance(n, ast.IfExp) and _mentions(n.test, fl, attrs):
                test, roots = n.test, [n.body, n.orelse] + _after_flag_operands(n.test, fl, attrs)
            elif isinstance(n, (ast.ListComp, ast.SetComp, ast.GeneratorExp, ast.DictComp)):
                for gen in n.generators:
                    for cond in gen.ifs:
                        if _mentions(cond, fl, attrs):
                            test = cond
                            roots += ([n.key, n.value] if isinstance(n, ast.DictComp) else [n.elt]) + _after_flag_operands(cond, fl, attrs)
            elif isinstance(n, ast.BoolOp) and not isinstance(getattr(n, "_parent", None), ast.BoolOp):
                st = stmt_of(n)
                is_test = isinstance(st, (ast.If, ast.While)) and st.test is n
                if not is_test and _mentions(n, fl, attrs):
                    roots = _after_flag_operands(n, fl, attrs)
                    test = n if roots else None
            if test is None:
                continue
            n_tests += 1
            bad = ma.open_hooks(mod, vk, roots)
            _report_mode(R, r, mod.rel, qn, stmt_of(n), test, bad)
    if n_tests == 0:
        raise AnalysisError("execute(): no code outside the trace-only blocks was found that branches on a value derived from the trace driver (the detail options of the delta collector)")


def _method_of_local_instance(repo: Repo, mod, c: ast.Call):
    """Targets of `<local>.m(..)` when every value the local is bound to is a constructor call of a repository class
    (also from inside a closure that reads the local of the enclosing function)."""
    if not (isinstance(c.func, ast.Attribute) and isinstance(c.func.value, ast.Name)):
        return []
    fn = next((a for a in ancestors(c) if isinstance(a, FuncNode)), None)
    if fn is None:
        return []
    out = []
    for v in _lookup(fn, c.func.value):
        if not isinstance(v, ast.Call):
            return []
        inits = [(m, t) for m, t in repo.resolve_call(mod, v) if isinstance(t, FuncNode) and t.name == "__init__"]
        if not inits:
            return []
        for m, init in inits:
            cls = next((a for a in ancestors(init) if isinstance(a, ast.ClassDef)), None)
            hit = repo.method(m, cls, c.func.attr) if cls is not None else None
            if hit:
                out.append(hit)
    return out


def _after_flag_operands(test: ast.AST, fl: Set[str], attrs: Set[str]) -> List[ast.AST]:
    """Operands of short-circuit operators in *test* that are evaluated only for one outcome of a trace-derived
    operand written before them."""
    out: List[ast.AST] = []
    for b in [x for x in ast.walk(test) if isinstance(x, ast.BoolOp)]:
        seen_flag = False
        for v in b.values:
            if seen_flag:
                out.append(v)
            elif _mentions(v, fl, attrs):
                seen_flag = True
    return out


def _report_mode(R: Report, r, rel: str, qn: str, st: ast.AST, test: ast.AST, bad) -> None:
    what = ""
    line = getattr(st, "lineno", 0)
    if bad:
        n, kind = bad[0]
        line = getattr(n, "lineno", line)
        what = f"`{norm(stmt_of(n))[:70]}` is executed for one outcome of `{norm(test)[:50]}` (a value derived from the trace driver) and not for the other, outside any containing try: `{norm(n)[:40]}` is a {kind} - a context / payload value whose hook raises (a numpy array with more than one element in a truth test, ...) makes the run raise with one trace setting and return with another, so attaching a driver changes what the run raises"
    R.check(not bad, r, rel, qn, f"work selected by `{norm(test)[:60]}` is contained", what, line)


# ---------------------------------------------------------------------------------------------------------
# D1 (round 6): work that execute() does only when a trace is attached, on a path from which the run can still return,
# runs no code the framework does not control and no trace-package function with an open hook outside a containing try
# ---------------------------------------------------------------------------------------------------------
def _trace_package(rel: str) -> bool:
    base = UTILS.rsplit("/", 1)[0] + "/"
    return rel.startswith(base) and not rel.startswith(base + "drivers/")


def _local_def(fn: ast.AST, name: ast.Name) -> Optional[ast.AST]:
    """The nested `def` a name in call position stands for (innermost enclosing function that defines it)."""
    for a in ancestors(name):
        if isinstance(a, FuncNode):
            d = _nested_defs(a).get(name.id)
            if d is not None:
                return d
    return None


def _nested_defs(fn: ast.AST) -> Dict[str, ast.AST]:
    """name -> `def` written in the body of *fn* (at any statement depth, not inside a further function or class)."""
    out: Dict[str, ast.AST] = {}
    todo = list(ast.iter_child_nodes(fn))
    while todo:
        n = todo.pop()
        if isinstance(n, FuncNode):
            out.setdefault(n.name, n)
            continue
        if isinstance(n, (ast.ClassDef, ast.Lambda)):
            continue
        todo.extend(ast.iter_child_nodes(n))
    return out


def _binds_locally(name: ast.Name) -> bool:
    """Is the name a parameter or a local of one of the functions it is written in (as opposed to a builtin, an
    import or a module-level definition)?"""
    for a in ancestors(name):
        if isinstance(a, FuncNode + (ast.Lambda,)):
            if name.id in {x.arg for x in a.args.posonlyargs + a.args.args + a.args.kwonlyargs + [y for y in (a.args.vararg, a.args.kwarg) if y is not None]}:
                return True
            if not isinstance(a, ast.Lambda) and (name.id in _nested_defs(a) or any(isinstance(x, ast.Name) and x.id == name.id and isinstance(x.ctx, ast.Store) for x in walk_no_nested(a))):
                return True
    return False


def _closures_returned(repo: Repo, mod, v: ast.AST) -> Optional[List[ast.AST]]:
    """`factory(..)` where every repository target of the call returns one of its own nested functions / a lambda:
    those callables; None when the value is not of that shape."""
    if not isinstance(v, ast.Call):
        return None
    tg = [(m, t) for m, t in repo.resolve_call(mod, v) if isinstance(t, FuncNode)]
    if not tg:
        return None
    out: List[ast.AST] = []
    for _m, t in tg:
        rets = [n.value for n in walk_no_nested(t) if isinstance(n, ast.Return)]
        if not rets:
            return None
        for rv in rets:
            if isinstance(rv, ast.Lambda):
                out.append(rv)
            elif isinstance(rv, ast.Name) and _local_def(t, rv) is not None:
                out.append(_local_def(t, rv))
            else:
                return None
    return out


def _stored_callable(fn: ast.AST, c: ast.Call) -> Optional[List[ast.AST]]:
    """`X.a(..)` with X a local: the values the data attribute `a` of X is known to hold when the code itself treats
    `a` as data - it is given to the constructor call X is bound to as a keyword, assigned (`X.a = v`), or read as a
    value somewhere in the function (`if X.a`, `X.a if X.a else ..`).  None: nothing says `a` is a stored callable
    (a method of an object of unknown class)."""
    f = c.func
    if not (isinstance(f, ast.Attribute) and isinstance(f.value, ast.Name) and f.value.id not in ("self", "cls")):
        return None
    x, a = f.value.id, f.attr
    scope = next((s for s in ancestors(c) if isinstance(s, FuncNode)), fn)
    vals: List[ast.AST] = []
    evidence = False
    for b in _lookup(scope, f.value):
        if isinstance(b, ast.Call):
            for k in b.keywords:
                if k.arg == a:
                    vals.append(k.value)
                    evidence = True
    for n in ast.walk(scope):
        if isinstance(n, ast.Attribute) and n.attr == a and isinstance(n.value, ast.Name) and n.value.id == x:
            par = getattr(n, "_parent", None)
            if isinstance(n.ctx, ast.Store):
                evidence = True
                if isinstance(par, (ast.Assign, ast.AnnAssign)) and getattr(par, "value", None) is not None:
                    vals.append(par.value)
                else:
                    vals.append(ast.Name(id="?", ctx=ast.Load()))
            elif isinstance(n.ctx, ast.Load) and not (isinstance(par, ast.Call) and par.func is n):
                evidence = True
    return vals if evidence else None


def _trace_only_work_contained(repo: Repo, R: Report, ex: ast.AST, facts: "_TraceFacts", drivers: Set[str]) -> None:
    r = R.rule("C10-D1-trace-only-work-contained", "what execute() does only when a trace is attached, on a path from which the run can still return normally (the trace-only blocks and conditional-expression arms outside a handler that re-raises, and the orchestrator / trace-package functions called from there), contains every piece of work that can fail on user values: no call of a callable the code holds as data (a provider kept in an attribute of a hook bundle, a callable taken from a local, a parameter, `getattr` or a table - whoever filled it decides what runs) and no call of a trace-package function with an operation on a context / payload value (comparison, truth test, hook call) outside a try that contains Exception - such work raises only in the traced run, so attaching a driver would change what the run raises; work that both modes do (context delta, post checks) stays outside the trace-only code", 3)
    omod = repo.module(ORCH)
    fold = facts.fold
    g = CFG(ex, may_raise=lambda p: set())
    flags = {facts.param} | facts.pos | facts.nn | facts.neg
    ma = _ModeAnalysis(repo)
    vks: Dict[int, _ValueKinds] = {}
    done: Dict[int, List[Tuple[str, str, ast.AST, str]]] = {}

    def vk_of(mod, fn: ast.AST) -> _ValueKinds:
        if id(fn) not in vks:
            vks[id(fn)] = _ValueKinds(repo, mod, fn, flags=flags if fn is ex else frozenset())
        return vks[id(fn)]

    def callee(mod, fn: ast.AST, c: ast.Call, m, t: ast.AST, depth: int) -> List[Tuple[str, str, ast.AST, str]]:
        """Findings of a call of the repository function *t*."""
        out: List[Tuple[str, str, ast.AST, str]] = []
        if not (m.rel == ORCH or _trace_package(m.rel)) or t.name == "__init__" and not list(calls_in(t)):
            return out
        if _trace_package(m.rel) and isinstance(fn, FuncNode):
            b = _bind_call(t, c)
            if b is not None:
                vk = vk_of(mod, fn)
                seed = {p: vk.of(a) for p, a in b.items() if vk.of(a) != PLAIN}
                if seed:
                    cvk = _ValueKinds(repo, m, t, seed=seed)
                    opn = ma.open_hooks(m, cvk, list(t.body), 1)
                    if opn:
                        n, kind = opn[0]
                        out.append((mod.rel, qualname_of(fn), c, f"`{norm(c)[:70]}` runs {qualname_of(t)}() of {m.rel}, where `{norm(n)[:60]}` (line {getattr(n, 'lineno', 0)}) is a {kind} outside any containing try"))
        if id(t) not in done:
            done[id(t)] = []  # recursion: the outer visit decides
            done[id(t)] = scan(m, t, list(t.body), depth + 1) if depth < 5 else []
        return out + done[id(t)]

    def scan(mod, fn: ast.AST, roots: List[ast.AST], depth: int) -> List[Tuple[str, str, ast.AST, str]]:
        """(file, function, call, why) for the uncontained calls below *roots* that run code held as data, or a
        trace-package function with an open hook."""
        out: List[Tuple[str, str, ast.AST, str]] = []
        qn = qualname_of(fn) if isinstance(fn, FuncNode) else EXECUTE
        for root in roots:
            for c in sorted([x for x in ast.walk(root) if isinstance(x, ast.Call)], key=lambda x: (x.lineno, x.col_offset)):
                if contained(c):
                    continue
                if fn is ex and _orch.is_driver_call(c, drivers):
                    continue
                if (call_name(c) or "") in _TOTAL_CALLS:
                    continue
                f = c.func
                targets = [(m, t) for m, t in (repo.resolve_call(mod, c) or _method_of_local_instance(repo, mod, c)) if isinstance(t, FuncNode)]
                if targets:
                    for m, t in targets:
                        out.extend(callee(mod, fn, c, m, t, depth))
                    continue
                defs: Optional[List[ast.AST]] = None
                held = ""
                if isinstance(f, ast.Name):
                    if not _binds_locally(f):
                        continue  # a builtin / an imported name outside the repository
                    d = _local_def(fn, f)
                    defs = [d] if d is not None else _callee_defs(repo, mod, fn, f)
                    held = f"the callable held in the local / parameter `{f.id}`"
                elif isinstance(f, ast.Attribute):
                    vals = _stored_callable(fn, c)
                    if vals is None:
                        # a method of an object whose class is not known here (a collector handed down as an argument):
                        # the trace-package methods of that name; methods of user values are decided by the
                        # hook-containment rules
                        for m, t in repo.resolve_call_by_name(c):
                            if isinstance(t, FuncNode) and _trace_package(m.rel) and any(isinstance(a, ast.ClassDef) for a in ancestors(t)):
                                out.extend(callee(mod, fn, c, m, t, depth))
                        continue
                    held = f"the callable stored in the attribute `{f.attr}` of `{norm(f.value)[:30]}`"
                    defs = []
                    for v in vals:
                        if isinstance(v, ast.Constant) and v.value is None:
                            continue
                        dv = _closures_returned(repo, mod, v)
                        if dv is None:
                            dv = _callee_defs(repo, mod, fn, v)
                        if dv is None:
                            defs = None
                            break
                        defs.extend(dv)
                    if defs is not None and not vals:
                        defs = None
                    if defs is not None:
                        # every value the code itself puts there is a callable of the repository: decided on its body
                        inner = [(d, w) for d in defs for w in body_findings(mod, d, depth)]
                        if inner:
                            d, w = inner[0]
                            out.append((mod.rel, qn, c, f"`{norm(c)[:60]}` invokes {held}, bound to `{norm(d)[:50]}`: {w[3]}"))
                        continue
                else:
                    defs = _callee_defs(repo, mod, fn, f)
                    held = f"a callable computed at run time (`{norm(f)[:50]}`)"
                if defs is None:
                    out.append((mod.rel, qn, c, f"`{norm(c)[:70]}` invokes {held}: which code runs is decided by whoever supplied it, and an exception it raises escapes"))
                    continue
                for d in defs:
                    for w in body_findings(mod, d, depth):
                        out.append((mod.rel, qn, c, f"`{norm(c)[:60]}` invokes {held}: {w[3]}"))
                        break
        return out

    def body_findings(mod, d: ast.AST, depth: int) -> List[Tuple[str, str, ast.AST, str]]:
        if id(d) not in done:
            done[id(d)] = []
            home = next((s for s in ancestors(d) if isinstance(s, FuncNode)), d)
            roots = [d.body] if isinstance(d, ast.Lambda) else list(d.body)
            done[id(d)] = scan(mod, home if isinstance(d, ast.Lambda) else d, roots, depth + 1) if depth < 5 else []
        return done[id(d)]

    parts: List[Tuple[ast.AST, List[ast.AST]]] = []
    for n in ast.walk(ex):
        if isinstance(n, (ast.If, ast.IfExp)):
            v = fold(n.test)
            if v is None:
                continue
            part = n.body if v else n.orelse
            roots = part if isinstance(part, list) else [part]
            if roots:
                parts.append((n, roots))
    covered = [{id(x) for rt in roots for x in ast.walk(rt)} for _n, roots in parts]
    n_ret = 0
    for i, (n, roots) in enumerate(parts):
        if any(id(n) in cov for j, cov in enumerate(covered) if j != i):
            continue  # part of an enclosing trace-only block
        inner = covered[i]
        ids = [x.id for x in g.nodes if (x.ast is not None and id(x.ast) in inner) or (x.part is not None and id(x.part) in inner)]
        if not ids and isinstance(n, ast.IfExp):
            st = stmt_of(n)
            ids = [x.id for x in g.nodes if x.ast is st]
        returning = not ids or g.ret_exit in g.reach(ids)
        what = "block" if isinstance(n, ast.If) else "conditional-expression arm"
        if not returning:
            R.note(f"C10-D1-trace-only-work-contained: trace-only {what} at line {n.lineno} of execute() lies on a path that ends in a re-raise (the run raises in both modes) - not examined here, see DESIGN 9.2 R9")
            continue
        n_ret += 1
        bad = scan(omod, ex, roots, 0)
        if bad:
            told: Set[int] = set()
            for rel, qn, c, w in bad:
                if id(c) in told or len(told) >= 4:
                    continue
                told.add(id(c))
                where = "" if (rel, qn) == (ORCH, EXECUTE) else f" (in {qn}, reached from the trace-only {what} at line {n.lineno} of execute())"
                why = f"{w}{where} - this work is done only when a trace driver is attached, on a path where the untraced run goes on to return: a failure in it (keys that do not sort, a value whose `__eq__` / `__repr__` raises, a provider that raises) makes the traced run raise where the untraced run returns"
                R.check(False, r, rel, qn, norm(stmt_of(c))[:90], why, c.lineno)
        else:
            R.ok(r, ORCH, EXECUTE, f"trace-only {what} at line {n.lineno} (`{norm(n.test)[:40]}`): work held as data / open trace-package work: none")
    if n_ret < 3:
        raise AnalysisError(f"execute(): only {n_ret} trace-only parts on a returning path were recognised")


# ---------------------------------------------------------------------------------------------------------
# Round 7 (seed7 C10 a/b/c, fix 42d5a53): the values the sanitisers let through as given - who carries them into the
# record, what a driver may do to them before the encoder call, and which own failures trace-only code may have
# ---------------------------------------------------------------------------------------------------------
_REBUILD_CALLS = {"asdict": "dataclasses.asdict rebuilds every mapping / sequence inside through its own class (`type(obj)(pairs)`)",
                  "astuple": "dataclasses.astuple rebuilds every mapping / sequence inside through its own class",
                  "deepcopy": "copy.deepcopy runs the `__deepcopy__` / `__reduce_ex__` hooks of every value inside and rebuilds it through its class"}
_NOT_A_VALUE = {"fields", "is_dataclass", "isinstance", "len", "type", "id", "hasattr", "callable", "bool", "str", "repr", "int", "float"}


def _arms(e: Optional[ast.AST]) -> List[ast.AST]:
    if isinstance(e, ast.IfExp):
        return _arms(e.body) + _arms(e.orelse)
    if isinstance(e, ast.BoolOp):
        return [a for v in e.values for a in _arms(v)]
    return [] if e is None else [e]


def _passthrough_sanitisers(repo: Repo) -> Dict[int, Tuple[str, str, ast.AST]]:
    """Functions of the package that play the role of `serialize_json_safe`: they probe a parameter with the JSON encoder
    and hand the parameter itself back when the probe succeeds (something else - text - otherwise).  What they return
    is the caller's own object, of the caller's own class: found by that shape, wherever they live and whatever they
    are called."""
    out: Dict[int, Tuple[str, str, ast.AST]] = {}
    for m, qn, f in repo.all_functions():
        if not isinstance(f, ast.FunctionDef) or any(isinstance(a, FuncNode) for a in ancestors(f)):
            continue
        params = {a.arg for a in f.args.posonlyargs + f.args.args + f.args.kwonlyargs} - {"self", "cls"}
        rets = [n for n in walk_no_nested(f) if isinstance(n, ast.Return) and n.value is not None]
        back = {a.id for n in rets for a in _arms(n.value) if isinstance(a, ast.Name) and a.id in params}
        if not back or not any(not (isinstance(a, ast.Name) and a.id in back) for n in rets for a in _arms(n.value)):
            continue

        def probes(fn: ast.AST, names: Set[str]) -> bool:
            return any(call_attr(c) in ("dumps", "dump") and c.args and isinstance(c.args[0], ast.Name) and c.args[0].id in names for c in calls_in(fn))

        ok = probes(f, back)
        if not ok:
            for c in calls_in(f):
                for m2, t in repo.resolve_call(m, c):
                    b = _bind_call(t, c) if isinstance(t, ast.FunctionDef) else None
                    if b and probes(t, {p for p, a in b.items() if isinstance(a, ast.Name) and a.id in back}):
                        ok = True
        if ok:
            out[id(f)] = (m.rel, qn, f)
    return out


_BIND_CACHE: Dict[int, Tuple[ast.AST, Dict[str, List[ast.AST]]]] = {}


def _bindings_of(fn: ast.AST, name: str) -> List[ast.AST]:
    """Every expression whose value (or a part of it) the local *name* of *fn* can hold: right-hand sides of the
    assignments that bind it (tuple targets included) and what is stored into / added to it."""
    hit = _BIND_CACHE.get(id(fn))
    if hit is None or hit[0] is not fn:
        idx: Dict[str, List[ast.AST]] = {}
        for n in walk_no_nested(fn):
            if isinstance(n, (ast.Assign, ast.AnnAssign, ast.AugAssign)) and getattr(n, "value", None) is not None:
                for t in (n.targets if isinstance(n, ast.Assign) else [n.target]):
                    if isinstance(t, ast.Subscript) and isinstance(t.value, ast.Name):
                        idx.setdefault(t.value.id, []).append(n.value)
                    else:
                        for x in ast.walk(t):
                            if isinstance(x, ast.Name) and isinstance(x.ctx, ast.Store):
                                idx.setdefault(x.id, []).append(n.value)
            elif isinstance(n, ast.NamedExpr):
                idx.setdefault(n.target.id, []).append(n.value)
            elif isinstance(n, ast.Call) and isinstance(n.func, ast.Attribute) and isinstance(n.func.value, ast.Name) and n.func.attr in GROWERS:
                idx.setdefault(n.func.value.id, []).extend(list(n.args) + [k.value for k in n.keywords])
        hit = _BIND_CACHE[id(fn)] = (fn, idx)
    return hit[1].get(name, [])


_KEEPS_ARGS = {"dict", "list", "tuple", "sorted", "set", "frozenset", "reversed", "copy", "deepcopy", "asdict", "astuple", "cast", "OrderedDict", "MappingProxyType", "chain", "vars", "enumerate", "zip", "iter", "next", "getattr", "replace"}
_KEEPS_RECEIVER = {"get", "copy", "items", "values", "pop", "setdefault", "popitem", "union", "__getitem__"}


def _value_parts(e: ast.AST) -> List[ast.AST]:
    """The sub-expressions whose value can be (a part of) the value of *e*: operands of displays, conditional
    expressions, unions, subscripts / attribute reads, the copying builtins and the reading methods of containers.  A call
    of anything else yields a value of its own."""
    if isinstance(e, (ast.Constant, ast.JoinedStr, ast.Compare)):
        return []
    if isinstance(e, ast.Call):
        d = (call_name(e) or "").split(".")[-1]
        if isinstance(e.func, ast.Attribute) and e.func.attr in _KEEPS_RECEIVER:
            return [e.func.value] + list(e.args[1:])
        if d in _KEEPS_ARGS:
            return list(e.args) + [k.value for k in e.keywords]
        return []
    if isinstance(e, (ast.Attribute, ast.Subscript, ast.Starred, ast.Await, ast.NamedExpr)):
        return [e.value]
    if isinstance(e, ast.Lambda):
        return [e.body]
    if isinstance(e, ast.DictComp):
        return [e.value] + [g.iter for g in e.generators]
    if isinstance(e, (ast.ListComp, ast.SetComp, ast.GeneratorExp)):
        return [e.elt] + [g.iter for g in e.generators]
    if isinstance(e, ast.Dict):
        return list(e.values)
    return [ch for ch in ast.iter_child_nodes(e) if isinstance(ch, ast.expr)]


class _CallerValues:
    """Which expressions carry a value that a pass-through sanitiser handed back as given (the caller's own object):
    the result of such a sanitiser, of a repository function on the trace path that applies one, or a local / container
    filled from those."""

    def __init__(self, repo: Repo, sans: Dict[int, Tuple[str, str, ast.AST]]):
        self.repo, self.sans = repo, sans
        self.fn_cache: Dict[int, Optional[ast.AST]] = {}

    def targets(self, mod, fn: ast.AST, c: ast.Call) -> List[Tuple[object, ast.AST]]:
        tg = [(m, t) for m, t in self.repo.resolve_call(mod, c) if isinstance(t, FuncNode)]
        if not tg:
            try:
                tg = [(m, t) for m, t in _method_of_local_instance(self.repo, mod, c) if isinstance(t, FuncNode)]
            except Exception:
                tg = []
        return tg

    def fn_carries(self, m, f: ast.AST, depth: int = 0) -> Optional[ast.AST]:
        if id(f) in self.sans:
            return f
        if id(f) in self.fn_cache:
            return self.fn_cache[id(f)]
        self.fn_cache[id(f)] = None
        for c in calls_in(f, include_nested=True):
            for m2, t in self.targets(m, f, c):
                if id(t) in self.sans or (depth < 3 and t is not f and (m2.rel == ORCH or _trace_package(m2.rel)) and self.fn_carries(m2, t, depth + 1) is not None):
                    self.fn_cache[id(f)] = c
                    return c
        return None

    def _ret_deps(self, t: ast.AST) -> Set[str]:
        """Parameters of the repository function *t* that its result can be or contain."""
        key = ("ret", id(t))
        if key not in self.fn_cache:
            params = {a.arg for a in t.args.posonlyargs + t.args.args + t.args.kwonlyargs}
            out: Set[str] = set()
            seen: Set[str] = set()
            todo = [n.value for n in walk_no_nested(t) if isinstance(n, ast.Return) and n.value is not None]
            while todo:
                x = todo.pop()
                if isinstance(x, ast.Name):
                    if x.id in seen:
                        continue
                    seen.add(x.id)
                    if x.id in params:
                        out.add(x.id)
                    todo.extend(_bindings_of(t, x.id))
                else:
                    todo.extend(_value_parts(x))
            self.fn_cache[key] = out  # type: ignore[assignment,index]
        return self.fn_cache[key]  # type: ignore[return-value,index]

    def expr_carries(self, mod, fn: ast.AST, e: Optional[ast.AST], depth: int = 0, seen: Optional[Set[str]] = None) -> Optional[ast.AST]:
        """A witness (the call that produces the caller's value) when *e*, evaluated in *fn*, can carry one.  A call of
        a repository function carries what the function produces, and those of its arguments that its result is computed
        from; any other call (builtin, method of a local) what its receiver and arguments carry."""
        if e is None or depth > 8 or isinstance(e, (ast.Constant, ast.JoinedStr, ast.Compare)):
            return None
        seen = set() if seen is None else seen
        subs: List[ast.AST] = []
        if isinstance(e, ast.Call):
            tg = self.targets(mod, fn, e)
            if tg:
                for m2, t in tg:
                    if self.fn_carries(m2, t) is not None:
                        return e
                    b = _bind_call(t, e)
                    if b is None:
                        subs.extend(list(e.args) + [k.value for k in e.keywords])
                    else:
                        subs.extend(b[p] for p in sorted(self._ret_deps(t)) if p in b)
            else:
                vals = _stored_callable(fn, e) if isinstance(e.func, ast.Attribute) and isinstance(fn, FuncNode) else None
                if vals:
                    subs.extend(v.body if isinstance(v, ast.Lambda) else v for v in vals)
                else:
                    subs.extend(_value_parts(e))
        elif isinstance(e, ast.Name):
            if isinstance(e.ctx, ast.Load) and e.id not in seen and isinstance(fn, FuncNode):
                seen.add(e.id)
                subs.extend(_bindings_of(fn, e.id))
        else:
            subs.extend(_value_parts(e))
        for sub in subs:
            w = self.expr_carries(mod, fn, sub, depth + 1, seen)
            if w is not None:
                return w
        return None


def _param_deps(fn: ast.AST, e: ast.AST, seen: Optional[Set[str]] = None) -> Set[str]:
    """Parameters of *fn* the value of *e* is computed from (through its locals)."""
    seen = set() if seen is None else seen
    params = {a.arg for a in fn.args.posonlyargs + fn.args.args + fn.args.kwonlyargs}
    out: Set[str] = set()
    for x in ast.walk(e):
        if isinstance(x, ast.Name) and isinstance(x.ctx, ast.Load) and x.id not in seen:
            seen.add(x.id)
            if x.id in params:
                out.add(x.id)
            for v in _bindings_of(fn, x.id):
                out |= _param_deps(fn, v, seen)
    return out


def _record_fields(repo: Repo, ex: ast.AST, drivers: Set[str], cv: _CallerValues) -> Optional[Dict[str, Optional[ast.AST]]]:
    """field of the step record -> witness that it carries a caller's value as given (None: it does not), decided on
    the function execute() hands to on_node_event (found by that role) and on the arguments execute() binds; None when
    the record is not assembled by a constructor call / mapping display with named fields."""
    omod = repo.module(ORCH)
    fields: Dict[str, Optional[ast.AST]] = {}
    found = False
    for c in calls_in(ex):
        if not _orch.is_driver_call(c, drivers, "on_node_event"):
            continue
        for a in list(c.args) + [k.value for k in c.keywords]:
            for site in _value_forms(ex, a):
                if not isinstance(site, ast.Call):
                    continue
                for m, f in repo.resolve_call(omod, site):
                    if not isinstance(f, FuncNode) or f.name == "__init__":
                        continue
                    nf = nfunc(repo, m.rel, qualname_of(f))
                    b = _bind_call(f, site)
                    for _fn, _ret, form in _returned_forms(repo, m, nf):
                        items: List[Tuple[str, ast.AST]] = []
                        if isinstance(form, ast.Call) and form.keywords and not form.args and all(k.arg is not None for k in form.keywords):
                            items = [(k.arg, k.value) for k in form.keywords]
                        elif isinstance(form, ast.Dict) and form.keys and all(isinstance(k, ast.Constant) and isinstance(k.value, str) for k in form.keys):
                            items = [(k.value, v) for k, v in zip(form.keys, form.values)]
                        if not items or b is None:
                            return None
                        found = True
                        for name, v in items:
                            w = cv.expr_carries(m, nf, v)
                            if w is None:
                                for p in sorted(_param_deps(nf, v)):
                                    if p in b:
                                        w = w or cv.expr_carries(omod, ex, b[p])
                            fields[name] = fields.get(name) or w
    return fields if found else None


def _model_dataclass_fields(repo: Repo, mod, ann: Optional[ast.AST]) -> Optional[Tuple[ast.ClassDef, Dict[str, bool]]]:
    """(class, field -> declared as a dataclass of the package) for a parameter annotated with a dataclass of the package."""
    if ann is None:
        return None
    for x in ast.walk(ann):
        if isinstance(x, (ast.Name, ast.Attribute)):
            r = repo.resolve_name(mod, x, x)
            if r is not None and isinstance(r[1], ast.ClassDef) and _is_dataclass_def(r[1]):
                m2, cls = r
                out: Dict[str, bool] = {}
                for st in cls.body:
                    if isinstance(st, ast.AnnAssign) and isinstance(st.target, ast.Name):
                        sub = False
                        for y in ast.walk(st.annotation):
                            if isinstance(y, (ast.Name, ast.Attribute)):
                                r2 = repo.resolve_name(m2, y, y)
                                sub = sub or (r2 is not None and isinstance(r2[1], ast.ClassDef) and _is_dataclass_def(r2[1]))
                        out[st.target.id] = sub
                return cls, out
    return None


def _is_dataclass_def(cls: ast.ClassDef) -> bool:
    return any((dotted_name(d.func if isinstance(d, ast.Call) else d) or "").split(".")[-1] == "dataclass" for d in cls.decorator_list)


WHOLE = "<the whole record>"


def _sinks_keep_values_as_given(repo: Repo, R: Report, ex: ast.AST, drivers: Set[str]) -> None:
    r = R.rule("C10-D1-sinks-keep-sanitised-values-as-given", "between the sanitiser and the encoder call a trace driver does not rebuild the values it was handed through their own class: no `dataclasses.asdict` / `astuple`, `copy.deepcopy` or `type(v)(..)` / `v.__class__(..)` applied to a record - or to a part of it - that carries a value which `serialize_json_safe` (any function playing that role) let through as given. Such a value is the caller's own object (a `collections.Counter` node parameter, a dict subclass from the context); it was probed with the encoder, its rebuilt copy was not (Counter(pairs) has tuple keys) and running its class's constructor / copy hooks is user code: the traced run raises where the untraced run returns. Converting the record's own dataclasses field by field, or a part that holds only values the framework computed, is fine", 3)
    _BIND_CACHE.clear()
    sans = _passthrough_sanitisers(repo)
    if not sans:
        raise AnalysisError("no pass-through sanitiser (probe with json.dumps, return the argument) found in the package")
    cv = _CallerValues(repo, sans)
    rec_fields = _record_fields(repo, ex, drivers, cv)
    if rec_fields is not None and not any(rec_fields.values()):
        raise AnalysisError("no field of the step record carries a sanitised caller value (parameters of the node): anchor vanished")
    R.note("C10-D1-sinks-keep-sanitised-values-as-given: record fields carrying caller values as given: " + (", ".join(sorted(k for k, v in rec_fields.items() if v is not None)) if rec_fields is not None else "<record shape not recognised: every part is taken to carry them>"))
    ex_sites: Dict[str, List[ast.Call]] = {}
    for c in calls_in(ex):
        if _orch.is_driver_call(c, drivers):
            ex_sites.setdefault(c.func.attr, []).append(c)
    omod = repo.module(ORCH)
    n_cb = 0
    for rel in sorted(m for m in repo.modules if m.startswith("semantiva/trace/drivers/")):
        mod = repo.module(rel)
        for cls in [c for c in mod.tree.body if isinstance(c, ast.ClassDef)]:
            meths = {st.name: st for st in cls.body if isinstance(st, FuncNode)}
            for root in sorted(m for m in meths if m in _orch.DRIVER_METHODS):
                f0 = meths[root]
                params = [a for a in f0.args.posonlyargs + f0.args.args + f0.args.kwonlyargs if a.arg not in ("self", "cls")]
                if not params:
                    continue
                n_cb += 1
                # what each parameter is: a record of the model (fields known), or another handed value
                env0: Dict[str, Set[str]] = {}
                declared: Dict[str, bool] = {}
                other: Dict[str, Optional[ast.AST]] = {}
                for a in params:
                    ann = (ast.unparse(a.annotation) if a.annotation is not None else "").replace(" ", "")
                    if ann in ("str", "int", "float", "bool", "str|None", "int|None", "float|None", "bool|None", "Optional[str]", "Optional[int]", "Optional[float]", "Optional[bool]"):
                        continue
                    dc = _model_dataclass_fields(repo, mod, a.annotation)
                    if dc is not None or (root == "on_node_event" and a is params[0]):
                        env0[a.arg] = {WHOLE}
                        if dc is not None:
                            declared.update(dc[1])
                    else:
                        env0[a.arg] = {f"<parameter {a.arg}>"}
                        w: Optional[ast.AST] = None
                        known = bool(ex_sites.get(root))
                        for site in ex_sites.get(root, []):
                            b = _bind_call(f0, site)
                            if b is None or a.arg not in b:
                                known = known and b is not None
                                continue
                            w = w or cv.expr_carries(omod, ex, b[a.arg])
                            if w is None and any("run_metadata" in norm(v) for v in [b[a.arg]] + [v for nm in sorted(names_loaded_expr(b[a.arg])) for v in _bindings_of(ex, nm)]):
                                w = b[a.arg]  # taken from the caller's run metadata
                        other[f"<parameter {a.arg}>"] = w if (w is not None or known) else a
                _rebuilds_in(repo, R, r, rel, mod, cls, meths, root, env0, declared, rec_fields, other, set(), 0)
    if n_cb == 0:
        raise AnalysisError("no trace driver callback that is handed a value found under semantiva/trace/drivers/")


def names_loaded_expr(e: ast.AST) -> Set[str]:
    return {x.id for x in ast.walk(e) if isinstance(x, ast.Name) and isinstance(x.ctx, ast.Load)}


def _rebuilds_in(repo: Repo, R: Report, r, rel: str, mod, cls: ast.ClassDef, meths, name: str, env0: Dict[str, Set[str]], declared: Dict[str, bool], rec_fields, other, seen: Set[Tuple[str, Tuple]], depth: int) -> None:
    key = (name, tuple(sorted((k, tuple(sorted(v))) for k, v in env0.items())))
    if key in seen or depth > 4 or name not in meths:
        return
    seen.add(key)
    f = meths[name]
    qn = f"{cls.name}.{name}"
    field_names = set(rec_fields or {}) | set(declared)
    env: Dict[str, Set[str]] = {k: set(v) for k, v in env0.items()}

    def origin(e: Optional[ast.AST]) -> Set[str]:
        """The parts of the handed values *e* can hold (empty: none of them)."""
        if e is None or isinstance(e, (ast.Constant, ast.JoinedStr, ast.Compare, ast.Lambda)):
            return set()
        if isinstance(e, ast.Name):
            return set(env.get(e.id, ()))
        if isinstance(e, ast.Attribute):
            o = origin(e.value)
            return {e.attr} if WHOLE in o and e.attr in field_names else o
        if isinstance(e, ast.Subscript):
            o = origin(e.value)
            if WHOLE in o and isinstance(e.slice, ast.Constant) and e.slice.value in field_names:
                return {e.slice.value}
            return o
        if isinstance(e, ast.Call):
            d = (call_name(e) or "").split(".")[-1]
            if isinstance(e.func, ast.Name) and d in _NOT_A_VALUE:
                return set()
            if d == "getattr" and len(e.args) >= 2:
                o = origin(e.args[0])
                if WHOLE in o and isinstance(e.args[1], ast.Constant) and e.args[1].value in field_names:
                    return {e.args[1].value}
                return o | (origin(e.args[2]) if len(e.args) > 2 else set())
            if isinstance(e.func, ast.Attribute):
                o = origin(e.func.value)
                if o:
                    if e.func.attr in ("get", "pop") and e.args and isinstance(e.args[0], ast.Constant) and WHOLE in o and e.args[0].value in field_names:
                        return {e.args[0].value} | set().union(*[origin(a) for a in e.args[1:]], set())
                    return o | set().union(*[origin(a) for a in e.args], set())
            return set().union(*[origin(a) for a in list(e.args) + [k.value for k in e.keywords]], set())
        if isinstance(e, ast.IfExp):
            return origin(e.body) | origin(e.orelse)
        if isinstance(e, (ast.DictComp,)):
            return origin(e.key) | origin(e.value)
        if isinstance(e, (ast.ListComp, ast.SetComp, ast.GeneratorExp)):
            return origin(e.elt)
        out: Set[str] = set()
        for ch in ast.iter_child_nodes(e):
            if isinstance(ch, ast.expr):
                out |= origin(ch)
        return out

    changed, rounds = True, 0
    while changed and rounds < 12:
        changed, rounds = False, rounds + 1
        for n in ast.walk(f):
            binds: List[Tuple[ast.AST, Set[str]]] = []
            if isinstance(n, ast.Assign):
                binds = [(t, origin(n.value)) for t in n.targets]
            elif isinstance(n, (ast.AnnAssign, ast.AugAssign)) and n.value is not None:
                binds = [(n.target, origin(n.value))]
            elif isinstance(n, ast.NamedExpr):
                binds = [(n.target, origin(n.value))]
            elif isinstance(n, (ast.For, ast.comprehension)):
                binds = [(n.target, origin(n.iter))]
            elif isinstance(n, ast.Call) and isinstance(n.func, ast.Attribute) and isinstance(n.func.value, ast.Name) and n.func.attr in GROWERS:
                binds = [(n.func.value, set().union(*[origin(a) for a in list(n.args) + [k.value for k in n.keywords]], set()))]
            for t, o in binds:
                if not o:
                    continue
                tgt = t
                while isinstance(tgt, (ast.Subscript, ast.Attribute)):
                    tgt = tgt.value
                for x in ([tgt] if isinstance(tgt, ast.Name) else [y for y in ast.walk(tgt) if isinstance(y, ast.Name)]):
                    if x.id in ("self", "cls"):
                        continue
                    if not o <= env.get(x.id, set()):
                        env.setdefault(x.id, set()).update(o)
                        changed = True

    def narrowed(c: ast.Call, arg: ast.AST, parts: Set[str]) -> Set[str]:
        """Under a test that the value is a dataclass instance only the record's own dataclass fields remain."""
        if WHOLE not in parts or not declared:
            return parts
        child: ast.AST = c
        for a in ancestors(c):
            if isinstance(a, FuncNode + (ast.Lambda,)):
                break
            tests: List[ast.AST] = []
            if isinstance(a, ast.If) and any(child is s for s in a.body):
                tests = [a.test]
            elif isinstance(a, ast.IfExp) and child is a.body:
                tests = [a.test]
            elif isinstance(a, (ast.DictComp, ast.ListComp, ast.SetComp, ast.GeneratorExp)):
                tests = [i for g in a.generators for i in g.ifs]
            for t in tests:
                for op in ([t] if not (isinstance(t, ast.BoolOp) and isinstance(t.op, ast.And)) else t.values):
                    if isinstance(op, ast.Call) and (call_name(op) or "").split(".")[-1] == "is_dataclass" and op.args and norm(op.args[0]) == norm(arg):
                        return (parts - {WHOLE}) | {k for k, sub in declared.items() if sub}
            child = a
        return parts

    def carried(parts: Set[str]) -> Optional[Tuple[str, Optional[ast.AST]]]:
        for p in sorted(parts):
            if p == WHOLE:
                if rec_fields is None:
                    return p, None
                for k in sorted(rec_fields):
                    if rec_fields[k] is not None:
                        return f"the whole record, whose field `{k}`", rec_fields[k]
            elif p in other:
                if other[p] is not None:
                    return p, other[p]
            elif rec_fields is None or rec_fields.get(p) is not None:
                return f"the record field `{p}`, which", (rec_fields or {}).get(p)
        return None

    n_here = 0
    for c in sorted([x for x in ast.walk(f) if isinstance(x, ast.Call)], key=lambda x: (x.lineno, x.col_offset)):
        d = (call_name(c) or "").split(".")[-1]
        how = ""
        args: List[ast.AST] = []
        if d in _REBUILD_CALLS and (isinstance(c.func, ast.Name) or (dotted_name(c.func) or "").split(".")[0] in ("dataclasses", "copy")) and (c.args or c.keywords):
            how, args = _REBUILD_CALLS[d], (list(c.args[:1]) or [c.keywords[0].value])
        elif isinstance(c.func, ast.Call) and call_name(c.func) == "type" and len(c.func.args) == 1:
            how, args = "`type(v)(..)` runs the constructor of the value's own class", [c.func.args[0]] + list(c.args)
        elif isinstance(c.func, ast.Attribute) and c.func.attr == "__class__":
            how, args = "`v.__class__(..)` runs the constructor of the value's own class", [c.func.value] + list(c.args)
        if how:
            parts: Set[str] = set()
            for a in args:
                parts |= narrowed(c, a, origin(a))
            if not parts:
                continue
            n_here += 1
            hit = carried(parts)
            why = ""
            if hit is not None:
                what, w = hit
                why = f"`{norm(c)[:60]}` is applied to {what} carries a value the sanitiser let through as given" + (f" (`{norm(w)[:60]}`)" if w is not None and not isinstance(w, ast.arg) else "") + f": {how}, so what reaches the encoder is not what was probed (a collections.Counter parameter comes back with tuple keys, json.dumps raises TypeError - also in the fallback) and the traced run fails where the untraced run succeeds; convert the record's own dataclasses field by field instead"
            R.check(hit is None, r, rel, qn, norm(stmt_of(c))[:90], why, c.lineno)
        elif isinstance(c.func, ast.Attribute) and isinstance(c.func.value, ast.Name) and c.func.value.id == "self" and c.func.attr in meths and c.func.attr != name:
            t = meths[c.func.attr]
            b = _bind_call(t, c)
            if b:
                sub = {p: origin(a) for p, a in b.items() if origin(a)}
                if sub:
                    _rebuilds_in(repo, R, r, rel, mod, cls, meths, c.func.attr, sub, declared, rec_fields, other, seen, depth + 1)
    if n_here == 0 and depth == 0:
        R.ok(r, rel, qn, f"{qn}: no class-rebuilding copy of what it is handed")


def _mappings_of_sanitised_values_agree(repo: Repo, R: Report) -> None:
    r = R.rule("C10-D1-mappings-of-caller-values-sanitised-throughout", "a mapping / list into which the orchestrator or the trace package stores values through a pass-through sanitiser (`serialize_json_safe`, found by its role) is a container of caller values - node parameters, declared defaults, context entries - that travels into the step record, which the driver encodes with json.dumps behind nothing but a fallback that dumps the same values again: every value stored into that container, on every branch, is sanitised too or JSON-safe by construction (constant, text, a conversion by str / repr / int / float / bool, a display of those). One raw store (a signature default that is a callable, a Path, an Enum, a numpy scalar) makes on_node_event raise inside the node's try - the traced run fails where the untraced run returns", 3)
    sans = _passthrough_sanitisers(repo)
    n = 0
    for m, qn, f in sorted(repo.all_functions(), key=lambda t: (t[0].rel, t[1])):
        if not (m.rel == ORCH or m.rel.startswith(UTILS.rsplit("/", 1)[0] + "/")) or not isinstance(f, FuncNode) or id(f) in sans or any(isinstance(a, FuncNode) for a in ancestors(f)):
            continue
        if not any(id(t) in sans for c in calls_in(f, include_nested=True) for _m, t in repo.resolve_call(m, c)):
            continue
        try:
            nf = nfunc(repo, m.rel, qn)
        except AnalysisError:
            raise
        except Exception:
            nf = f

        def is_san(v: Optional[ast.AST], depth: int = 0) -> bool:
            if isinstance(v, ast.Call):
                return any(id(t) in sans for _m, t in repo.resolve_call(m, v))
            if isinstance(v, ast.Name) and depth < 3:
                vals = _lookup(nf, v)
                return bool(vals) and all(is_san(x, depth + 1) for x in vals)
            return False

        def safe(v: ast.AST, depth: int = 0) -> bool:
            if is_san(v):
                return True
            if isinstance(v, (ast.Compare,)) or (isinstance(v, ast.UnaryOp) and isinstance(v.op, ast.Not)):
                return True
            if isinstance(v, ast.BoolOp):
                return all(safe(x, depth) for x in v.values)
            if isinstance(v, ast.IfExp):
                return safe(v.body, depth) and safe(v.orelse, depth)
            if isinstance(v, ast.Name) and depth < 4:
                vals = _lookup(nf, v)
                stores = [x for x in walk_no_nested(nf) if isinstance(x, ast.Name) and x.id == v.id and isinstance(x.ctx, ast.Store)]
                return bool(vals) and len(stores) <= len(vals) and all(safe(x, depth + 1) for x in vals)
            if isinstance(v, ast.Dict):
                return all(k is not None and safe(x, depth) for k, x in zip(v.keys, v.values))
            if isinstance(v, (ast.List, ast.Tuple)):
                return all(safe(x, depth) for x in v.elts)
            return _leaf_safe(nf, v)

        # (container name, value, statement) for every store of a value into a named local container
        stores: List[Tuple[str, ast.AST, ast.AST]] = []
        for x in walk_no_nested(nf):
            if isinstance(x, (ast.Assign, ast.AnnAssign, ast.AugAssign)) and getattr(x, "value", None) is not None:
                for t in (x.targets if isinstance(x, ast.Assign) else [x.target]):
                    if isinstance(t, ast.Subscript) and isinstance(t.value, ast.Name):
                        stores.append((t.value.id, x.value, x))
                    elif isinstance(t, ast.Name) and isinstance(x.value, ast.Dict):
                        stores.extend((t.id, v, x) for v in x.value.values)
                    elif isinstance(t, ast.Name) and isinstance(x.value, ast.DictComp):
                        stores.append((t.id, x.value.value, x))
                    elif isinstance(t, ast.Name) and isinstance(x.value, (ast.List, ast.Set)):
                        stores.extend((t.id, v, x) for v in x.value.elts)
                    elif isinstance(t, ast.Name) and isinstance(x.value, ast.ListComp):
                        stores.append((t.id, x.value.elt, x))
            elif isinstance(x, ast.Call) and isinstance(x.func, ast.Attribute) and isinstance(x.func.value, ast.Name):
                a = x.func.attr
                if a in ("append", "add", "appendleft") and len(x.args) == 1:
                    stores.append((x.func.value.id, x.args[0], x))
                elif a in ("setdefault", "insert") and len(x.args) == 2:
                    stores.append((x.func.value.id, x.args[1], x))
                elif a == "update":
                    for e in x.args:
                        if isinstance(e, ast.Dict):
                            stores.extend((x.func.value.id, v, x) for v in e.values)
                        elif isinstance(e, ast.DictComp):
                            stores.append((x.func.value.id, e.value, x))
                        else:
                            stores.append((x.func.value.id, e, x))
                    stores.extend((x.func.value.id, k.value, x) for k in x.keywords)
        holders = {nm for nm, v, _st in stores if is_san(v)}
        for nm, v, st in stores:
            if nm not in holders or isinstance(v, ast.Starred):
                continue
            n += 1
            ok = safe(v)
            R.check(ok, r, m.rel, qn, norm(stmt_of(st))[:90], (f"`{norm(v)[:50]}` is stored into `{nm}` as it is, while the other entries of `{nm}` go through the sanitiser: `{nm}` reaches the step record and the driver's json.dumps (whose only fallback dumps the same value again) - a value the encoder rejects makes the traced run raise where the untraced run returns" if not ok else ""), getattr(st, "lineno", f.lineno))
    if n == 0:
        raise AnalysisError("no container filled through a pass-through sanitiser found in the orchestrator / trace package (anchor vanished)")


_VARIABLE_LENGTH = {"split", "rsplit", "splitlines"}


def _trace_only_code_is_total(repo: Repo, R: Report, ex: ast.AST, facts: "_TraceFacts", helper_fns) -> None:
    r = R.rule("C10-D1-trace-only-code-is-total", "code that runs only when a trace is attached - every trace-only block / conditional-expression arm of execute(), those of the failure handlers included, and the orchestrator helpers called only from there - applies no partial operation of its own to a value derived from the run (payload, context, node, the exception being handled) outside a containing try or a test on that value: no first / last / n-th element of a sequence whose length the run decides (`str(exc).splitlines()[0]`, `exc.args[0]`, `text.split()[1]`), no `next(it)` without default, no `min` / `max` of a possibly empty sequence without default, no `.index(..)`, no division by a run-derived number. Such an operation fails for particular legal values (an exception without a message, an empty payload) with an IndexError / StopIteration / ValueError / ZeroDivisionError of the framework's own: on the success path the traced run raises where the untraced run returns, in a failure handler the traced run raises something else than the untraced run", 3)
    fold = facts.fold
    flags = {facts.param} | facts.pos | facts.nn | facts.neg

    def taint_of(fn: ast.AST, seeds: Set[str]) -> Set[str]:
        t = set(seeds)
        changed = True
        while changed:
            changed = False
            for n in ast.walk(fn):
                tg: List[ast.AST] = []
                src: Optional[ast.AST] = None
                if isinstance(n, ast.Assign):
                    tg, src = list(n.targets), n.value
                elif isinstance(n, (ast.AnnAssign, ast.AugAssign)) and n.value is not None:
                    tg, src = [n.target], n.value
                elif isinstance(n, ast.NamedExpr):
                    tg, src = [n.target], n.value
                elif isinstance(n, (ast.For, ast.comprehension)):
                    tg, src = [n.target], n.iter
                elif isinstance(n, ast.withitem) and n.optional_vars is not None:
                    tg, src = [n.optional_vars], n.context_expr
                if src is None or not any(isinstance(x, ast.Name) and x.id in t for x in ast.walk(src)):
                    continue
                for x in [y for one in tg for y in ast.walk(one)]:
                    if isinstance(x, ast.Name) and isinstance(x.ctx, ast.Store) and x.id not in t and x.id not in flags:
                        t.add(x.id)
                        changed = True
        return t

    def tainted(e: Optional[ast.AST], t: Set[str]) -> bool:
        return e is not None and any(isinstance(x, ast.Name) and x.id in t for x in ast.walk(e))

    def guarded(n: ast.AST, operand: ast.AST) -> bool:
        """Under a test that mentions the operand (its truth, its length, a membership): the code asked first."""
        txt = norm(operand, 400)
        child = n
        for a in ancestors(n):
            if isinstance(a, FuncNode + (ast.Lambda,)):
                return False
            tests: List[ast.AST] = []
            if isinstance(a, (ast.If, ast.While)) and not any(child is x for x in ast.walk(a.test)):
                tests = [a.test]
            elif isinstance(a, ast.IfExp) and child is not a.test:
                tests = [a.test]
            elif isinstance(a, ast.BoolOp) and child in a.values:
                tests = a.values[:a.values.index(child)]
            elif isinstance(a, (ast.DictComp, ast.ListComp, ast.SetComp, ast.GeneratorExp)):
                tests = [i for g_ in a.generators for i in g_.ifs]
            elif isinstance(a, ast.Assert):
                tests = []
            if any(txt in norm(t_, 600) for t_ in tests):
                return True
            child = a
        return False

    def int_index(s: ast.AST) -> Optional[int]:
        if isinstance(s, ast.Constant) and isinstance(s.value, int) and not isinstance(s.value, bool):
            return s.value
        if isinstance(s, ast.UnaryOp) and isinstance(s.op, ast.USub) and isinstance(s.operand, ast.Constant) and isinstance(s.operand.value, int):
            return -s.operand.value
        return None

    def partial_ops(roots: List[ast.AST], t: Set[str]) -> List[Tuple[ast.AST, str]]:
        out: List[Tuple[ast.AST, str]] = []
        todo = list(roots)
        while todo:
            n = todo.pop()
            if isinstance(n, FuncNode + (ast.Lambda,)) and n not in roots:
                continue
            todo.extend(ast.iter_child_nodes(n))
            what, operand = "", None
            if isinstance(n, ast.Subscript) and isinstance(n.ctx, ast.Load) and int_index(n.slice) is not None and tainted(n.value, t):
                v, i = n.value, int_index(n.slice)
                fixed = isinstance(v, (ast.Tuple, ast.List)) or (isinstance(v, ast.Call) and call_attr(v) in ("partition", "rpartition", "divmod", "splitext")) or \
                    (isinstance(v, ast.Call) and call_attr(v) in ("split", "rsplit") and v.args and i in (0, -1)) or \
                    (isinstance(v, ast.BoolOp) and isinstance(v.op, ast.Or) and i in (0, -1) and (
                        (isinstance(v.values[-1], (ast.List, ast.Tuple)) and v.values[-1].elts) or (isinstance(v.values[-1], ast.Constant) and isinstance(v.values[-1].value, (str, bytes)) and v.values[-1].value)))
                if not fixed:
                    what, operand = f"element {i} of a sequence whose length the run decides (IndexError when it is shorter - `splitlines()` of an empty text is `[]`)", v
            elif isinstance(n, ast.Call):
                d = call_name(n) or ""
                if d == "next" and len(n.args) == 1 and not n.keywords and tainted(n.args[0], t):
                    what, operand = "`next(..)` without a default (StopIteration on an exhausted iterator)", n.args[0]
                elif d in ("min", "max") and len(n.args) == 1 and not any(k.arg == "default" for k in n.keywords) and tainted(n.args[0], t):
                    what, operand = f"`{d}(..)` of a possibly empty sequence without a default (ValueError)", n.args[0]
                elif isinstance(n.func, ast.Attribute) and n.func.attr == "index" and n.args and tainted(n.func.value, t):
                    what, operand = "`.index(..)` of a run-derived sequence / text (ValueError when the item is absent)", n.func.value
            elif isinstance(n, ast.BinOp) and isinstance(n.op, (ast.Div, ast.FloorDiv, ast.Mod)) and tainted(n.right, t) and not isinstance(n.right, ast.Constant) and not isinstance(n.left, (ast.Constant, ast.JoinedStr)):
                what, operand = "division by a run-derived number (ZeroDivisionError)", n.right
            if what and not contained(n) and not guarded(n, operand):
                out.append((n, what))
        out.sort(key=lambda p: (getattr(p[0], "lineno", 0), getattr(p[0], "col_offset", 0)))
        return out

    handler_names = {h.name for h in ast.walk(ex) if isinstance(h, ast.ExceptHandler) and h.name}
    ex_params = {a.arg for a in ex.args.posonlyargs + ex.args.args + ex.args.kwonlyargs} - {"self", "cls"} - flags
    t_ex = taint_of(ex, (RUN_STATE | handler_names | ex_params) - flags)
    parts: List[Tuple[ast.AST, List[ast.AST]]] = []
    for n in ast.walk(ex):
        if isinstance(n, (ast.If, ast.IfExp)):
            v = fold(n.test)
            if v is None:
                continue
            part = n.body if v else n.orelse
            roots = part if isinstance(part, list) else [part]
            if roots:
                parts.append((n, roots))
    covered = [{id(x) for rt in roots for x in ast.walk(rt)} for _n, roots in parts]
    n_parts = 0
    for i, (n, roots) in enumerate(parts):
        if any(id(n) in cov for j, cov in enumerate(covered) if j != i):
            continue
        n_parts += 1
        in_handler = any(isinstance(a, ast.ExceptHandler) for a in ancestors(n))
        bad = partial_ops(roots, t_ex)
        for node, what in bad[:3]:
            R.check(False, r, ORCH, EXECUTE, norm(node)[:90], f"`{norm(node)[:60]}` takes {what}; it runs only with a trace driver attached" + (", inside the handler that records the node's failure and re-raises: for such a value the traced run raises this error (the node's exception only as its `__context__`) and loses the error record, the untraced run raises the node's exception" if in_handler else ": for such a value the traced run raises where the untraced run returns"), node.lineno)
        if not bad:
            R.ok(r, ORCH, EXECUTE, f"trace-only {'block' if isinstance(n, ast.If) else 'arm'} at line {n.lineno}: no uncontained partial operation on run-derived values")
    if n_parts < 3:
        raise AnalysisError(f"execute(): only {n_parts} trace-only parts recognised")
    for rel, qn, f in helper_fns:
        if rel != ORCH:
            continue
        seeds = {a.arg for a in f.args.posonlyargs + f.args.args + f.args.kwonlyargs if a.arg not in ("self", "cls") and not (_ann_names(a.annotation) and _ann_names(a.annotation) <= SCALAR_ANN)}
        bad = partial_ops(list(f.body), taint_of(f, seeds))
        for node, what in bad[:3]:
            R.check(False, r, rel, qn, norm(stmt_of(node))[:90], f"`{norm(node)[:60]}` takes {what}; {qn}() runs only with a trace driver attached: for such a value the traced run raises where the untraced run returns (or raises something else than the untraced run)", node.lineno)
        if not bad:
            R.ok(r, rel, qn, f"{qn}: no uncontained partial operation on run-derived values")


def _run_taint(fn: ast.AST, seeds: Set[str], skip: Set[str] = frozenset()) -> Set[str]:
    """Locals of *fn* computed from the seeds (assignments, loop / comprehension / with targets; flow-insensitive)."""
    t = set(seeds)
    changed = True
    while changed:
        changed = False
        for n in ast.walk(fn):
            tg: List[ast.AST] = []
            src: Optional[ast.AST] = None
            if isinstance(n, ast.Assign):
                tg, src = list(n.targets), n.value
            elif isinstance(n, (ast.AnnAssign, ast.AugAssign)) and n.value is not None:
                tg, src = [n.target], n.value
            elif isinstance(n, ast.NamedExpr):
                tg, src = [n.target], n.value
            elif isinstance(n, (ast.For, ast.comprehension)):
                tg, src = [n.target], n.iter
            if src is None or not any(isinstance(x, ast.Name) and x.id in t for x in ast.walk(src)):
                continue
            for x in [y for one in tg for y in ast.walk(one)]:
                if isinstance(x, ast.Name) and isinstance(x.ctx, ast.Store) and x.id not in t and x.id not in skip:
                    t.add(x.id)
                    changed = True
    return t


def _record_mapping_keys_ordered(repo: Repo, R: Report, ex: ast.AST, facts: "_TraceFacts") -> None:
    r = R.rule("C10-D1-run-keyed-mappings-ordered-by-their-producer", "the drivers encode the step record with `sort_keys=True`, which compares the keys of every mapping inside; values that went through the sanitiser were probed with the same option, but a mapping that a trace-package function builds itself with keys taken from the run (the keys of the context snapshots execute() hands it) and returns into the record was not: its producer - which runs in traced and untraced runs alike - fills it only while iterating over one `sorted(..)` of those keys (or stores them as text), so that a key set that cannot be ordered (0 next to 'total') fails in both modes, before the record exists, and not in the driver's json.dumps of the traced run only", 1)
    strict = False
    for rel in sorted(m for m in repo.modules if m.startswith("semantiva/trace/drivers/")):
        for _qn, f in [(q, n) for q, n in repo.module(rel).defs.items() if isinstance(n, FuncNode)]:
            for c in calls_in(f):
                if (call_name(c) or "").split(".")[-1] in ("dumps", "dump") and any(o == "sort_keys" for o, _e in _strict_options(c)):
                    strict = True
    if not strict:
        R.ok(r, ORCH, EXECUTE, "no driver encodes with sort_keys: mappings with keys of mixed types are accepted by every sink")
        return
    omod = repo.module(ORCH)
    flags = {facts.param} | facts.pos | facts.nn | facts.neg
    handler_names = {h.name for h in ast.walk(ex) if isinstance(h, ast.ExceptHandler) and h.name}
    t_ex = _run_taint(ex, (RUN_STATE | handler_names) - flags, flags)
    todo: List[Tuple[object, ast.AST, frozenset]] = []
    for c in [x for x in ast.walk(ex) if isinstance(x, ast.Call)]:
        tg = [(m, t) for m, t in repo.resolve_call(omod, c) if isinstance(t, FuncNode)]
        if not tg:
            tg = [(m, t) for m, t in _method_of_local_instance(repo, omod, c) if isinstance(t, FuncNode)]
        for m, t in tg:
            if not _trace_package(m.rel) or t.name == "__init__":
                continue
            b = _bind_call(t, c)
            if b is None:
                continue
            seeds = frozenset(p for p, a in b.items() if any(isinstance(x, ast.Name) and x.id in t_ex for x in ast.walk(a)))
            if seeds:
                todo.append((m, t, seeds))
    seen: Set[Tuple[int, frozenset]] = set()
    n = 0
    while todo:
        m, t, seeds = todo.pop()
        if (id(t), seeds) in seen:
            continue
        seen.add((id(t), seeds))
        qn = qualname_of(t)
        nf = nfunc(repo, m.rel, qn)
        T = _run_taint(nf, set(seeds))
        returned = {x.id for ret in walk_no_nested(nf) if isinstance(ret, ast.Return) and ret.value is not None for x in ast.walk(ret.value) if isinstance(x, ast.Name)}

        def ordered(it: ast.AST) -> bool:
            forms = _value_forms(nf, it)
            return bool(forms) and all(isinstance(f_, ast.Call) and isinstance(f_.func, ast.Name) and f_.func.id == "sorted" and f_.args for f_ in forms)

        sites: List[Tuple[ast.AST, ast.AST, str]] = []  # (loop / generator, iterable, mapping)
        for x in walk_no_nested(nf):
            if isinstance(x, ast.For):
                tnames = {y.id for y in ast.walk(x.target) if isinstance(y, ast.Name)}
                if not any(isinstance(y, ast.Name) and y.id in T for y in ast.walk(x.iter)):
                    continue
                for st in [y for b_ in x.body for y in ast.walk(b_)]:
                    if isinstance(st, (ast.Assign, ast.AnnAssign)):
                        for tg_ in (st.targets if isinstance(st, ast.Assign) else [st.target]):
                            if isinstance(tg_, ast.Subscript) and isinstance(tg_.value, ast.Name) and isinstance(tg_.slice, ast.Name) and tg_.slice.id in tnames and tg_.value.id in returned:
                                sites.append((x, x.iter, tg_.value.id))
            elif isinstance(x, ast.DictComp) and isinstance(x.key, ast.Name):
                g0 = next((g_ for g_ in x.generators if any(isinstance(y, ast.Name) and y.id == x.key.id for y in ast.walk(g_.target))), None)
                if g0 is None or not any(isinstance(y, ast.Name) and y.id in T for y in ast.walk(g0.iter)):
                    continue
                st = stmt_of(x)
                holder = ""
                if isinstance(st, ast.Return):
                    holder = "<returned mapping>"
                elif isinstance(st, (ast.Assign, ast.AnnAssign)):
                    names = [tg_.id for tg_ in (st.targets if isinstance(st, ast.Assign) else [st.target]) if isinstance(tg_, ast.Name)]
                    holder = next((nm for nm in names if nm in returned), "")
                if holder:
                    sites.append((x, g0.iter, holder))
        done_sites: Set[int] = set()
        for loop, it, holder in sites:
            if id(loop) in done_sites:
                continue
            done_sites.add(id(loop))
            n += 1
            ok = ordered(it)
            R.check(ok, r, m.rel, qn, norm(loop)[:90] if isinstance(loop, ast.DictComp) else f"for {norm(loop.target)} in {norm(loop.iter)[:70]}", (f"`{holder}` is returned into the step record with keys taken from the run, in the order of `{norm(it)[:50]}` - not one `sorted(..)` of all of them: keys that cannot be ordered among each other (an int bin next to a text key) now pass this function in both modes and fail in the driver's `json.dumps(.., sort_keys=True)` (and in its fallback) of the traced run only - the traced run raises where the untraced run returns" if not ok else ""), getattr(loop, "lineno", t.lineno))
    if n == 0:
        raise AnalysisError("no trace-package function called from execute() builds a mapping keyed by run-derived keys (context delta summaries): anchor vanished")


# ---------------------------------------------------------------------------------------------------------
# Round 8 (seed8 C10 a/b)
# ---------------------------------------------------------------------------------------------------------
_NONRAISING_ENCODE_ERRORS = {"backslashreplace", "replace", "ignore", "xmlcharrefreplace", "namereplace", "surrogatepass"}
_DUMPS = ("json.dumps", "dumps")
_MUTABLE_ANN = {"Dict", "dict", "List", "list", "Mapping", "MutableMapping", "Set", "set", "Sequence", "MutableSequence", "Any", "Iterable", "object", "OrderedDict", "defaultdict", "?"}
_COPY_CALLS = {"dict", "set", "list", "tuple", "sorted", "frozenset", "copy", "deepcopy", "OrderedDict", "cast", "MappingProxyType"}


def _dumps_behind(repo: Repo, mod, fn: ast.AST, e: ast.AST, depth: int = 0, seen: Optional[Set[int]] = None) -> List[Tuple[str, str, ast.Call]]:
    """The json.dumps calls whose text the expression *e* (evaluated in *fn*) can carry: written in place, bound to
    a local first, or made by a repository function that *e* calls (a line-format helper, wherever it lives)."""
    seen = set() if seen is None else seen
    out: List[Tuple[str, str, ast.Call]] = []
    for form in _value_forms(fn, e):
        todo = [form]
        while todo:
            x = todo.pop()
            if isinstance(x, ast.Call):
                d = call_name(x) or ""
                if d in _DUMPS and not (d == "dumps" and isinstance(x.func, ast.Attribute)):
                    out.append((mod.rel, qualname_of(fn), x))
                    continue  # what is encoded is not text that is written as it is
                if depth < 3:
                    for m, t in repo.resolve_call(mod, x):
                        if isinstance(t, FuncNode) and id(t) not in seen and t.name != "__init__":
                            seen.add(id(t))
                            for rv in [y.value for y in walk_no_nested(t) if isinstance(y, ast.Return) and y.value is not None]:
                                out.extend(_dumps_behind(repo, m, t, rv, depth + 1, seen))
                    if repo.resolve_call(mod, x):
                        continue
            elif isinstance(x, ast.Name) and isinstance(x.ctx, ast.Load) and x is not form and depth < 3:
                for v in _lookup(fn, x):
                    if id(v) not in seen:
                        seen.add(id(v))
                        out.extend(_dumps_behind(repo, mod, fn, v, depth + 1, seen))
            todo.extend(ast.iter_child_nodes(x))
    return out


def _written_text_always_encodable(repo: Repo, R: Report) -> None:
    r = R.rule("C10-D1-written-text-always-encodable", "the sanitisers let every `str` through (their probe builds the JSON text and never encodes it), so a trace driver hands its text file only text that the file's codec accepts whatever the strings are: the json.dumps behind each `.write(..)` of a driver keeps `ensure_ascii` (lone surrogates - `os.fsdecode` of a file name that is not UTF-8, in a parameter, a context value or an error message - leave the encoder as ASCII escapes), or every text file of the driver is opened with an error handler that cannot raise, or the write is inside a try that contains the UnicodeEncodeError. Otherwise the write raises out of a driver callback: the traced run raises where the untraced run returns", 1)
    rels = sorted(m for m in repo.modules if m.startswith("semantiva/trace/drivers/"))
    for rel in rels:
        mod = repo.module(rel)
        fns = [(q, n) for q, n in mod.defs.items() if isinstance(n, FuncNode)]
        opens = [c for _q, f in fns for c in calls_in(f) if call_attr(c) == "open"]
        lenient = bool(opens) and all(isinstance(kwarg(c, "errors"), ast.Constant) and kwarg(c, "errors").value in _NONRAISING_ENCODE_ERRORS for c in opens)
        for qn, f in fns:
            for w in calls_in(f):
                if not (isinstance(w.func, ast.Attribute) and w.func.attr in ("write", "writelines") and w.args):
                    continue
                for d_rel, d_qn, d in _dumps_behind(repo, mod, f, w.args[0]):
                    ea = kwarg(d, "ensure_ascii")
                    ascii_only = (ea is None and not any(k.arg is None for k in d.keywords)) or (isinstance(ea, ast.Constant) and ea.value is True)
                    ok = ascii_only or lenient or _caught_without_reraise(w, {"UnicodeEncodeError", "UnicodeError", "ValueError"})
                    R.check(ok, r, d_rel, d_qn, norm(d)[:90],
                            f"the text of `{norm(d)[:60]}` (ensure_ascii={ast.unparse(ea) if ea is not None else '**options'}) is handed to `{norm(w.func)}` in {qn}: raw non-ASCII text reaches a text file opened with a strict codec, and a string with a lone surrogate - which serialize_json_safe lets through - makes write() raise UnicodeEncodeError (a ValueError: the TypeError fallbacks do not apply) out of the driver callback; the traced run raises where the untraced run returns",
                            getattr(d, "lineno", w.lineno))


def _attrs_read_off(fn: ast.AST, var: str) -> Set[str]:
    """Attribute names read off the name *var* inside *fn*: `var.X`, `getattr(var, "X", ..)`, `type(var).X`."""
    out: Set[str] = set()
    for n in ast.walk(fn):
        if isinstance(n, ast.Attribute) and isinstance(n.ctx, ast.Load):
            b = n.value
            if isinstance(b, ast.Call) and call_attr(b) == "type" and len(b.args) == 1:
                b = b.args[0]
            if isinstance(b, ast.Attribute) and b.attr == "__class__":
                b = b.value
            if isinstance(b, ast.Name) and b.id == var:
                out.add(n.attr)
        elif isinstance(n, ast.Call) and call_attr(n) == "getattr" and not isinstance(n.func, ast.Attribute) and len(n.args) >= 2 and isinstance(n.args[0], ast.Name) and n.args[0].id == var and isinstance(n.args[1], ast.Constant) and isinstance(n.args[1].value, str):
            out.add(n.args[1].value)
    return out


def _all_attr_reads(fn: ast.AST) -> Set[str]:
    out = {n.attr for n in ast.walk(fn) if isinstance(n, ast.Attribute) and isinstance(n.ctx, ast.Load)}
    out |= {n.args[1].value for n in ast.walk(fn) if isinstance(n, ast.Call) and call_attr(n) == "getattr" and len(n.args) >= 2 and isinstance(n.args[1], ast.Constant) and isinstance(n.args[1].value, str)}
    return out


def _metadata_hooks(repo: Repo, trace_fns: List[ast.AST]) -> Set[str]:
    """Names of the per-class hooks behind the metadata the trace path asks a processor class for: the trace-path
    functions call `<class>.G()`; a classmethod G of the package calls `cls.H()` - H is what subclasses override."""
    asked = {c.func.attr for f in trace_fns for c in calls_in(f, include_nested=True) if isinstance(c.func, ast.Attribute) and not c.args and not c.keywords}
    hooks: Set[str] = set()
    for mod, _qn, c in repo.all_classes():
        for m in c.body:
            if isinstance(m, FuncNode) and m.name in asked and m.args.args and any((dotted_name(d) or "") == "classmethod" for d in m.decorator_list):
                me = m.args.args[0].arg
                hooks |= {x.func.attr for x in calls_in(m) if isinstance(x.func, ast.Attribute) and isinstance(x.func.value, ast.Name) and x.func.value.id == me and not x.args and not x.keywords}
    return hooks


def _published_class_state_is_snapshot(repo: Repo, R: Report, trace_fns: List[ast.AST]) -> None:
    from . import c12

    r = R.rule("C10-D2-published-class-state-is-a-snapshot", "the trace identity of a node (node / pipeline semantic id, config id, preprocessor metadata and provenance of every step record) is recomputed at every run from the metadata hook of the processor class; for a class generated by a factory function that hook reads class attributes the factory filled from its arguments. An attribute that only the published metadata reads - nothing the class executes - holds a private copy taken when the class was created, never the caller's own mutable object: the caller goes on using that object (editing the configuration to build the next variant of a parameter study), the pipeline keeps computing what it was built to compute, and its next trace would carry ids of something else - traces of equal runs would depend on what happened in between", 1)
    hooks = _metadata_hooks(repo, trace_fns)
    if not hooks:
        raise AnalysisError("the metadata hook the trace path reads processor metadata through was not recognised")
    n_cls = 0
    for mod, qn, c in repo.all_classes():
        if mod.rel.startswith("semantiva/examples/"):
            continue
        maker = next((a for a in ancestors(c) if isinstance(a, FuncNode)), None)
        provs = [m for m in c.body if isinstance(m, FuncNode) and m.name in hooks and m.args.args]
        if maker is None or not provs:
            continue
        n_cls += 1
        published: Set[str] = set()
        pub_fns: List[ast.AST] = []
        for pm in provs:
            me = pm.args.args[0].arg
            pub_fns.append(pm)
            published |= _attrs_read_off(pm, me)
            # closures of the factory the hook hands the class to
            for call in calls_in(pm):
                if isinstance(call.func, ast.Name):
                    tgt = next((x for a in ancestors(c) if isinstance(a, FuncNode) for x in ast.walk(a) if isinstance(x, FuncNode) and x is not a and x.name == call.func.id and not any(y is c for y in ancestors(x))), None)
                    tgts = [tgt] if tgt is not None else [t for _m, t in repo.resolve_call(mod, call) if isinstance(t, FuncNode)]
                    for tgt in tgts:
                        b = _bind_call(tgt, call)
                        for p, a in (b or {}).items():
                            if isinstance(a, ast.Name) and a.id == me:
                                pub_fns.append(tgt)
                                published |= _attrs_read_off(tgt, p)
        executed: Set[str] = set()
        for m in c.body:
            if isinstance(m, FuncNode) and not any(m is p for p in pub_fns):
                executed |= _all_attr_reads(m)
        mutable_params = {a.arg for a in maker.args.args + maker.args.kwonlyargs + maker.args.posonlyargs if a.annotation is None or (_ann_names(a.annotation) & _MUTABLE_ANN)}
        for st in c.body:
            if isinstance(st, ast.Assign) and len(st.targets) == 1 and isinstance(st.targets[0], ast.Name):
                tname, val = st.targets[0].id, st.value
            elif isinstance(st, ast.AnnAssign) and isinstance(st.target, ast.Name) and st.value is not None:
                tname, val = st.target.id, st.value
            else:
                continue
            if tname not in published or tname in executed:
                continue
            roots = c12._param_roots(maker, val) & mutable_params
            if not roots:
                R.ok(r, mod.rel, qn, norm(st))
                continue
            ok, why = c12._is_fresh(maker, val)
            R.check(ok, r, mod.rel, qn, norm(st),
                    f"class attribute `{tname}` is read only by the metadata the trace identity is recomputed from at every run (not by anything the class executes) and is {why}: after the caller edits or re-uses that object the same pipeline computes the same result but its trace carries different semantic / config ids and provenance - the trace depends on what happened between two runs",
                    st.lineno)
    if n_cls == 0:
        raise AnalysisError("no factory-generated processor class overriding the metadata hook was found")


# ---------------------------------------------------------------------------------------------------------
# Round 8 (seed8 C10 c): the text of a framework object is a stable value only when its class says nothing volatile
# ---------------------------------------------------------------------------------------------------------
_TEXT_HOOKS = ("__str__", "__repr__", "__format__")


class _VolatileText:
    """Which classes of the package describe themselves (`__str__` / `__repr__` / `__format__`) with something that
    differs between two equal runs: a clock reading, an identity, or instance state that a method accumulates
    (`self.n += 1`, `self.elapsed += now - start`) - directly, through their own methods, or through the text of an
    attribute that holds an instance of such a class.  Classes are found by what they do, not by their names."""

    def __init__(self, repo: Repo):
        self.repo = repo
        self.classes: List[Tuple[object, ast.ClassDef]] = [(m, c) for m, _q, c in repo.all_classes()]
        self.by_id = {id(c): (m, c) for m, c in self.classes}
        self._vol_attrs: Dict[int, Dict[str, ast.AST]] = {}
        self._vol_meths: Dict[int, Dict[str, ast.AST]] = {}
        self.text: Dict[int, Tuple[str, ast.AST, str]] = {}  # class id -> (hook, witness node, why)
        self._solve()

    def family_methods(self, mod, cls: ast.ClassDef) -> Dict[str, ast.AST]:
        out: Dict[str, ast.AST] = {}
        for _m, c in self.repo.mro(mod, cls):
            for st in c.body:
                if isinstance(st, FuncNode):
                    out.setdefault(st.name, st)
        return out

    def attr_classes(self, mod, cls: ast.ClassDef, attr: str) -> List[Tuple[object, ast.ClassDef]]:
        """Repo classes an instance attribute can hold: declared in a class body, or bound to a constructor call."""
        out: List[Tuple[object, ast.ClassDef]] = []
        for m, c in self.repo.mro(mod, cls):
            for st in c.body:
                if isinstance(st, ast.AnnAssign) and isinstance(st.target, ast.Name) and st.target.id == attr:
                    for x in ast.walk(st.annotation):
                        if isinstance(x, (ast.Name, ast.Attribute)):
                            hit = self.repo.resolve_name(m, x, st)
                            if hit and isinstance(hit[1], ast.ClassDef):
                                out.append(hit)
                if isinstance(st, FuncNode):
                    for n in ast.walk(st):
                        if isinstance(n, (ast.Assign, ast.AnnAssign)) and isinstance(getattr(n, "value", None), ast.Call):
                            tg = n.targets if isinstance(n, ast.Assign) else [n.target]
                            if any(_self_attr(t) == attr for t in tg):
                                hit = self.repo.resolve_name(m, n.value.func, n)
                                if hit and isinstance(hit[1], ast.ClassDef):
                                    out.append(hit)
        return out

    def _solve(self) -> None:
        # 1. volatile instance state and the methods that hand it out
        for mod, cls in self.classes:
            meths = self.family_methods(mod, cls)
            vattrs: Dict[str, ast.AST] = {}
            for f in meths.values():
                for n in ast.walk(f):
                    if isinstance(n, ast.AugAssign) and _self_attr(n.target) is not None:
                        vattrs.setdefault(n.target.attr, n)
                    elif isinstance(n, (ast.Assign, ast.AnnAssign)) and getattr(n, "value", None) is not None:
                        if any(isinstance(c, ast.Call) and _source_kind(c) in ("clock", "identity") for c in ast.walk(n.value)):
                            for t in (n.targets if isinstance(n, ast.Assign) else [n.target]):
                                if _self_attr(t) is not None:
                                    vattrs.setdefault(t.attr, n)
            vm: Dict[str, ast.AST] = {}
            changed = True
            while changed:
                changed = False
                for name, f in meths.items():
                    if name in vm or name in ("__init__",):
                        continue
                    rets = [x.value for x in ast.walk(f) if isinstance(x, ast.Return) and x.value is not None]
                    w = None
                    for rv in rets:
                        for n in ast.walk(rv):
                            if isinstance(n, ast.Call) and _source_kind(n) in ("clock", "identity"):
                                w = n
                            elif isinstance(n, ast.Attribute) and isinstance(n.ctx, ast.Load) and _self_attr(n) in vattrs:
                                w = n
                            elif isinstance(n, ast.Call) and _self_attr(n.func) in vm:
                                w = n
                            if w is not None:
                                break
                        if w is not None:
                            break
                    if w is not None:
                        vm[name] = w
                        changed = True
            self._vol_attrs[id(cls)] = vattrs
            self._vol_meths[id(cls)] = vm
        # 2. text hooks: volatile themselves, or embedding the text of an attribute of a volatile-text class
        changed = True
        while changed:
            changed = False
            for mod, cls in self.classes:
                if id(cls) in self.text:
                    continue
                meths = self.family_methods(mod, cls)
                for hook in _TEXT_HOOKS:
                    f = meths.get(hook)
                    if f is None:
                        continue
                    if hook in self._vol_meths[id(cls)]:
                        self.text[id(cls)] = (hook, self._vol_meths[id(cls)][hook], f"`{norm(self._vol_meths[id(cls)][hook])[:50]}` in {cls.name}.{hook} is a clock reading / counter of the instance")
                        changed = True
                        break
                    hit = None
                    for n in ast.walk(f):
                        if isinstance(n, ast.Attribute) and isinstance(n.ctx, ast.Load) and _self_attr(n) is not None:
                            for m2, c2 in self.attr_classes(mod, cls, n.attr):
                                fam = [c2] + [c for _m, c in self.repo.subclasses(c2)]
                                t = next((self.text[id(c)] for c in fam if id(c) in self.text), None)
                                if t is not None:
                                    hit = (n, c2, t)
                                    break
                        if hit:
                            break
                    if hit:
                        n, c2, t = hit
                        self.text[id(cls)] = (hook, n, f"{cls.name}.{hook} embeds `{norm(n)}`, a {c2.name}, whose text is volatile ({t[2]})")
                        changed = True
                        break

    def of_expr(self, mod, fn: ast.AST, e: ast.AST) -> Optional[Tuple[ast.ClassDef, Tuple[str, ast.AST, str]]]:
        """The volatile-text verdict for the declared class of *e* (a parameter of *fn*, or an attribute chain on one)."""
        cands: List[Tuple[object, ast.ClassDef]] = []
        if isinstance(e, ast.Name):
            a = next((x for x in fn.args.posonlyargs + fn.args.args + fn.args.kwonlyargs if x.arg == e.id), None)
            if a is None or a.annotation is None or assigned_value(fn, e.id):
                return None
            ann = a.annotation
            if isinstance(ann, ast.Constant) and isinstance(ann.value, str):
                try:
                    ann = ast.parse(ann.value, mode="eval").body
                except SyntaxError:
                    return None
            for x in ast.walk(ann):
                if isinstance(x, (ast.Name, ast.Attribute)):
                    hit = self.repo.resolve_name(mod, x, fn)
                    if hit and isinstance(hit[1], ast.ClassDef):
                        cands.append(hit)
        elif isinstance(e, ast.Attribute):
            base = self._classes_of(mod, fn, e.value)
            for m, c in base:
                cands.extend(self.attr_classes(m, c, e.attr))
        for m, c in cands:
            for c2 in [c] + [x for _m, x in self.repo.subclasses(c)]:
                if id(c2) in self.text:
                    return c2, self.text[id(c2)]
        return None

    def _classes_of(self, mod, fn: ast.AST, e: ast.AST) -> List[Tuple[object, ast.ClassDef]]:
        out: List[Tuple[object, ast.ClassDef]] = []
        if isinstance(e, ast.Name):
            a = next((x for x in fn.args.posonlyargs + fn.args.args + fn.args.kwonlyargs if x.arg == e.id), None)
            if a is not None and a.annotation is not None and not assigned_value(fn, e.id):
                for x in ast.walk(a.annotation):
                    if isinstance(x, (ast.Name, ast.Attribute)):
                        hit = self.repo.resolve_name(mod, x, fn)
                        if hit and isinstance(hit[1], ast.ClassDef):
                            out.append(hit)
                            out.extend(self.repo.subclasses(hit[1]))
        elif isinstance(e, ast.Attribute):
            for m, c in self._classes_of(mod, fn, e.value):
                out.extend(self.attr_classes(m, c, e.attr))
        return out

    def volatile_method_call(self, mod, fn: ast.AST, c: ast.Call) -> Optional[Tuple[ast.ClassDef, str]]:
        if not isinstance(c.func, ast.Attribute):
            return None
        for m, k in self._classes_of(mod, fn, c.func.value):
            if c.func.attr in self._vol_meths.get(id(k), {}):
                return k, c.func.attr
        return None


def _text_conversions(f: ast.AST) -> List[Tuple[ast.AST, ast.AST]]:
    """(conversion expression, operand) for every place *f* turns a value into text: str / repr / format / ascii
    calls, replacement fields of f-strings, `"..".format(x)`, `"%s" % x`."""
    out: List[Tuple[ast.AST, ast.AST]] = []
    for n in ast.walk(f):
        if isinstance(n, ast.Call) and isinstance(n.func, ast.Name) and n.func.id in ("str", "repr", "format", "ascii") and n.args:
            out.append((n, n.args[0]))
        elif isinstance(n, ast.FormattedValue):
            out.append((n, n.value))
        elif isinstance(n, ast.Call) and isinstance(n.func, ast.Attribute) and n.func.attr == "format" and isinstance(n.func.value, ast.Constant) and isinstance(n.func.value.value, str):
            out.extend((n, a) for a in list(n.args) + [k.value for k in n.keywords])
        elif isinstance(n, ast.BinOp) and isinstance(n.op, ast.Mod) and isinstance(n.left, ast.Constant) and isinstance(n.left.value, str):
            out.extend((n, a) for a in (n.right.elts if isinstance(n.right, ast.Tuple) else [n.right]))
    return out


def _no_volatile_object_text_in_stream(repo: Repo, R: Report, scan) -> None:
    r = R.rule("C10-D2-no-volatile-object-text-in-stream", "what a trace-path function returns, persists or hands to a driver contains no text of a framework object whose class describes itself with something that differs between two equal runs, and no reading of such an object: a class of the package whose `__str__` / `__repr__` / `__format__` reports a clock reading, an elapsed time or a counter its methods accumulate (directly, through its own methods, or by embedding the text of an attribute that holds such an object - a node prints its stopwatch) yields a different string at every run; `str(x)` / `repr(x)` / an f-string field of a value declared as such a class (or a call of one of its time / counter accessors) outside the documented volatile block copies a duration or a call count into a stable field, so two traces of the same run disagree after the volatile fields are removed", 10)
    vt = _VolatileText(repo)
    for (rel, qn), (f, clock_too) in sorted(scan.items()):
        if not clock_too:
            continue
        mod = repo.module(rel)
        bad = None
        for conv, operand in _text_conversions(f):
            v = vt.of_expr(mod, f, operand)
            if v is None:
                continue
            sink = _flows_to_output(f, conv)
            if sink is not None:
                bad = (conv, f"the text of `{norm(operand)}` ({v[0].name}: {v[1][2]})", sink)
                break
        if bad is None:
            for c in [c for c in ast.walk(f) if isinstance(c, ast.Call)]:
                v2 = vt.volatile_method_call(mod, f, c)
                if v2 is None:
                    continue
                sink = _flows_to_output(f, c)
                if sink is not None:
                    bad = (c, f"`{norm(c)[:50]}` ({v2[0].name}.{v2[1]} returns a clock reading / an accumulated counter)", sink)
                    break
        if bad:
            conv, what, sink = bad
            R.violation(r, rel, qn, norm(stmt_of(conv))[:90], f"{what} flows into `{norm(sink)[:60]}`: a duration / call count leaves the documented volatile fields and lands in a stable field of the record, so two traces of the same configuration on the same payload differ after the volatile fields are removed", getattr(conv, "lineno", f.lineno))
        else:
            R.ok(r, rel, qn, f"{qn}: no volatile object text reaches the output")
