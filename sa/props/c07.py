"""C07 - what a Semantic Execution Record says about its node is true.

D1 timestamps denote UTC, D2 parameter provenance follows the run-time chain, D3 built-in
checks have the right polarity and inputs, D4 context delta is a pre/post diff of this node,
D5 digests are one function of content, D6 durations end - start, D7 processor.ref names the
class that ran.
"""
from __future__ import annotations

import ast
import re
from typing import Callable, Dict, List, Optional, Set, Tuple

from ..cfg import CFG, reaching_defs
from ..engine import (
    AnalysisError,
    FuncNode,
    _attach_parents,
    Repo,
    ancestors,
    assigned_value,
    call_attr,
    call_name,
    calls_in,
    dotted_name,
    is_const,
    kwarg,
    norm,
    parent,
    qualname_of,
    stmt_of,
    walk_no_nested,
)
from ..normal import clone, nfunc, normalize
from ..pat import find1, name_of
from ..report import Report
from ._orch import ORCH, EXECUTE

JSONL = "semantiva/trace/drivers/jsonl.py"
DELTA = "semantiva/trace/delta_collector.py"
UTILS = "semantiva/trace/_utils.py"
O = "SemantivaOrchestrator."
TS_FILES = [ORCH, JSONL, "semantiva/trace/runtime/run_space_emitter.py", UTILS, "semantiva/trace/model.py"]


def utc_anchored(expr: ast.AST) -> Optional[bool]:
    """True/False for a clock read inside *expr* (None when there is none)."""
    verdict: Optional[bool] = None
    for c in ast.walk(expr):
        if not isinstance(c, ast.Call):
            continue
        d = call_name(c) or ""
        tail = d.split(".")[-1]
        if tail == "now" and "datetime" in d:
            tz = c.args[0] if c.args else kwarg(c, "tz")
            ok = tz is not None and "utc" in ast.unparse(tz).lower()
            verdict = ok if verdict is None else (verdict and ok)
        elif tail in ("utcnow", "utcfromtimestamp", "gmtime"):
            verdict = True if verdict is None else verdict
        elif tail in ("fromtimestamp",):
            tz = c.args[1] if len(c.args) > 1 else kwarg(c, "tz")
            ok = tz is not None and "utc" in ast.unparse(tz).lower()
            verdict = ok if verdict is None else (verdict and ok)
        elif tail in ("localtime", "today", "ctime", "asctime"):
            verdict = False
    return verdict


_NON_WALL_CLOCKS = {"monotonic", "monotonic_ns", "perf_counter", "perf_counter_ns", "process_time", "process_time_ns", "thread_time", "thread_time_ns"}


def _non_wall_epoch(expr: ast.AST) -> Optional[str]:
    """The text of a counter read (time.monotonic() and the like) that flows into the epoch argument of a
    fromtimestamp() / utcfromtimestamp() / gmtime() conversion inside *expr* (None when there is none)."""
    for c in ast.walk(expr):
        if isinstance(c, ast.Call) and (call_name(c) or "").split(".")[-1] in ("fromtimestamp", "utcfromtimestamp", "gmtime") and c.args:
            for x in ast.walk(c.args[0]):
                if isinstance(x, ast.Call) and (call_name(x) or "").split(".")[-1] in _NON_WALL_CLOCKS:
                    return txt(x)
    return None


def _offset_to_z(n: ast.AST) -> Optional[ast.AST]:
    """The text *n* rewrites when *n* is `<text>.replace('<offset>', 'Z')` (str.replace with two constant strings, the
    new one being the designator): the UTC offset a rendering ends in is exchanged for `Z`.  None otherwise."""
    if isinstance(n, ast.Call) and isinstance(n.func, ast.Attribute) and n.func.attr == "replace" and not n.keywords and len(n.args) in (2, 3) \
            and all(isinstance(a, ast.Constant) and isinstance(a.value, str) for a in n.args[:2]) and n.args[1].value == "Z":
        return n.func.value
    return None


def z_labelled(fn: ast.AST) -> List[ast.AST]:
    """Expressions in *fn* that attach the UTC designator 'Z' to a time string."""
    out = []
    for n in ast.walk(fn):
        if isinstance(n, ast.BinOp) and isinstance(n.op, ast.Add) and isinstance(n.right, ast.Constant) and n.right.value == "Z":
            out.append(n)
        if isinstance(n, ast.JoinedStr) and n.values and isinstance(n.values[-1], ast.Constant) and str(n.values[-1].value).endswith("Z") and any(isinstance(v, ast.FormattedValue) for v in n.values):
            out.append(n)
        if isinstance(n, ast.Call) and call_attr(n) == "strftime" and n.args and isinstance(n.args[0], ast.Constant) and isinstance(n.args[0].value, str) and n.args[0].value.endswith("Z"):
            out.append(n)
        if _offset_to_z(n) is not None:  # t.replace('+00:00', 'Z'): the designator takes the place of the offset
            out.append(n)
        parts = joined_parts(n) if isinstance(n, (ast.Call, ast.BinOp)) else None  # '{}Z'.format(t), '%sZ' % (t,), ''.join((t, 'Z'))
        if parts and isinstance(parts[-1], ast.Constant) and isinstance(parts[-1].value, str) and parts[-1].value.endswith("Z") and any(not isinstance(x, ast.Constant) for x in parts) and n not in out:
            out.append(n)
    return out


# ---------------------------------------------------------------------------------------------------------
# generic helpers: value expansion through single-definition locals, dominating conditions, key-set algebra
# ---------------------------------------------------------------------------------------------------------

_MUT = {"append", "extend", "insert", "add", "update", "setdefault", "pop", "popitem", "remove", "discard", "clear", "sort", "reverse"}
KEEP = (
    "_type_check_entry", "_extract_context_delta_lists", "_parameter_defaults",
    "_data_summary", "_context_summary", "_iso_now", "_context_snapshot", "_stable_equal", "_processor_config_for",
    "_infer_context_parameters", "_required_keys_for", "_normalize_keys", "_now_timestamp",
)


def pos_params(fn: ast.AST) -> List[str]:
    """Positional parameter names without the receiver."""
    p = [a.arg for a in fn.args.posonlyargs + fn.args.args]
    return p[1:] if p and p[0] in ("self", "cls") else p


def all_params(fn: ast.AST) -> Set[str]:
    a = fn.args
    out = {x.arg for x in a.posonlyargs + a.args + a.kwonlyargs}
    if a.vararg:
        out.add(a.vararg.arg)
    if a.kwarg:
        out.add(a.kwarg.arg)
    return out


def bind_args(call: ast.Call, fn: ast.AST, scope: Optional[ast.AST] = None) -> Dict[str, ast.AST]:
    """Parameter name -> argument expression of *call* for callee *fn* (receiver skipped)."""
    out: Dict[str, ast.AST] = {}
    pp = pos_params(fn)
    for i, a in enumerate(call.args):
        if isinstance(a, ast.Starred):
            break
        if i < len(pp):
            out[pp[i]] = a
    for kw in call.keywords:
        if kw.arg:
            out[kw.arg] = kw.value
        elif scope is not None:
            # `f(**common)`: the entries of a mapping assembled in *scope* (one value per entry) are keyword arguments
            for q in all_params(fn):
                if q not in out:
                    vals = dict_values(scope, kw.value, q)
                    if vals and len(vals) == 1:
                        out[q] = vals[0]
    return out


def _def_table(fn: ast.AST) -> Tuple[Dict[str, ast.AST], Dict[str, List[ast.AST]]]:
    """(single, every): *single* maps a local bound exactly once, by a plain (or unpacking) assignment, and never
    mutated in place, to the expression it names; *every* maps each local to all expressions assigned to it."""
    cached = getattr(fn, "_c07_defs", None)
    if cached is not None:
        return cached
    stores: Dict[str, int] = {}
    every: Dict[str, List[ast.AST]] = {}
    mutated: Set[str] = set()

    def root(e: ast.AST) -> Optional[str]:
        while isinstance(e, (ast.Subscript, ast.Attribute)):
            e = e.value
        return e.id if isinstance(e, ast.Name) else None

    for n in walk_no_nested(fn):
        if isinstance(n, ast.Name) and isinstance(n.ctx, (ast.Store, ast.Del)):
            stores[n.id] = stores.get(n.id, 0) + 1
        elif isinstance(n, ast.ExceptHandler) and n.name:
            stores[n.name] = stores.get(n.name, 0) + 1
        if isinstance(n, (ast.Subscript, ast.Attribute)) and isinstance(n.ctx, (ast.Store, ast.Del)):
            r = root(n.value)
            if r:
                mutated.add(r)
        if isinstance(n, ast.Call) and isinstance(n.func, ast.Attribute) and n.func.attr in _MUT:
            r = root(n.func.value)
            if r:
                mutated.add(r)
        if isinstance(n, ast.AugAssign):
            r = root(n.target)
            if r:
                mutated.add(r)
        pairs: List[Tuple[ast.AST, ast.AST]] = []
        if isinstance(n, ast.Assign):
            pairs = [(t, n.value) for t in n.targets]
        elif isinstance(n, ast.AnnAssign) and n.value is not None:
            pairs = [(n.target, n.value)]
        for t, v in pairs:
            if isinstance(t, ast.Name):
                every.setdefault(t.id, []).append(v)
            elif isinstance(t, (ast.Tuple, ast.List)):
                for i, e in enumerate(t.elts):
                    if isinstance(e, ast.Name):
                        if isinstance(v, (ast.Tuple, ast.List)) and len(v.elts) == len(t.elts) and not any(isinstance(x, ast.Starred) for x in v.elts):
                            every.setdefault(e.id, []).append(v.elts[i])
                        else:
                            every.setdefault(e.id, []).append(ast.Subscript(value=v, slice=ast.Constant(value=i), ctx=ast.Load()))
    params = all_params(fn)
    # names rebound inside nested defs (nonlocal) are left alone
    for n in ast.walk(fn):
        if isinstance(n, (ast.Nonlocal, ast.Global)):
            mutated |= set(n.names)
    single = {k: v[0] for k, v in every.items() if len(v) == 1 and stores.get(k, 0) == 1 and k not in params and k not in mutated}
    fn._c07_defs = (single, every)  # type: ignore[attr-defined]
    return single, every


def expand(fn: ast.AST, e: Optional[ast.AST]) -> Optional[ast.AST]:
    """*e* with every single-definition local of *fn* replaced (recursively) by the expression it names."""
    if e is None:
        return None
    single, _every = _def_table(fn)

    class X(ast.NodeTransformer):
        def __init__(self) -> None:
            self.stack: List[str] = []

        def visit_Name(self, n: ast.Name):
            if isinstance(n.ctx, ast.Load) and n.id in single and n.id not in self.stack and len(self.stack) < 12:
                self.stack.append(n.id)
                new = self.visit(clone(single[n.id]))
                self.stack.pop()
                return new
            return n

    return X().visit(clone(e))


def closure(fn: ast.AST, e: Optional[ast.AST]) -> List[ast.AST]:
    """*e* and every expression assigned (anywhere in *fn*) to a local that *e* transitively reads."""
    if e is None:
        return []
    _single, every = _def_table(fn)
    out = [e]
    seen: Set[str] = set()
    todo = [e]
    while todo:
        x = todo.pop()
        for nm in {y.id for y in ast.walk(x) if isinstance(y, ast.Name)}:
            if nm in seen:
                continue
            seen.add(nm)
            for v in every.get(nm, []):
                out.append(v)
                todo.append(v)
    return out


def closure_text(fn: ast.AST, e: Optional[ast.AST]) -> str:
    return " ;; ".join(ast.unparse(x) for x in closure(fn, e))


def alpha(e: ast.AST) -> ast.AST:
    """Comprehension variables renamed to _k0, _k1, ... so that texts compare independent of their spelling."""
    e = clone(e)
    n = 0
    for c in [c for c in ast.walk(e) if isinstance(c, ast.Call) and isinstance(c.func, ast.Name) and c.func.id in ("any", "all") and len(c.args) == 1 and not c.keywords and isinstance(c.args[0], ast.ListComp)]:
        c.args[0] = ast.copy_location(ast.GeneratorExp(elt=c.args[0].elt, generators=c.args[0].generators), c.args[0])  # same truth value
    for comp in [c for c in ast.walk(e) if isinstance(c, (ast.ListComp, ast.SetComp, ast.GeneratorExp, ast.DictComp))]:
        for gen in comp.generators:
            for t in [x for x in ast.walk(gen.target) if isinstance(x, ast.Name)]:
                old, new = t.id, f"_k{n}"
                n += 1
                for x in ast.walk(comp):
                    if isinstance(x, ast.Name) and x.id == old:
                        x.id = new
    return e


def txt(e: Optional[ast.AST]) -> str:
    if e is None:
        return "<none>"
    s = ast.unparse(alpha(e))
    return s


_FLIP = {ast.In: ast.NotIn, ast.NotIn: ast.In, ast.Is: ast.IsNot, ast.IsNot: ast.Is, ast.Eq: ast.NotEq, ast.NotEq: ast.Eq}


def conjuncts(e: ast.AST, positive: bool = True) -> List[ast.AST]:
    """Atomic conditions that all hold when *e* is true (positive) / false (not positive)."""
    if isinstance(e, ast.UnaryOp) and isinstance(e.op, ast.Not):
        return conjuncts(e.operand, not positive)
    if isinstance(e, ast.BoolOp) and isinstance(e.op, ast.And if positive else ast.Or):
        return [c for v in e.values for c in conjuncts(v, positive)]
    if positive:
        return [e]
    if isinstance(e, ast.Compare) and len(e.ops) == 1 and type(e.ops[0]) in _FLIP:
        return [ast.Compare(left=e.left, ops=[_FLIP[type(e.ops[0])]()], comparators=e.comparators)]
    return [ast.UnaryOp(op=ast.Not(), operand=e)]


def dominating_conditions(g: CFG, fn: ast.AST, target: int) -> List[ast.AST]:
    """Atomic conditions (locals expanded) guaranteed on every path from the entry of *g* to node *target*."""
    out: List[ast.AST] = []
    for n in g.nodes:
        if n.kind != "if" or n.part is None:
            continue
        for lab in ("T", "F"):
            if any(l == lab for _t, l in g.succ[n.id]) and g.dominated_by_edge(target, n.id, lab):
                out.extend(conjuncts(expand(fn, n.part), lab == "T"))
    return out


# key-set algebra --------------------------------------------------------------------------------------------
_TRANSPARENT = {"set", "list", "sorted", "tuple", "frozenset", "iter", "reversed"}


def _flat(op: str, parts: List[tuple]) -> tuple:
    items: Set[tuple] = set()
    for p in parts:
        if p[0] == op:
            items |= set(p[1])
        else:
            items.add(p)
    return next(iter(items)) if len(items) == 1 else (op, frozenset(items))


def kterm(e: ast.AST, atom: Callable[[ast.AST], Optional[str]]) -> tuple:
    """Symbolic set of keys denoted by *e*: ('K', role) | ('diff', a, b) | ('and', {..}) | ('or', {..}) |
    ('filter', base, {condition texts over _k}) | ('?', text).  Ordering and container type are ignored."""
    a = atom(e)
    if a is not None:
        return ("K", a)
    if isinstance(e, ast.Call):
        f = e.func
        if isinstance(f, ast.Name) and f.id in _TRANSPARENT and len(e.args) == 1:
            return kterm(e.args[0], atom)
        if isinstance(f, ast.Attribute):
            if f.attr in ("keys", "copy") and not e.args:
                return kterm(f.value, atom)
            if f.attr == "difference" and e.args:
                return ("diff", kterm(f.value, atom), _flat("or", [kterm(x, atom) for x in e.args]))
            if f.attr == "intersection" and e.args:
                return _flat("and", [kterm(f.value, atom)] + [kterm(x, atom) for x in e.args])
            if f.attr == "union" and e.args:
                return _flat("or", [kterm(f.value, atom)] + [kterm(x, atom) for x in e.args])
    if isinstance(e, ast.BinOp):
        if isinstance(e.op, ast.Sub):
            return ("diff", kterm(e.left, atom), kterm(e.right, atom))
        if isinstance(e.op, ast.BitAnd):
            return _flat("and", [kterm(e.left, atom), kterm(e.right, atom)])
        if isinstance(e.op, (ast.BitOr, ast.Add)):
            return _flat("or", [kterm(e.left, atom), kterm(e.right, atom)])
    if isinstance(e, ast.BoolOp) and isinstance(e.op, ast.Or) and len(e.values) == 2:
        last = e.values[1]
        if (isinstance(last, (ast.List, ast.Tuple, ast.Set)) and not last.elts) or (isinstance(last, ast.Dict) and not last.keys) or (isinstance(last, ast.Call) and isinstance(last.func, ast.Name) and last.func.id in ("list", "set", "tuple", "dict") and not last.args):
            return kterm(e.values[0], atom)
    if isinstance(e, ast.IfExp):
        # `x if x else []`, `x if x is not None else []`, `[] if not x else x`, `[] if x is None else x`: the keys of x
        t, neg = e.test, False
        if isinstance(t, ast.UnaryOp) and isinstance(t.op, ast.Not):
            t, neg = t.operand, True
        elif isinstance(t, ast.Compare) and len(t.ops) == 1 and isinstance(t.ops[0], (ast.Is, ast.IsNot)) and is_const(t.comparators[0], None):
            t, neg = t.left, isinstance(t.ops[0], ast.Is)
        full, empty = (e.orelse, e.body) if neg else (e.body, e.orelse)
        if _empty_container(empty) and ast.unparse(t) == ast.unparse(full):
            return kterm(full, atom)
    if isinstance(e, (ast.List, ast.Tuple)) and e.elts and all(isinstance(x, ast.Starred) for x in e.elts):
        return _flat("or", [kterm(x.value, atom) for x in e.elts])
    if isinstance(e, (ast.ListComp, ast.SetComp, ast.GeneratorExp)) and len(e.generators) == 1:
        gen = e.generators[0]
        g_target, g_iter = gen.target, gen.iter
        if isinstance(g_target, ast.Tuple) and len(g_target.elts) == 2 and all(isinstance(x, ast.Name) for x in g_target.elts) and isinstance(g_iter, ast.Call) and call_name(g_iter) == "enumerate" and len(g_iter.args) == 1 and not g_iter.keywords \
                and not any(isinstance(x, ast.Name) and x.id == g_target.elts[0].id for t in [e.elt] + list(gen.ifs) for x in ast.walk(t)):
            g_target, g_iter = g_target.elts[1], g_iter.args[0]  # the positions are not used: the elements of the sequence
        if isinstance(g_target, ast.Name) and isinstance(e.elt, ast.Name) and e.elt.id == g_target.id:
            k = g_target.id
            base = kterm(g_iter, atom)
            filters: Set[str] = set()
            for c in [c for t in gen.ifs for c in conjuncts(t, True)]:
                if isinstance(c, ast.Compare) and len(c.ops) == 1 and isinstance(c.left, ast.Name) and c.left.id == k and isinstance(c.ops[0], (ast.In, ast.NotIn)):
                    other = kterm(c.comparators[0], atom)
                    base = _flat("and", [base, other]) if isinstance(c.ops[0], ast.In) else ("diff", base, other)
                else:
                    cc = clone(c)
                    for x in ast.walk(cc):
                        if isinstance(x, ast.Name) and x.id == k:
                            x.id = "_k"
                    filters.add(ast.unparse(cc))
            return ("filter", base, frozenset(filters)) if filters else base
    return ("?", ast.unparse(e))


def kshow(t: tuple) -> str:
    if t[0] == "K":
        return f"keys({t[1]})"
    if t[0] == "diff":
        return f"({kshow(t[1])} - {kshow(t[2])})"
    if t[0] in ("and", "or"):
        return "(" + (" & " if t[0] == "and" else " | ").join(sorted(kshow(x) for x in t[1])) + ")"
    if t[0] == "filter":
        return f"{{k in {kshow(t[1])} if {' and '.join(sorted(t[2]))}}}"
    return f"<{t[1]}>"


def is_sorted_expr(e: Optional[ast.AST]) -> bool:
    while isinstance(e, ast.Call) and isinstance(e.func, ast.Name) and e.func.id in ("list", "tuple") and len(e.args) == 1:
        e = e.args[0]
    return isinstance(e, ast.Call) and isinstance(e.func, ast.Name) and e.func.id == "sorted" and not any(k.arg == "reverse" for k in e.keywords)


def name_atoms(mapping: Dict[str, str]) -> Callable[[ast.AST], Optional[str]]:
    return lambda e: mapping.get(e.id) if isinstance(e, ast.Name) else None


def dict_entry(d: ast.AST, key: str) -> Optional[ast.AST]:
    """The value a display gives *key* (the last entry wins; entries of a display spread into it, `**{..}`, count as its
    own).  None when the display has no such entry or a later spread of an unknown mapping may replace it."""
    found: Optional[ast.AST] = None
    if isinstance(d, ast.Dict):
        for k, v in zip(d.keys, d.values):
            if isinstance(k, ast.Constant) and k.value == key:
                found = v
            elif k is None and isinstance(v, ast.Dict):
                inner = dict_entry(v, key)
                found = inner if inner is not None else found
    return found


def call_kwarg(fn: ast.AST, call: ast.Call, name: str) -> Optional[ast.AST]:
    """The expression *call* (in *fn*) passes for keyword *name*: written at the call, or the entry *name* of a mapping
    spread into it (`f(**fields)`, the mapping understood by dict_values).  None when absent or not a single value."""
    v = kwarg(call, name)
    if v is not None:
        return v
    found: List[ast.AST] = []
    for kw in call.keywords:
        if kw.arg is None:
            found += dict_values(fn, expand(fn, kw.value), name) or []
    return found[0] if len(found) == 1 else None


def joined_parts(e: ast.AST) -> Optional[List[ast.AST]]:
    """The pieces of a string built as `sep.join((a, b, ..))`, `'{}.{}'.format(a, b)` or `'%s.%s' % (a, b)`:
    constants (merged) and the interpolated expressions, in order; None for any other expression."""
    pieces: Optional[List[ast.AST]] = None
    if isinstance(e, ast.Call) and isinstance(e.func, ast.Attribute) and isinstance(e.func.value, ast.Constant) and isinstance(e.func.value.value, str):
        text = e.func.value.value
        if e.func.attr == "join" and len(e.args) == 1 and isinstance(e.args[0], (ast.Tuple, ast.List)) and not any(isinstance(x, ast.Starred) for x in e.args[0].elts):
            pieces = []
            for i, x in enumerate(e.args[0].elts):
                if i:
                    pieces.append(ast.Constant(value=text))
                pieces.append(x)
        elif e.func.attr == "format" and not e.keywords and text.count("{}") == len(e.args) and text.replace("{}", "").count("{") == 0:
            pieces = []
            for i, chunk in enumerate(text.split("{}")):
                if i:
                    pieces.append(e.args[i - 1])
                pieces.append(ast.Constant(value=chunk))
    if isinstance(e, ast.BinOp) and isinstance(e.op, ast.Mod) and isinstance(e.left, ast.Constant) and isinstance(e.left.value, str) and not isinstance(e.right, (ast.Dict, ast.List)):
        text = e.left.value
        operands = e.right.elts if isinstance(e.right, ast.Tuple) else [e.right]
        if text.count("%s") == len(operands) and text.replace("%s", "").count("%") == 0 and not any(isinstance(x, ast.Starred) for x in operands):
            pieces = []
            for i, chunk in enumerate(text.split("%s")):
                if i:
                    pieces.append(operands[i - 1])
                pieces.append(ast.Constant(value=chunk))
    if pieces is None:
        return None
    out: List[ast.AST] = []
    for x in pieces:
        if isinstance(x, ast.Constant) and isinstance(x.value, str):
            if not x.value:
                continue
            if out and isinstance(out[-1], ast.Constant):
                out[-1] = ast.Constant(value=out[-1].value + x.value)
                continue
        out.append(x)
    return out


def split_parallel_stores(fn: ast.AST) -> ast.AST:
    """A copy of *fn* in which `a[k], b[k] = x, <constant or name>` is written as consecutive single stores (the later
    right-hand sides are constants or plain names other than the stored containers, so the order of evaluation is kept)."""
    new = clone(fn)
    changed = False
    for node in ast.walk(new):
        for field in ("body", "orelse", "finalbody"):
            block = getattr(node, field, None)
            if not isinstance(block, list):
                continue
            i = 0
            while i < len(block):
                st = block[i]
                if isinstance(st, ast.Assign) and len(st.targets) == 1 and isinstance(st.targets[0], ast.Tuple) and isinstance(st.value, ast.Tuple) and len(st.value.elts) == len(st.targets[0].elts) and all(isinstance(t, ast.Subscript) for t in st.targets[0].elts):
                    roots = {_root_name(t) for t in st.targets[0].elts}
                    if all(isinstance(v, ast.Constant) or (isinstance(v, ast.Name) and v.id not in roots) for v in st.value.elts[1:]) and not any(isinstance(v, ast.Starred) for v in st.value.elts):
                        repl = [ast.copy_location(ast.Assign(targets=[t], value=v), st) for t, v in zip(st.targets[0].elts, st.value.elts)]
                        block[i:i + 1] = repl
                        changed = True
                        i += len(repl)
                        continue
                i += 1
    if not changed:
        return fn
    ast.fix_missing_locations(new)
    _attach_parents(new)
    new._parent = parent(fn)  # type: ignore[attr-defined]
    new._normal_of = getattr(fn, "_normal_of", fn)  # type: ignore[attr-defined]
    return new


def plain_traversal(fn: ast.AST) -> ast.AST:
    """A copy of *fn* in which a loop that walks a sequence through positions walks its elements instead:
    `for i in range(len(X)): k = X[i]; ..` and `for i, k in enumerate(X): ..` become `for k in X: ..` when the position
    *i* is used for nothing else in the function and neither X nor k nor i is rebound or mutated in the loop (X a plain
    name).  The elements visited and their order are the same; the rules then see one spelling of the traversal."""
    new = clone(fn)
    changed = False
    loads: Dict[str, int] = {}
    for n in ast.walk(new):
        if isinstance(n, ast.Name) and isinstance(n.ctx, ast.Load):
            loads[n.id] = loads.get(n.id, 0) + 1
    for loop in [n for n in ast.walk(new) if isinstance(n, ast.For) and not n.orelse]:
        it = loop.iter
        stored = [x.id for st in loop.body for x in ast.walk(st) if isinstance(x, ast.Name) and isinstance(x.ctx, (ast.Store, ast.Del))]
        mutated = {r for st in loop.body for x in ast.walk(st) for r in [_root_name(x.func.value) if isinstance(x, ast.Call) and isinstance(x.func, ast.Attribute) and x.func.attr in _MUT else _root_name(x.value) if isinstance(x, (ast.Subscript, ast.Attribute)) and isinstance(x.ctx, (ast.Store, ast.Del)) else None] if r}
        if isinstance(loop.target, ast.Name) and isinstance(it, ast.Call) and call_name(it) == "range" and len(it.args) == 1 and not it.keywords and isinstance(it.args[0], ast.Call) and call_name(it.args[0]) == "len" and len(it.args[0].args) == 1 and isinstance(it.args[0].args[0], ast.Name) and loop.body:
            i, X, first = loop.target.id, it.args[0].args[0].id, loop.body[0]
            if (isinstance(first, ast.Assign) and len(first.targets) == 1 and isinstance(first.targets[0], ast.Name) and isinstance(first.value, ast.Subscript) and isinstance(first.value.value, ast.Name) and first.value.value.id == X
                    and isinstance(first.value.slice, ast.Name) and first.value.slice.id == i and loads.get(i, 0) == 1 and X not in stored and X not in mutated and i not in stored and stored.count(first.targets[0].id) == 1 and len(loop.body) > 1):
                loop.target = ast.copy_location(ast.Name(id=first.targets[0].id, ctx=ast.Store()), loop.target)
                loop.iter = ast.copy_location(ast.Name(id=X, ctx=ast.Load()), it)
                loop.body = loop.body[1:]
                changed = True
        elif isinstance(loop.target, ast.Tuple) and len(loop.target.elts) == 2 and all(isinstance(e, ast.Name) for e in loop.target.elts) and isinstance(it, ast.Call) and call_name(it) == "enumerate" and len(it.args) == 1 and not it.keywords:
            i, k = loop.target.elts[0].id, loop.target.elts[1].id
            if loads.get(i, 0) == 0 and i not in stored and i != k:
                loop.target = ast.copy_location(ast.Name(id=k, ctx=ast.Store()), loop.target)
                loop.iter = it.args[0]
                changed = True
    if not changed:
        return fn
    ast.fix_missing_locations(new)
    _attach_parents(new)
    new._parent = parent(fn)  # type: ignore[attr-defined]
    return new


def search_loops(fn: ast.AST) -> ast.AST:
    """A copy of *fn* in which a loop that only searches a sequence for an element is the `any(..)` it computes:

      for X in IT:              if not any(C for X in IT):          flag = False                 flag = any(C for X in IT)
          if C: break     ==        BODY                            for X in IT:            ==
      else:                                                             if C:
          BODY                                                              flag = True; break

    (and the mirror image `flag = True .. flag = False; break`, which is `flag = not any(..)`), and the expression
    `next((True for X in IT if C), False)` is `any(C for X in IT)`.  C is evaluated for the same elements in the same
    order; the loop variable is read nowhere outside the loop (so that it stays bound to the hit does not matter)."""
    new = clone(fn)
    changed = False
    loads: Dict[str, int] = {}
    for n in ast.walk(new):
        if isinstance(n, ast.Name) and isinstance(n.ctx, ast.Load):
            loads[n.id] = loads.get(n.id, 0) + 1
    shadow = {n.id for n in ast.walk(new) if isinstance(n, ast.Name) and isinstance(n.ctx, ast.Store)} | all_params(new)

    def any_of(loop: ast.For, cond: ast.AST) -> ast.AST:
        gen = ast.GeneratorExp(elt=cond, generators=[ast.comprehension(target=loop.target, iter=loop.iter, ifs=[], is_async=0)])
        return ast.copy_location(ast.Call(func=ast.Name(id="any", ctx=ast.Load()), args=[gen], keywords=[]), loop)

    def negated(e: ast.AST) -> ast.AST:
        return e.operand if isinstance(e, ast.UnaryOp) and isinstance(e.op, ast.Not) else ast.copy_location(ast.UnaryOp(op=ast.Not(), operand=e), e)

    def search_shape(loop: ast.AST) -> Optional[ast.If]:
        """The single `if C: [flag = const;] break` a search loop consists of (its variable is local to the loop)."""
        if not (isinstance(loop, ast.For) and len(loop.body) == 1 and isinstance(loop.body[0], ast.If) and not loop.body[0].orelse):
            return None
        tnames = [x.id for x in ast.walk(loop.target) if isinstance(x, ast.Name)]
        if not tnames or not all(isinstance(x, (ast.Name, ast.Tuple, ast.List)) for x in ast.walk(loop.target) if not isinstance(x, ast.expr_context)):
            return None
        inside: Dict[str, int] = {}
        for x in ast.walk(loop):
            if isinstance(x, ast.Name) and isinstance(x.ctx, ast.Load):
                inside[x.id] = inside.get(x.id, 0) + 1
        if any(loads.get(t, 0) != inside.get(t, 0) for t in tnames):
            return None  # the loop variable is read after the loop
        test = loop.body[0]
        if any(isinstance(x, (ast.NamedExpr, ast.Await, ast.Yield, ast.YieldFrom)) for x in ast.walk(test.test)):
            return None
        if any(isinstance(x, ast.Name) and x.id in tnames for x in ast.walk(loop.iter)):
            return None
        return test

    if "any" not in shadow:
        for node in list(ast.walk(new)):
            for field in ("body", "orelse", "finalbody"):
                block = getattr(node, field, None)
                if not (isinstance(block, list) and block and isinstance(block[0], ast.stmt)):
                    continue
                i = 0
                while i < len(block):
                    st = block[i]
                    test = search_shape(st)
                    if test is None:
                        i += 1
                        continue
                    if st.orelse and len(test.body) == 1 and isinstance(test.body[0], ast.Break):
                        block[i] = ast.copy_location(ast.If(test=negated(any_of(st, test.test)), body=st.orelse, orelse=[]), st)
                        changed = True
                    elif not st.orelse and len(test.body) == 2 and isinstance(test.body[1], ast.Break) and i > 0:
                        hit, init = test.body[0], block[i - 1]
                        flag = hit.targets[0].id if isinstance(hit, ast.Assign) and len(hit.targets) == 1 and isinstance(hit.targets[0], ast.Name) else None
                        init_t = init.targets[0] if isinstance(init, ast.Assign) and len(init.targets) == 1 else init.target if isinstance(init, ast.AnnAssign) and init.value is not None else None
                        if flag and isinstance(init_t, ast.Name) and init_t.id == flag and isinstance(hit.value, ast.Constant) and isinstance(init.value, ast.Constant) \
                                and (hit.value.value, init.value.value) in ((True, False), (False, True)) and not _reads_name(test.test, flag) and not _reads_name(st.iter, flag):
                            found = any_of(st, test.test)
                            init.value = found if hit.value.value is True else negated(found)
                            del block[i]
                            changed = True
                            continue
                    i += 1
        for n in [n for n in ast.walk(new) if isinstance(n, ast.Call) and isinstance(n.func, ast.Name) and n.func.id == "next" and "next" not in shadow]:
            if len(n.args) == 2 and not n.keywords and is_const(n.args[1], False) and isinstance(n.args[0], ast.GeneratorExp) and is_const(n.args[0].elt, True) and len(n.args[0].generators) == 1 and n.args[0].generators[0].ifs:
                gen = n.args[0].generators[0]
                cond = gen.ifs[0] if len(gen.ifs) == 1 else ast.BoolOp(op=ast.And(), values=list(gen.ifs))
                n.func = ast.copy_location(ast.Name(id="any", ctx=ast.Load()), n.func)
                n.args = [ast.copy_location(ast.GeneratorExp(elt=cond, generators=[ast.comprehension(target=gen.target, iter=gen.iter, ifs=[], is_async=0)]), n.args[0])]
                changed = True
    if not changed:
        return fn
    ast.fix_missing_locations(new)
    _attach_parents(new)
    new._parent = parent(fn)  # type: ignore[attr-defined]
    if hasattr(fn, "_normal_of"):
        new._normal_of = fn._normal_of  # type: ignore[attr-defined]
    return new


def _empty_container(e: Optional[ast.AST]) -> bool:
    return (isinstance(e, (ast.List, ast.Tuple, ast.Set)) and not e.elts) or (isinstance(e, ast.Dict) and not e.keys) or (isinstance(e, ast.Call) and isinstance(e.func, ast.Name) and e.func.id in ("list", "set", "tuple", "dict", "frozenset") and not e.args and not e.keywords)


def _reads_name(e: ast.AST, name: str) -> bool:
    return any(isinstance(x, ast.Name) and x.id == name for x in ast.walk(e))


def _update_items(call: ast.Call) -> Optional[List[Tuple[Optional[ast.AST], ast.AST]]]:
    """(key, value) pairs of `X.update({'k': v, ..})` / `X.update(k=v, ..)` / `X.update(other)` (key None: the whole of
    *other* is merged in), in the order the entries are stored; None for any other shape."""
    if not (isinstance(call.func, ast.Attribute) and call.func.attr == "update" and len(call.args) <= 1 and all(k.arg for k in call.keywords)):
        return None
    items: List[Tuple[Optional[ast.AST], ast.AST]] = []
    if call.args:
        a = call.args[0]
        if isinstance(a, ast.Starred):
            return None
        if isinstance(a, ast.Dict):
            items += [(k, v) for k, v in zip(a.keys, a.values)]
        elif isinstance(a, ast.Call) and isinstance(a.func, ast.Name) and a.func.id == "dict" and not a.args and all(k.arg for k in a.keywords):
            items += [(ast.Constant(value=k.arg), k.value) for k in a.keywords]
        else:
            items.append((None, a))
    items += [(ast.Constant(value=k.arg), k.value) for k in call.keywords]
    return items or None


def plain_statements(fn: ast.AST) -> ast.AST:
    """A copy of *fn* in which some statement-level spellings of one computation are written one way (what is
    evaluated, in which order, and what is stored where stays the same):

      records  `d = dict(a=x)` is the display `{'a': x}`; `d.update({'a': x}, b=y)` on a plain local is `d['a'] = x;
               d['b'] = y` (values that do not read d); a display bound to a local and directly followed by `d['k'] = v`
               / `d.update(other)` statements is one display `{.., 'k': v, **other}` (the successive stores of the
               assembly of a record: same keys, values and order);
      loops    inside a `for` body `if c: continue` followed by statements is `if not c: <statements>`; a local bound
               once in the function, in a loop body, to a side-effect free expression and read only by the following
               statements of that body (nothing in between rebinding or changing what the expression reads) is replaced
               by the expression - so that an accumulate loop with named intermediate values is the loop the normaliser
               turns into a comprehension."""
    from ..normal import _purity

    new = clone(fn)
    _attach_parents(new)
    changed = False
    shadow = {n.id for n in ast.walk(new) if isinstance(n, ast.Name) and isinstance(n.ctx, ast.Store)} | all_params(new)

    def blocks(root: ast.AST):
        for node in ast.walk(root):
            if isinstance(node, (ast.Lambda,)):
                continue
            for field in ("body", "orelse", "finalbody"):
                block = getattr(node, field, None)
                if isinstance(block, list) and block and isinstance(block[0], ast.stmt):
                    yield node, block

    # dict(k=v) -> display
    if "dict" not in shadow:
        for n in [n for n in ast.walk(new) if isinstance(n, ast.Call) and isinstance(n.func, ast.Name) and n.func.id == "dict" and not n.args and all(k.arg for k in n.keywords)]:
            d = ast.copy_location(ast.Dict(keys=[ast.copy_location(ast.Constant(value=k.arg), k.value) for k in n.keywords], values=[k.value for k in n.keywords]), n)
            p = parent(n)
            for f, val in ast.iter_fields(p):
                if val is n:
                    setattr(p, f, d)
                    changed = True
                elif isinstance(val, list) and any(x is n for x in val):
                    val[:] = [d if x is n else x for x in val]
                    changed = True
        _attach_parents(new)
    # X.update(<literal entries>) on a plain local -> successive stores
    for _node, block in list(blocks(new)):
        i = 0
        while i < len(block):
            st = block[i]
            if isinstance(st, ast.Expr) and isinstance(st.value, ast.Call) and isinstance(st.value.func, ast.Attribute) and isinstance(st.value.func.value, ast.Name):
                x = st.value.func.value.id
                items = _update_items(st.value)
                if items and all(k is not None for k, _v in items) and not any(_reads_name(v, x) or _reads_name(k, x) for k, v in items):
                    repl = [ast.copy_location(ast.Assign(targets=[ast.copy_location(ast.Subscript(value=ast.copy_location(ast.Name(id=x, ctx=ast.Load()), st), slice=k, ctx=ast.Store()), st)], value=v), st) for k, v in items]
                    block[i:i + 1] = repl
                    changed = True
                    i += len(repl)
                    continue
            i += 1
    # a fresh list sorted in place right after it is bound -> sorted(..)
    for _node, block in list(blocks(new)):
        for i in range(len(block) - 1):
            st, nx = block[i], block[i + 1]
            tgt = st.targets[0] if isinstance(st, ast.Assign) and len(st.targets) == 1 else st.target if isinstance(st, ast.AnnAssign) and st.value is not None else None
            fresh = isinstance(tgt, ast.Name) and (isinstance(st.value, (ast.List, ast.ListComp)) or (isinstance(st.value, ast.Call) and isinstance(st.value.func, ast.Name) and st.value.func.id in ("list", "sorted") and "list" not in shadow))
            if fresh and isinstance(nx, ast.Expr) and isinstance(nx.value, ast.Call) and isinstance(nx.value.func, ast.Attribute) and nx.value.func.attr == "sort" and isinstance(nx.value.func.value, ast.Name) and nx.value.func.value.id == tgt.id \
                    and not nx.value.args and not any(_reads_name(k.value, tgt.id) for k in nx.value.keywords) and "sorted" not in shadow:
                st.value = ast.copy_location(ast.Call(func=ast.copy_location(ast.Name(id="sorted", ctx=ast.Load()), st.value), args=[st.value], keywords=nx.value.keywords), st.value)
                block[i + 1] = ast.copy_location(ast.Pass(), nx)
                changed = True
    for _node, block in list(blocks(new)):
        if len(block) > 1 and any(isinstance(x, ast.Pass) for x in block):
            block[:] = [x for x in block if not isinstance(x, ast.Pass)] or [block[0]]
    # a display followed by the stores that complete it -> one display
    for _node, block in list(blocks(new)):
        i = 0
        while i + 1 < len(block):
            st, nx = block[i], block[i + 1]
            tgt = st.targets[0] if isinstance(st, ast.Assign) and len(st.targets) == 1 else st.target if isinstance(st, ast.AnnAssign) and st.value is not None else None
            if not (isinstance(tgt, ast.Name) and isinstance(st.value, ast.Dict)):
                i += 1
                continue
            x, d = tgt.id, st.value
            if isinstance(nx, ast.Assign) and len(nx.targets) == 1 and isinstance(nx.targets[0], ast.Subscript) and isinstance(nx.targets[0].value, ast.Name) and nx.targets[0].value.id == x \
                    and isinstance(nx.targets[0].slice, ast.Constant) and not _reads_name(nx.value, x):
                # a key stored again replaces the earlier entry in place (a display keeps the position of the first)
                d.keys.append(nx.targets[0].slice)
                d.values.append(nx.value)
                del block[i + 1]
                changed = True
                continue
            if isinstance(nx, ast.Expr) and isinstance(nx.value, ast.Call) and isinstance(nx.value.func, ast.Attribute) and isinstance(nx.value.func.value, ast.Name) and nx.value.func.value.id == x:
                items = _update_items(nx.value)
                if items and len(items) == 1 and items[0][0] is None and not _reads_name(items[0][1], x):
                    d.keys.append(None)
                    d.values.append(items[0][1])
                    del block[i + 1]
                    changed = True
                    continue
            i += 1
    # loop bodies: guard-continue, named intermediate values
    _attach_parents(new)
    n_stores: Dict[str, int] = {}
    for n in ast.walk(new):
        if isinstance(n, ast.Name) and isinstance(n.ctx, (ast.Store, ast.Del)):
            n_stores[n.id] = n_stores.get(n.id, 0) + 1
    nested = {x.id for f in ast.walk(new) if isinstance(f, FuncNode + (ast.Lambda,)) and f is not new for x in ast.walk(f) if isinstance(x, ast.Name)}

    def in_loop(block_owner: ast.AST) -> bool:
        cur: Optional[ast.AST] = block_owner
        while cur is not None and cur is not new:
            if isinstance(cur, ast.For):
                return True
            if not isinstance(cur, ast.If):
                return False
            cur = parent(cur)
        return False

    again = True
    rounds = 0
    while again and rounds < 40:
        again = False
        rounds += 1
        for owner, block in list(blocks(new)):
            if not in_loop(owner):
                continue
            if isinstance(owner, ast.For) and block is not owner.body:
                continue
            for i, st in enumerate(block):
                if isinstance(st, ast.If) and not st.orelse and len(st.body) == 1 and isinstance(st.body[0], ast.Continue) and i + 1 < len(block):
                    t = st.test
                    st.test = t.operand if isinstance(t, ast.UnaryOp) and isinstance(t.op, ast.Not) else ast.copy_location(ast.UnaryOp(op=ast.Not(), operand=t), t)
                    st.body = block[i + 1:]
                    del block[i + 1:]
                    again = changed = True
                    break
                tgt = st.targets[0] if isinstance(st, ast.Assign) and len(st.targets) == 1 else st.target if isinstance(st, ast.AnnAssign) and st.value is not None else None
                if not isinstance(tgt, ast.Name) or n_stores.get(tgt.id, 0) != 1 or tgt.id in nested or tgt.id in all_params(new):
                    continue
                v, rhs = tgt.id, st.value
                if _purity(rhs) not in ("safe", "pure") or _reads_name(rhs, v):
                    continue
                later = block[i + 1:]
                uses = [x for x in ast.walk(new) if isinstance(x, ast.Name) and x.id == v and isinstance(x.ctx, ast.Load)]
                later_ids = {id(x) for s in later for x in ast.walk(s)}
                if not uses or not all(id(u) in later_ids for u in uses):
                    continue
                # the uses sit in the following statements, under `if`s only (same iteration, same exception region)
                ok = True
                for u in uses:
                    p = parent(u)
                    while p is not None and not any(p is s for s in later):
                        if isinstance(p, ast.stmt) and not isinstance(p, (ast.If, ast.Assign, ast.AnnAssign, ast.Expr, ast.Return, ast.AugAssign)):
                            ok = False
                        if isinstance(p, (ast.Lambda, ast.ListComp, ast.SetComp, ast.DictComp, ast.GeneratorExp)):
                            ok = False
                        p = parent(p)
                    if p is not None and not isinstance(p, (ast.If, ast.Assign, ast.AnnAssign, ast.Expr, ast.Return, ast.AugAssign)):
                        ok = False
                free = {x.id for x in ast.walk(rhs) if isinstance(x, ast.Name)}
                for s in later:
                    for x in ast.walk(s):
                        if isinstance(x, ast.Name) and isinstance(x.ctx, (ast.Store, ast.Del)) and x.id in free:
                            ok = False
                        if isinstance(x, (ast.Subscript, ast.Attribute)) and isinstance(x.ctx, (ast.Store, ast.Del)) and _root_name(x.value) in free:
                            ok = False
                        if isinstance(x, ast.Call) and isinstance(x.func, ast.Attribute) and x.func.attr in _MUT and _root_name(x.func.value) in free:
                            ok = False
                if not ok:
                    continue

                class S(ast.NodeTransformer):
                    def visit_Name(self, n: ast.Name):
                        return clone(rhs) if n.id == v and isinstance(n.ctx, ast.Load) else n

                for k, s in enumerate(later):
                    block[i + 1 + k] = S().visit(s)
                del block[i]
                n_stores[v] = 0
                _attach_parents(new)
                again = changed = True
                break
            if again:
                break
    if not changed:
        return fn
    ast.fix_missing_locations(new)
    _attach_parents(new)
    new._parent = parent(fn)  # type: ignore[attr-defined]
    if hasattr(fn, "_normal_of"):
        new._normal_of = fn._normal_of  # type: ignore[attr-defined]
    return new


def hoist_walrus(fn: ast.AST) -> ast.AST:
    """A copy of *fn* in which `if (x := E) is not None: ..` is `x = E; if x is not None: ..` (and the same for the value
    of a plain assignment / expression statement / return): an assignment expression that is evaluated unconditionally
    and before anything else of its statement that could have an effect or read *x* is bound by a statement of its own,
    so that the definition tables, the copy propagation and the value expansion see one spelling of `name a value,
    then test it`.  Not hoisted: `while` tests (evaluated again), operands behind `and` / `or` / a conditional
    expression, anything inside a comprehension or lambda (conditional / own scope), a walrus preceded in evaluation
    order by an operand that is not a constant or a (dotted) name, or by a read of its own target."""
    if not any(isinstance(x, ast.NamedExpr) for x in ast.walk(fn)):
        return fn
    new = clone(fn)
    changed = False

    def first_walrus(e: ast.AST, before: List[ast.AST]) -> Optional[ast.NamedExpr]:
        if isinstance(e, ast.NamedExpr):
            if isinstance(e.target, ast.Name) and not any(isinstance(x, ast.NamedExpr) for x in ast.walk(e.value)):
                return e
            return None
        if isinstance(e, ast.UnaryOp):
            kids = [e.operand]
        elif isinstance(e, ast.Compare):
            kids = [e.left] + list(e.comparators)
        elif isinstance(e, ast.BinOp):
            kids = [e.left, e.right]
        elif isinstance(e, ast.BoolOp):
            kids = [e.values[0]]
        elif isinstance(e, ast.IfExp):
            kids = [e.test]
        elif isinstance(e, ast.Attribute):
            kids = [e.value]
        elif isinstance(e, ast.Subscript):
            kids = [e.value, e.slice]
        elif isinstance(e, ast.Call):
            kids = [e.func] + list(e.args) + [k.value for k in e.keywords]
        elif isinstance(e, (ast.Tuple, ast.List)):
            kids = list(e.elts)
        else:
            return None
        for k in kids:
            if any(isinstance(x, ast.NamedExpr) for x in ast.walk(k)):
                return first_walrus(k, before)
            if not (isinstance(k, ast.Constant) or dotted_name(k) is not None):
                return None
            before.append(k)
        return None

    again = True
    rounds = 0
    while again and rounds < 200:
        again = False
        rounds += 1
        for node in list(ast.walk(new)):
            for field in ("body", "orelse", "finalbody"):
                block = getattr(node, field, None)
                if not (isinstance(block, list) and block and isinstance(block[0], ast.stmt)):
                    continue
                for i, st in enumerate(block):
                    if isinstance(st, ast.If):
                        host = st.test
                    elif isinstance(st, (ast.Assign, ast.AnnAssign, ast.Expr, ast.Return)) and getattr(st, "value", None) is not None:
                        host = st.value
                    else:
                        continue
                    if not any(isinstance(x, ast.NamedExpr) for x in ast.walk(host)):
                        continue
                    before: List[ast.AST] = []
                    w = first_walrus(host, before)
                    if w is None or any(isinstance(x, ast.Name) and x.id == w.target.id for b in before for x in ast.walk(b)):
                        continue
                    bind = ast.Assign(targets=[ast.Name(id=w.target.id, ctx=ast.Store())], value=w.value)
                    for y in [bind] + bind.targets:
                        ast.copy_location(y, st)
                    ref = ast.copy_location(ast.Name(id=w.target.id, ctx=ast.Load()), w)

                    class T(ast.NodeTransformer):
                        def visit_NamedExpr(self, n: ast.NamedExpr):
                            return ref if n is w else self.generic_visit(n)

                    if isinstance(st, ast.If):
                        st.test = T().visit(st.test)
                    else:
                        st.value = T().visit(st.value)
                    block.insert(i, bind)
                    again = changed = True
                    break
                if again:
                    break
            if again:
                break
    if not changed:
        return fn
    ast.fix_missing_locations(new)
    _attach_parents(new)
    new._parent = parent(fn)  # type: ignore[attr-defined]
    if hasattr(fn, "_normal_of"):
        new._normal_of = fn._normal_of  # type: ignore[attr-defined]
    return new


def lookup_canon(e: ast.AST, present: Set[Tuple[str, str]] = frozenset()) -> ast.AST:
    """*e* with the spellings of one mapping look-up written one way.  Without knowledge about the key:
    `M[K] if K in M else D` / `D if K not in M else M[K]` is `M.get(K, D)` and `M.get(K, None)` is `M.get(K)`.  For a
    pair (text of M, text of K) in *present* (the key is known to be in the mapping where *e* is evaluated) every one
    of them, and `M.get(K)` / `M.get(K, D)`, is `M[K]`."""

    def is_sub(x: ast.AST, m: str, k: str) -> bool:
        return isinstance(x, ast.Subscript) and ast.unparse(x.value) == m and ast.unparse(x.slice) == k

    class L(ast.NodeTransformer):
        def visit_IfExp(self, n: ast.IfExp):
            self.generic_visit(n)
            t = n.test
            neg = False
            if isinstance(t, ast.UnaryOp) and isinstance(t.op, ast.Not):
                t, neg = t.operand, True
            if isinstance(t, ast.Compare) and len(t.ops) == 1 and isinstance(t.ops[0], (ast.In, ast.NotIn)):
                if isinstance(t.ops[0], ast.NotIn):
                    neg = not neg
                k = ast.unparse(t.left)
                mexp = t.comparators[0]
                if isinstance(mexp, ast.Call) and isinstance(mexp.func, ast.Attribute) and mexp.func.attr == "keys" and not mexp.args:
                    mexp = mexp.func.value
                m = ast.unparse(mexp)
                hit, miss = (n.orelse, n.body) if neg else (n.body, n.orelse)
                if (m, k) in present:
                    return hit
                if is_sub(hit, m, k):
                    args = [clone(t.left)] + ([] if is_const(miss, None) else [miss])
                    return ast.copy_location(ast.Call(func=ast.Attribute(value=clone(mexp), attr="get", ctx=ast.Load()), args=args, keywords=[]), n)
            return n

        def visit_Call(self, n: ast.Call):
            self.generic_visit(n)
            if isinstance(n.func, ast.Attribute) and n.func.attr == "get" and 1 <= len(n.args) <= 2 and not n.keywords and not any(isinstance(a, ast.Starred) for a in n.args):
                m, k = ast.unparse(n.func.value), ast.unparse(n.args[0])
                if (m, k) in present:
                    return ast.copy_location(ast.Subscript(value=n.func.value, slice=n.args[0], ctx=ast.Load()), n)
                if len(n.args) == 2 and is_const(n.args[1], None):
                    n.args = n.args[:1]
            return n

    out = L().visit(clone(e))
    ast.fix_missing_locations(out)
    return out


def every_of(fn: ast.AST, e: Optional[ast.AST]) -> List[ast.AST]:
    """The expressions *e* can name: *e* itself, or (for a local bound more than once) every expression bound to it."""
    if e is None:
        return []
    if isinstance(e, ast.Name):
        _single, every = _def_table(fn)
        if e.id in every:
            n_stores = sum(1 for n in walk_no_nested(fn) if isinstance(n, ast.Name) and n.id == e.id and isinstance(n.ctx, (ast.Store, ast.Del)))
            return [expand(fn, v) for v in every[e.id]] if n_stores == len(every[e.id]) else []
    return [e]


def _root_name(e: ast.AST) -> Optional[str]:
    while isinstance(e, (ast.Subscript, ast.Attribute)):
        e = e.value
    return e.id if isinstance(e, ast.Name) else None


def dict_values(fn: ast.AST, e: Optional[ast.AST], key: str, _seen: Optional[Set[str]] = None) -> Optional[List[ast.AST]]:
    """Every expression entry *key* of the mapping denoted by *e* can hold in *fn*.  *e* is a dict display, a
    ``dict(k=v, ..)`` call, a conditional expression of such, or a local all of whose bindings are such (plus
    ``local[key] = v`` stores).  None when a binding or an in-place change of the local is not understood; an
    empty list when the mapping never has the key."""
    seen = _seen if _seen is not None else set()
    if e is None:
        return None
    if isinstance(e, ast.Dict):
        cur: List[ast.AST] = []
        for k, v in zip(e.keys, e.values):
            if k is None:
                # `**other`: an entry of *other* replaces what the display has so far (when *other* has one on every path -
                # not known here, so both stay candidates); a mapping that is not understood may hold anything
                inner = dict_values(fn, v, key, seen)
                if inner is None:
                    return None
                cur = cur + inner
            elif not isinstance(k, ast.Constant):
                return None
            elif k.value == key:
                cur = [v]
        return cur
    if isinstance(e, ast.Call) and isinstance(e.func, ast.Name) and e.func.id == "dict" and not e.args and all(k.arg for k in e.keywords):
        return [k.value for k in e.keywords if k.arg == key]
    if isinstance(e, ast.IfExp):
        a, b = dict_values(fn, e.body, key, seen), dict_values(fn, e.orelse, key, seen)
        return None if a is None or b is None else a + b
    if isinstance(e, ast.Name):
        if e.id in seen or e.id in all_params(fn):
            return None
        seen.add(e.id)
        _single, every = _def_table(fn)
        defs = every.get(e.id, [])
        n_stores = sum(1 for n in walk_no_nested(fn) if isinstance(n, ast.Name) and n.id == e.id and isinstance(n.ctx, (ast.Store, ast.Del)))
        if not defs or n_stores != len(defs):
            return None  # bound by a loop / with / except / augmented assignment
        out: List[ast.AST] = []
        for d in defs:
            vals = dict_values(fn, d, key, seen)
            if vals is None:
                return None
            out.extend(vals)
        for n in walk_no_nested(fn):
            if isinstance(n, (ast.Subscript, ast.Attribute)) and isinstance(n.ctx, (ast.Store, ast.Del)) and _root_name(n.value) == e.id:
                st = parent(n)
                if isinstance(n, ast.Subscript) and isinstance(n.ctx, ast.Store) and isinstance(n.value, ast.Name) and isinstance(n.slice, ast.Constant) and isinstance(st, ast.Assign) and n in st.targets:
                    if n.slice.value == key:
                        out.append(st.value)
                else:
                    return None
            if isinstance(n, ast.Call) and isinstance(n.func, ast.Attribute) and n.func.attr in _MUT and _root_name(n.func.value) == e.id:
                # `local.update({'k': v}, k2=v2)` / `local.update(<understood mapping>)` are stores under constant keys
                items = _update_items(n) if isinstance(n.func.value, ast.Name) and isinstance(parent(n), ast.Expr) else None
                if items is None:
                    return None
                for k, v in items:
                    if k is None:
                        inner = dict_values(fn, v, key, seen)
                        if inner is None:
                            return None
                        out.extend(inner)
                    elif not isinstance(k, ast.Constant):
                        return None
                    elif k.value == key:
                        out.append(v)
            if isinstance(n, ast.AugAssign) and _root_name(n.target) == e.id:
                return None
        return out
    return None


GETTER = "get_processing_parameter_names"


def getter_owners(repo: Repo, fn: ast.AST, e: Optional[ast.AST], depth: int = 0) -> Set[str]:
    """Texts P (locals of *fn* expanded) such that the value of *e* is computed from P's processing-parameter-name
    getter (``P.get_processing_parameter_names`` / ``getattr(P, 'get_processing_parameter_names', ..)``), read in
    *fn* itself or in a same-module helper whose result flows into *e* (the helper's parameters are replaced by the
    arguments of the call)."""
    out: Set[str] = set()
    mod = repo.module_of(getattr(fn, "_normal_of", fn))
    for x in closure(fn, e):
        for n in ast.walk(x):
            if isinstance(n, ast.Attribute) and n.attr == GETTER:
                out.add(txt(expand(fn, n.value)))
            elif isinstance(n, ast.Call) and call_name(n) == "getattr" and len(n.args) >= 2 and is_const(n.args[1], GETTER):
                out.add(txt(expand(fn, n.args[0])))
            elif isinstance(n, ast.Call) and depth < 3 and isinstance(n.func, (ast.Name, ast.Attribute)):
                try:
                    targets = repo.resolve_call(mod, n)
                except Exception:
                    targets = []
                targets = [(m, h) for m, h in targets if isinstance(h, ast.FunctionDef)]
                if len(targets) != 1 or targets[0][0] is not mod:
                    continue
                h = targets[0][1]
                binding = bind_args(n, h)
                rets = ast.Tuple(elts=[r.value for r in walk_no_nested(h) if isinstance(r, ast.Return) and r.value is not None], ctx=ast.Load())
                for owner in getter_owners(repo, h, rets, depth + 1):
                    try:
                        tree = ast.parse(owner, mode="eval").body
                    except SyntaxError:
                        continue
                    unbound = False

                    class B(ast.NodeTransformer):
                        def visit_Name(self, nm: ast.Name):
                            nonlocal unbound
                            if nm.id in all_params(h) and nm.id not in ("self", "cls"):
                                if nm.id not in binding:
                                    unbound = True
                                    return nm
                                return expand(fn, binding[nm.id])
                            return nm

                    new = B().visit(tree)
                    if not unbound:
                        out.add(txt(new))
    return out


# ---------------------------------------------------------------------------------------------------------
# D1 shape: the text that receives the designator Z is a complete RFC 3339 date-time at every instant
# ---------------------------------------------------------------------------------------------------------
_FULL_TIMESPEC = {"seconds", "milliseconds", "microseconds"}


def _iso_call(e: Optional[ast.AST]) -> Optional[ast.Call]:
    """*e* when it is `<datetime>.isoformat(..)` (a `str(..)` around it is transparent)."""
    while isinstance(e, ast.Call) and isinstance(e.func, ast.Name) and e.func.id == "str" and len(e.args) == 1:
        e = e.args[0]
    return e if isinstance(e, ast.Call) and call_attr(e) == "isoformat" and isinstance(e.func, ast.Attribute) else None


def _timespec(c: ast.Call) -> Optional[str]:
    """The constant timespec of an isoformat call; 'auto' when absent, None when it is not a constant."""
    ts = kwarg(c, "timespec") or (c.args[1] if len(c.args) > 1 else None)
    if ts is None:
        return "auto"
    return ts.value if isinstance(ts, ast.Constant) and isinstance(ts.value, str) else None


def _aware_receiver(fn: ast.AST, c: ast.Call) -> bool:
    """The datetime rendered by isoformat call *c* carries a UTC offset (read with a tz argument and not made naive)."""
    recv = expand(fn, c.func.value)
    aware = False
    for n in ast.walk(recv):
        if not isinstance(n, ast.Call):
            continue
        tail = (call_attr(n) or call_name(n) or "").split(".")[-1]
        if tail == "now" and (n.args or kwarg(n, "tz") is not None):
            aware = True
        elif tail == "fromtimestamp" and (len(n.args) > 1 or kwarg(n, "tz") is not None):
            aware = True
        elif tail == "astimezone":
            aware = True
    for n in ast.walk(recv):
        if isinstance(n, ast.Call) and call_attr(n) == "replace":
            tz = kwarg(n, "tzinfo")
            if isinstance(tz, ast.Constant) and tz.value is None:
                return False
    return aware


_PADDED_INT = re.compile(r"^(0?>)?0\d+d?$|^0>\d+d?$")


def _subsecond(fn: ast.AST, e: Optional[ast.AST]) -> bool:
    """*e* is computed from the sub-second part of a clock reading: the `.microsecond` field of a datetime, the
    fraction of an epoch value (`t % 1`, `math.modf(t)`)."""
    for y in closure(fn, e):
        for x in ast.walk(y):
            if isinstance(x, ast.Attribute) and x.attr == "microsecond":
                return True
            if isinstance(x, ast.BinOp) and isinstance(x.op, ast.Mod) and isinstance(x.right, ast.Constant) and x.right.value in (1, 1.0) and not isinstance(x.left, ast.Constant):
                return True
            if isinstance(x, ast.Call) and (call_name(x) or "").split(".")[-1] == "modf":
                return True
    return False


def fraction_rendering_problem(fn: ast.AST, z: ast.AST) -> Optional[str]:
    """Why the fraction of a second in the Z-labelled string *z* is not, at every instant, the digits of the true
    sub-second part (None: no objection).

    A component of a timestamp assembled by hand (`f'{now:%H:%M:%S}.{ms:03d}Z'`) is right only when the number rendered
    stays inside the component: the sub-second field cut down (floor: `// 1000`, `int(x / 1000)`, `%f`, a timespec) does,
    the field *rounded* (`round(..)`, a `.Nf` precision, `+ half` before the cut) reaches the next whole unit in the
    last half unit of every second and nothing carries it into the seconds (`58.9995` is written `58.1000`: read as RFC
    3339 that is 58.100, 0.9 s before the true instant and earlier than the stamps written before it).  Digits written
    without leading zeros (`.5` for 5 ms) denote another instant as well."""
    how = "reaches the next whole unit in the last half unit of every second and nothing carries it into the seconds: `..:58.9995` is written `..:58.1000Z` (read as RFC 3339: 58.100, 0.9 s before the true instant and earlier than the preceding stamps), so the timestamp is not the true instant and the stream is not non-decreasing"
    for s in closure(fn, z):
        for n in ast.walk(s):
            if isinstance(n, ast.Call) and isinstance(n.func, ast.Name) and n.func.id == "round" and n.args and _subsecond(fn, n.args[0]):
                return f"`{norm(n)[:60]}` rounds the sub-second field to the nearest unit: the result {how}"
            if isinstance(n, ast.FormattedValue) and n.format_spec is not None and _subsecond(fn, n.value) and any(isinstance(c, ast.Constant) and isinstance(c.value, str) and re.search(r"\.\d+[fFeEgG%]", c.value) for c in ast.walk(n.format_spec)):
                return f"the precision format `{txt(n)[:60]}` rounds the sub-second part: the rendered number {how}"
            if isinstance(n, ast.BinOp) and isinstance(n.op, ast.Mod) and isinstance(n.left, ast.Constant) and isinstance(n.left.value, str) and re.search(r"%[-#0 +]*\d*\.\d+[fFeEgG]", n.left.value) and _subsecond(fn, n.right):
                return f"the precision format `{txt(n)[:60]}` rounds the sub-second part: the rendered number {how}"
            if isinstance(n, ast.Call) and isinstance(n.func, ast.Attribute) and n.func.attr == "format" and isinstance(n.func.value, ast.Constant) and isinstance(n.func.value.value, str) and re.search(r"\{[^{}]*:[^{}]*\.\d+[fFeEgG%][^{}]*\}", n.func.value.value) and any(_subsecond(fn, a) for a in list(n.args) + [k.value for k in n.keywords]):
                return f"the precision format `{txt(n)[:60]}` rounds the sub-second part: the rendered number {how}"
            # `+ half a unit` before the cut: int(us / 1000 + 0.5), (us + 500) // 1000
            cut = n.args[0] if isinstance(n, ast.Call) and isinstance(n.func, ast.Name) and n.func.id == "int" and len(n.args) == 1 else n.left if isinstance(n, ast.BinOp) and isinstance(n.op, ast.FloorDiv) else None
            for c in ([expand(fn, cut)] if cut is not None else []):
                if isinstance(c, ast.BinOp) and isinstance(c.op, ast.Add):
                    for a, b in ((c.left, c.right), (c.right, c.left)):
                        if isinstance(b, ast.Constant) and isinstance(b.value, (int, float)) and not isinstance(b.value, bool) and b.value > 0 and _subsecond(fn, a):
                            return f"`{norm(n)[:60]}` adds {b.value} to the sub-second field before cutting it (round half up): the result {how}"
            if isinstance(n, ast.FormattedValue) and isinstance(n.value, (ast.BinOp, ast.Call, ast.Attribute, ast.Name)) and any(isinstance(x, ast.Attribute) and x.attr == "microsecond" for x in ast.walk(expand(fn, n.value))):
                spec = "".join(str(c.value) for c in (n.format_spec.values if n.format_spec is not None else []) if isinstance(c, ast.Constant)) if n.format_spec is None or all(isinstance(c, ast.Constant) for c in n.format_spec.values) else None
                if spec is not None and "%" not in spec and not _PADDED_INT.match(spec):
                    return f"`{txt(n)[:60]}` writes the digits of the sub-second field without leading zeros (format spec {spec!r}): 5 ms is written `.5`, which read as RFC 3339 is half a second"
    return None


def z_shape_problem(fn: ast.AST, z: ast.AST) -> Optional[str]:
    """Why the Z-labelled string *z* of *fn* is not an RFC 3339 date-time at every instant (None: no objection).

    `isoformat()` without a timespec renders no fraction when microsecond == 0, so its width depends on the
    instant: a positional cut of that text removes digits of the seconds (or the seconds) at such an instant.
    `isoformat()` of an aware datetime already ends in an offset; a timespec coarser than seconds drops them."""
    for s in closure(fn, z):
        for n in ast.walk(s):
            if isinstance(n, ast.Subscript) and isinstance(n.slice, ast.Slice):
                iso = _iso_call(expand(fn, n.value))
                if iso is not None and _timespec(iso) not in _FULL_TIMESPEC:
                    return f"`{norm(n)[:60]}` cuts the text of isoformat() by position although its width depends on the instant (no fraction is rendered when microsecond == 0): at such an instant the seconds are cut off, the string is not an RFC 3339 date-time and denotes an earlier minute"
    texts: List[ast.AST] = []
    if isinstance(z, ast.BinOp):
        texts = [z.left]
    elif isinstance(z, ast.JoinedStr):
        texts = [v.value for v in z.values if isinstance(v, ast.FormattedValue)]
    elif joined_parts(z) is not None:
        texts = [x for x in joined_parts(z) if not isinstance(x, ast.Constant)]
    swapped = _offset_to_z(z)
    if swapped is not None:
        texts = [swapped]
    for t in texts:
        iso = _iso_call(expand(fn, t))
        if iso is None:
            continue
        if _timespec(iso) in ("hours", "minutes"):
            return f"isoformat(timespec={_timespec(iso)!r}) renders no seconds: the Z-labelled string is not an RFC 3339 date-time"
        if swapped is None and _aware_receiver(fn, iso):
            return "isoformat() of an offset-aware datetime already ends in `+00:00`; with the designator Z appended the string is not an RFC 3339 date-time"
        if swapped is not None and not (_aware_receiver(fn, iso) and z.args[0].value == "+00:00"):
            return f"`{norm(z)[:60]}` finds no `{z.args[0].value}` to exchange (isoformat() of a naive datetime ends in no offset, that of a UTC-aware one in `+00:00`): the string carries neither offset nor designator and is not an RFC 3339 date-time"
        if _timespec(iso) == "auto":
            return ("isoformat() without a timespec renders no fraction when microsecond == 0, so the stamps are not of one width: `..:07Z` is written for ..:07.000000 and `..:07.000001Z` a microsecond later - "
                    "compared as strings, as the consumers of the stream compare them, the later stamp sorts first (`.` < `Z`), so the stream is not non-decreasing, and the record does not have the documented fixed form; render with an explicit timespec")
    return None


# ---------------------------------------------------------------------------------------------------------
# D1 one resolution: the fixed-width template of a stamp, and the digits of the fraction of a second it carries
# ---------------------------------------------------------------------------------------------------------
_STRFTIME_WIDTH = {"Y": "9999", "m": "99", "d": "99", "H": "99", "M": "99", "S": "99", "f": "ffffff", "y": "99", "j": "999", "%": "%"}
_ISO_FRACTION = {"seconds": "", "milliseconds": ".fff", "microseconds": ".ffffff"}
_STAMP_SHAPE = re.compile(r"^9{4}-99-99[Tt _]99:99:99(\.([9f]+))?Z$")


def _strftime_template(fmt: str) -> Optional[str]:
    """The text `strftime(fmt)` renders with every digit replaced by its class (`9`, `f` for the microsecond field);
    None when a directive has no fixed numeric width (names, offsets, platform padding flags)."""
    out, i = [], 0
    while i < len(fmt):
        ch = fmt[i]
        if ch != "%":
            out.append(ch)
            i += 1
            continue
        d = fmt[i + 1:i + 2]
        if d not in _STRFTIME_WIDTH:
            return None
        out.append(_STRFTIME_WIDTH[d])
        i += 2
    return "".join(out)


def _int_const(e: Optional[ast.AST]) -> Tuple[bool, Optional[int]]:
    """(readable, value) of a slice bound: absent, an int constant or its negation."""
    if e is None:
        return True, None
    if isinstance(e, ast.UnaryOp) and isinstance(e.op, ast.USub) and isinstance(e.operand, ast.Constant) and type(e.operand.value) is int:
        return True, -e.operand.value
    if isinstance(e, ast.Constant) and type(e.value) is int:
        return True, e.value
    return False, None


def stamp_template(fn: ast.AST, e: Optional[ast.AST], depth: int = 0) -> Optional[str]:
    """The text that expression *e* of *fn* renders from a clock reading, with every digit replaced by its class (`9`;
    `f` for the digits of the microsecond field), when that text has one width at every instant: renderings by
    `isoformat` with an explicit timespec, `strftime`, format specs with strftime directives, zero-padded integers,
    constant pieces, concatenation / f-string / `format` / `%` / `join`, positional cuts with constant bounds and
    constant-for-constant `replace`.  None when the width (or the shape) cannot be read from the code."""
    if e is None or depth > 12:
        return None
    if depth == 0:
        e = expand(fn, e)
    while isinstance(e, ast.Call) and isinstance(e.func, ast.Name) and e.func.id == "str" and len(e.args) == 1 and not e.keywords:
        e = e.args[0]
    if isinstance(e, ast.Constant):
        return e.value if isinstance(e.value, str) else None
    if isinstance(e, ast.BinOp) and isinstance(e.op, ast.Add):
        a, b = stamp_template(fn, e.left, depth + 1), stamp_template(fn, e.right, depth + 1)
        return a + b if a is not None and b is not None else None
    if isinstance(e, ast.JoinedStr):
        out = []
        for v in e.values:
            if isinstance(v, ast.Constant):
                out.append(str(v.value))
                continue
            if not isinstance(v, ast.FormattedValue) or v.conversion not in (-1, 115):
                return None
            if v.format_spec is None:
                t = stamp_template(fn, v.value, depth + 1)
            else:
                if not all(isinstance(c, ast.Constant) and isinstance(c.value, str) for c in v.format_spec.values):
                    return None
                spec = "".join(c.value for c in v.format_spec.values)
                if "%" in spec:
                    t = _strftime_template(spec)
                elif _PADDED_INT.match(spec):
                    t = "9" * int(re.sub(r"\D", "", spec) or 0)
                else:
                    t = None
            if t is None:
                return None
            out.append(t)
        return "".join(out)
    if isinstance(e, ast.IfExp):
        a, b = stamp_template(fn, e.body, depth + 1), stamp_template(fn, e.orelse, depth + 1)
        return a if a is not None and a == b else None
    if isinstance(e, ast.Subscript) and isinstance(e.slice, ast.Slice):
        t = stamp_template(fn, e.value, depth + 1)
        bounds = [_int_const(b) for b in (e.slice.lower, e.slice.upper, e.slice.step)]
        if t is None or not all(ok for ok, _v in bounds):
            return None
        return t[slice(*[v for _ok, v in bounds])]
    parts = joined_parts(e) if isinstance(e, (ast.Call, ast.BinOp)) else None
    if parts is not None:
        ts = [stamp_template(fn, p, depth + 1) for p in parts]
        return "".join(ts) if all(t is not None for t in ts) else None
    if isinstance(e, ast.Call) and isinstance(e.func, ast.Attribute):
        m = e.func.attr
        if m == "replace" and not e.keywords and len(e.args) == 2 and all(isinstance(a, ast.Constant) and isinstance(a.value, str) for a in e.args):
            t = stamp_template(fn, e.func.value, depth + 1)
            return t.replace(e.args[0].value, e.args[1].value) if t is not None else None
        if m == "isoformat":
            spec = _timespec(e)
            sep = kwarg(e, "sep") or (e.args[0] if e.args else None)
            if spec not in _ISO_FRACTION or not (sep is None or (isinstance(sep, ast.Constant) and isinstance(sep.value, str) and len(sep.value) == 1)):
                return None  # auto (width depends on the instant), hours / minutes, or not a constant: no fixed template
            return "9999-99-99" + (sep.value if sep is not None else "T") + "99:99:99" + _ISO_FRACTION[spec] + ("+00:00" if _aware_receiver(fn, e) else "")
        if m == "strftime" and len(e.args) == 1 and not e.keywords and isinstance(e.args[0], ast.Constant) and isinstance(e.args[0].value, str):
            return _strftime_template(e.args[0].value)
    return None


def fraction_digits(fn: ast.AST, z: ast.AST) -> Optional[int]:
    """How many digits of the fraction of a second the Z-labelled string *z* carries at every instant (0: whole seconds);
    None when the rendering has no fixed template this analysis can read (other rules judge its shape)."""
    t = stamp_template(fn, z)
    m = _STAMP_SHAPE.match(t) if t is not None else None
    if m is None:
        return None
    return len(m.group(2) or "")


_RESOLUTION_NAME = {0: "whole seconds", 3: "milliseconds", 6: "microseconds"}


def check_one_resolution(R: Report, rule: str, stamps: List[Tuple[str, str, ast.AST, Optional[int]]]) -> None:
    """All stamp producers of the trace stream cut the clock reading at the same resolution.

    A trace stream interleaves the stamps of its producers in both orders (lifecycle record -> SER timing at the head
    of a run, SER timing -> lifecycle record at its end).  Each stamp is the true instant cut down to its last digit; a
    stamp cut at a coarser unit that follows a finer one read in the same coarse unit denotes an earlier instant
    (`..40.000250Z` then `..40.000Z`), so `non-decreasing along the stream` holds on every host only when all producers
    render the same number of digits of the fraction of a second."""
    known = [(rel, qn, z, d) for rel, qn, z, d in stamps if d is not None]
    if not known:
        return  # no instance: the rule's minimum turns this into an ANALYSIS-ERROR
    coarse = min(known, key=lambda s: s[3])
    for rel, qn, z, d in known:
        unit = _RESOLUTION_NAME.get(d, f"{d} digits")
        if d == coarse[3]:
            R.ok(rule, rel, qn, norm(stmt_of(z))[:110], f"fraction of a second: {d} digits ({unit})", z.lineno)
            continue
        R.violation(
            rule, rel, qn, norm(stmt_of(z))[:110],
            f"this producer stamps records with {d} digits of the fraction of a second ({unit}) while `{coarse[1]}` ({coarse[0]}:{coarse[2].lineno}) stamps records of the same stream with {coarse[3]} "
            f"({_RESOLUTION_NAME.get(coarse[3], str(coarse[3]) + ' digits')}): every stamp is the clock reading cut down to its last digit, and the stream interleaves the two kinds in both orders "
            "(lifecycle record -> SER timing at the head of a run, SER timing -> lifecycle record at its end), so a coarser stamp written after a finer one within the same coarse unit denotes an earlier instant "
            "(`..40.000250Z` followed by `..40.000Z`): timestamps are not non-decreasing along the stream",
            z.lineno,
        )


# ---------------------------------------------------------------------------------------------------------
# D5 one encoding: values of JSON-native types reach their bytes through the canonical JSON encoder only
# ---------------------------------------------------------------------------------------------------------
_BUFFER_TYPES = {"bytes", "bytearray", "memoryview"}
_JSON_NATIVE = {"str", "int", "float", "bool", "list", "tuple", "dict", "NoneType", "Mapping", "Sequence", "Number"}


def _type_names(t: ast.AST) -> Set[str]:
    elts = t.elts if isinstance(t, (ast.Tuple, ast.List)) else [t]
    out: Set[str] = set()
    for e in elts:
        d = dotted_name(e)
        if d is None and isinstance(e, ast.Call) and call_name(e) == "type" and len(e.args) == 1 and is_const(e.args[0], None):
            d = "NoneType"
        out.add((d or ast.unparse(e)).split(".")[-1])
    return out


def _renders_as_text(v: ast.AST, p: str) -> Optional[str]:
    """A sub-expression of *v* that renders parameter *p* itself as text (`p.encode()`, `str(p)`, f'{p}', ..)."""
    for n in ast.walk(v):
        if isinstance(n, ast.Call) and isinstance(n.func, ast.Attribute) and n.func.attr == "encode" and dotted_name(n.func.value) == p:
            return norm(n)
        if isinstance(n, ast.Call) and isinstance(n.func, ast.Name) and n.func.id in ("str", "repr", "format", "ascii") and n.args and dotted_name(n.args[0]) == p:
            return norm(n)
        if isinstance(n, ast.Call) and isinstance(n.func, ast.Attribute) and n.func.attr in ("__str__", "__repr__", "__format__") and dotted_name(n.func.value) == p:
            return norm(n)
        if isinstance(n, ast.FormattedValue) and dotted_name(n.value) == p:
            return f"f'{{{p}}}'"
        if isinstance(n, ast.BinOp) and isinstance(n.op, ast.Mod) and isinstance(n.left, ast.Constant) and isinstance(n.left.value, (str, bytes)) and any(isinstance(x, ast.Name) and x.id == p for x in ast.walk(n.right)):
            return norm(n)
    return None


def _raw_image(v: ast.AST, p: str) -> Optional[Tuple[ast.AST, str]]:
    """(source, text) when *v* is the raw memory image / bytes() construction of an expression that reads parameter *p*
    and nothing else: `bytes(x)`, `bytearray(x)`, `memoryview(x).tobytes()`, `x.tobytes()`, `bytes(memoryview(x))`, with
    x = p or a cast / slice of it.  *source* is the innermost expression the image is taken of."""
    how = txt(v)
    cur = v
    seen = False
    while True:
        if isinstance(cur, ast.Call) and call_name(cur) in ("bytes", "bytearray", "memoryview") and len(cur.args) == 1 and not cur.keywords:
            seen = seen or call_name(cur) != "memoryview"
            cur = cur.args[0]
        elif isinstance(cur, ast.Call) and isinstance(cur.func, ast.Attribute) and cur.func.attr in ("tobytes", "tostring") and not cur.keywords:
            seen = True
            cur = cur.func.value
        elif isinstance(cur, ast.Call) and isinstance(cur.func, ast.Attribute) and cur.func.attr in ("cast", "toreadonly"):
            cur = cur.func.value
        elif isinstance(cur, ast.Subscript) and isinstance(cur.slice, ast.Slice):
            cur = cur.value
        else:
            break
    if seen and dotted_name(cur) is not None and (dotted_name(cur) or "").split(".")[0] == p:
        return cur, how
    if seen and isinstance(cur, ast.Name):
        return cur, how
    return None


def _branches(vals: List[ast.AST]) -> List[ast.AST]:
    """The alternatives of conditional expressions, flattened."""
    out: List[ast.AST] = []
    for v in vals:
        if isinstance(v, ast.IfExp):
            out.extend(_branches([v.body, v.orelse]))
        elif not is_const(v, None):
            out.append(v)
    return out


_NATIVE_BUILTINS = {"str": str, "int": int, "float": float, "bool": bool, "list": list, "tuple": tuple, "dict": dict, "NoneType": type(None)}


# whole-content: what is hashed / compared is a rendering of the whole value ---------------------------------
_SUMMARISERS = {"len": "its length", "id": "its address", "hash": "its (per-process salted) hash", "type": "its type"}
_ABBREVIATORS = {"reprlib.repr", "reprlib.Repr.repr", "textwrap.shorten", "pprint.saferepr"}
_PRECISION_PCT = re.compile(r"%[-#0 +]*\d*\.\d+[a-zA-Z]")
_PRECISION_BRACE = re.compile(r"\{[^{}]*:[^{}]*\.\d+[^{}]*\}")


def _reads(fn: ast.AST, e: Optional[ast.AST], p: str) -> bool:
    """*e* is computed from the local / parameter *p* of *fn* (through any chain of assignments)."""
    return e is not None and any(isinstance(x, ast.Name) and x.id == p for y in closure(fn, e) for x in ast.walk(y))


def _qualified(mod, call: ast.Call) -> str:
    """Dotted name of the called function with the head resolved through the imports of *mod*."""
    d = call_name(call) or ""
    head, _, rest = d.partition(".")
    target = mod.imports.get(head) if head else None
    return (target + ("." + rest if rest else "")) if target else d


def _repo_callees(repo: Repo, mod, fn: ast.AST, call: ast.Call) -> List[Tuple[object, ast.AST]]:
    """Plain functions of the repo that *call* (found in *fn*) invokes; nothing for a name bound locally."""
    f = call.func
    if isinstance(f, ast.Name) and (f.id in all_params(fn) or f.id in _def_table(fn)[1]):
        return []
    try:
        targets = repo.resolve_call(mod, call)
    except Exception:
        targets = []
    if not targets and not any(isinstance(a, ast.Module) for a in ancestors(call)):
        # a detached copy (locals expanded): module-level defs and imports of *mod*
        d = dotted_name(f)
        if d and isinstance(mod.defs.get(d), ast.FunctionDef):
            targets = [(mod, mod.defs[d])]
        elif d and mod.imports.get(d.split(".")[0]):
            r = repo.resolve_dotted(".".join([mod.imports[d.split(".")[0]]] + d.split(".")[1:]))
            targets = [r] if r is not None else []
    return [(m, t) for m, t in targets if isinstance(t, (ast.FunctionDef, ast.AsyncFunctionDef))]


def _plain_form(repo: Repo, m, f: ast.AST) -> ast.AST:
    try:
        return normalize(repo, m, hoist_walrus(f), inline=False, copyprop="", ifexp=False)
    except AnalysisError:
        raise
    except Exception:
        return f


def _failed_rendering_path(n: ast.AST, p: str) -> bool:
    """*n* sits in the handler of a `try` whose body renders *p* with repr(): the path of an object that cannot be
    rendered at all (its `__repr__` raised).  Placeholders on that path are not judged."""
    for a in ancestors(n):
        if isinstance(a, ast.ExceptHandler):
            t = parent(a)
            if isinstance(t, ast.Try) and any(isinstance(c, ast.Call) and isinstance(c.func, ast.Name) and c.func.id == "repr" and c.args and dotted_name(c.args[0]) == p for st in t.body for c in ast.walk(st)):
                return True
    return False


def _chunk_of_walk(n: ast.Subscript) -> bool:
    """`X[i:i + N]` inside `for i in range(0, len(X), N)`: one chunk of a walk over the whole of X, not a cut."""
    sl = n.slice
    if not (isinstance(sl, ast.Slice) and sl.step is None and isinstance(sl.lower, ast.Name) and isinstance(sl.upper, ast.BinOp) and isinstance(sl.upper.op, ast.Add)):
        return False
    i, X = sl.lower.id, ast.unparse(n.value)
    sides = [sl.upper.left, sl.upper.right]
    step = [x for x in sides if not (isinstance(x, ast.Name) and x.id == i)]
    if len(step) != 1:
        return False
    for a in ancestors(n):
        if isinstance(a, ast.For) and isinstance(a.target, ast.Name) and a.target.id == i and isinstance(a.iter, ast.Call) and call_name(a.iter) == "range" and len(a.iter.args) == 3 and not a.iter.keywords:
            lo, hi, st = a.iter.args
            stored = [x for b in a.body for x in ast.walk(b) if isinstance(x, ast.Name) and isinstance(x.ctx, ast.Store) and x.id in (i, X)]
            return is_const(lo, 0) and ast.unparse(hi) == f"len({X})" and ast.unparse(st) == ast.unparse(step[0]) and not stored and not any(isinstance(x, (ast.Break, ast.Return)) for b in a.body for x in ast.walk(b))
    return False


def content_loss(repo: Repo, mod, fn: ast.AST, e: Optional[ast.AST], p: str, depth: int = 0, seen: Optional[Set[int]] = None) -> Optional[Tuple[str, str, str, int]]:
    """(what, file, function, line) of the first construct on the way from *p* (a parameter / local of *fn*) to the
    expression *e* that lets go of a part of the value: a positional cut of a rendering of the value, a renderer that
    abbreviates, a precision in a format, or a summary (len / id / hash / type) standing in for the value.  Calls of repo
    functions that receive the value are followed into their returns.  None when nothing of the kind is on the way."""
    if e is None or depth > 3:
        return None
    seen = seen if seen is not None else set()
    rel, qn = mod.rel, qualname_of(getattr(fn, "_normal_of", fn))
    exprs = closure(fn, e)
    if not any(isinstance(x, ast.Name) and x.id == p for y in exprs for x in ast.walk(y)):
        return None
    for y in exprs:
        for n in ast.walk(y):
            line = getattr(n, "lineno", getattr(fn, "lineno", 0))
            if isinstance(n, ast.Subscript) and isinstance(n.slice, ast.Slice) and isinstance(n.ctx, ast.Load) and not (n.slice.lower is None and n.slice.upper is None and n.slice.step is None) and not _chunk_of_walk(n) and _reads(fn, n.value, p):
                return (f"`{txt(n)[:60]}` keeps a positional part of a rendering of the value and drops the rest", rel, qn, line)
            if isinstance(n, ast.FormattedValue) and n.format_spec is not None and _reads(fn, n.value, p) and any(isinstance(c, ast.Constant) and isinstance(c.value, str) and re.search(r"\.\d+", c.value) for c in ast.walk(n.format_spec)):
                return (f"the format `{txt(n)[:60]}` renders the value with a precision (cut to a fixed number of characters / digits)", rel, qn, line)
            if isinstance(n, ast.BinOp) and isinstance(n.op, ast.Mod) and isinstance(n.left, ast.Constant) and isinstance(n.left.value, (str, bytes)) and _reads(fn, n.right, p):
                spec = n.left.value if isinstance(n.left.value, str) else n.left.value.decode("latin-1")
                if _PRECISION_PCT.search(spec):
                    return (f"the format `{txt(n)[:60]}` renders the value with a precision (cut to a fixed number of characters / digits)", rel, qn, line)
            if not isinstance(n, ast.Call):
                continue
            args = [a.value if isinstance(a, ast.Starred) else a for a in n.args] + [k.value for k in n.keywords]
            if isinstance(n.func, ast.Attribute) and n.func.attr == "format" and isinstance(n.func.value, ast.Constant) and isinstance(n.func.value.value, str) and _PRECISION_BRACE.search(n.func.value.value) and any(_reads(fn, a, p) for a in args):
                return (f"the format `{txt(n)[:60]}` renders the value with a precision (cut to a fixed number of characters / digits)", rel, qn, line)
            if not any(_reads(fn, a, p) for a in args):
                continue
            if _qualified(mod, n) in _ABBREVIATORS:
                return (f"`{txt(n)[:60]}` is a renderer that abbreviates long values (elides everything beyond a size limit)", rel, qn, line)
            for m2, t in _repo_callees(repo, mod, fn, n):
                if id(t) in seen:
                    continue
                seen.add(id(t))
                f2 = _plain_form(repo, m2, t)
                for q, a in bind_args(n, f2).items():
                    if not _reads(fn, a, p):
                        continue
                    for r in [r for r in walk_no_nested(f2) if isinstance(r, ast.Return) and r.value is not None]:
                        inner = content_loss(repo, m2, f2, r.value, q, depth + 1, seen)
                        if inner is not None:
                            return (f"`{txt(n)[:50]}`: {inner[0]}", inner[1], inner[2], inner[3])
    # a summary standing in for the value: every read of the value on the way is the operand of len / id / hash / type
    plain = 0
    summaries: List[Tuple[str, ast.AST]] = []

    def visit(x: ast.AST) -> None:
        nonlocal plain
        if isinstance(x, ast.Call) and isinstance(x.func, ast.Name) and x.func.id in _SUMMARISERS and len(x.args) == 1 and not x.keywords and dotted_name(x.args[0]) == p:
            summaries.append((x.func.id, x))
            return
        if isinstance(x, ast.Name) and x.id == p and isinstance(x.ctx, ast.Load):
            plain += 1
        for c in ast.iter_child_nodes(x):
            visit(c)

    for y in exprs:
        if not _failed_rendering_path(y, p):
            visit(y)
    if summaries and not plain:
        kind, node = summaries[0]
        return (f"`{txt(node)}` stands in for the value: only {_SUMMARISERS[kind]} reaches the bytes, values that differ in content are not told apart" + (" and equal contents are" if kind in ("id", "hash") else ""), rel, qn, getattr(node, "lineno", getattr(fn, "lineno", 0)))
    return None


def _repr_like(repo: Repo, mod, fn: ast.AST, e: Optional[ast.AST], p: str, depth: int = 0) -> bool:
    """*e* is the full repr() text of *p*: `repr(p)` itself, or a repo function of *p* whose every return is one
    (placeholders on the path where repr() itself raised aside)."""
    if e is None or depth > 3:
        return False
    if isinstance(e, ast.Call) and isinstance(e.func, ast.Name) and e.func.id == "repr" and len(e.args) == 1 and not e.keywords and dotted_name(e.args[0]) == p and not _repo_callees(repo, mod, fn, e) and "repr" not in mod.imports:
        return True
    if not isinstance(e, ast.Call):
        return False
    targets = _repo_callees(repo, mod, fn, e)
    if len(targets) != 1:
        return False
    m2, t = targets[0]
    f2 = _plain_form(repo, m2, t)
    qs = [q for q, a in bind_args(e, f2).items() if dotted_name(a) == p]
    if len(qs) != 1:
        return False
    q = qs[0]
    rets = [r for r in walk_no_nested(f2) if isinstance(r, ast.Return)]
    n_full = 0
    for r in rets:
        if r.value is None:
            return False
        if isinstance(r.value, ast.Name) and r.value.id in _def_table(f2)[1]:
            if not every_of(f2, r.value):  # also bound by something that is not a plain assignment
                return False
            cands = [(s, s) for s in _def_table(f2)[1][r.value.id]]  # (where it is bound, what is bound)
        else:
            cands = [(r, r.value)]
        for site, v in cands:
            if _repr_like(repo, m2, f2, expand(f2, v), q, depth + 1):
                n_full += 1
            elif not (_failed_rendering_path(site, q) and isinstance(v, (ast.Constant, ast.JoinedStr))):
                return False
    return n_full > 0


def serialize_encoders(repo: Repo, R: Report, rule: str, rule_whole: Optional[str] = None) -> None:
    """Every way `serialize` (and the helpers whose result it returns) turns a value into bytes.

    `_stable_equal` decides `updated_keys` by comparing these bytes and the data digests hash them, so two different
    values must not share an encoding.  Values of the JSON-native types all go through `canonical_json_bytes`
    (one encoder, which quotes text and so keeps '300' and 300 apart); the only other producers allowed are the
    object's own bytes (`bytes(x)` of an x known to be bytes / bytearray / memoryview) and the repr last resort
    inside an exception handler.  A branch that takes a JSON-native type out of the canonical encoder, or renders
    the value itself as text, makes a text value collide with the value whose JSON spelling it is."""
    mod = repo.module(UTILS)
    start = repo.func(UTILS, "serialize")
    chain: List[Tuple[ast.AST, bool]] = []
    todo: List[Tuple[ast.AST, bool]] = [(start, False)]  # (function, reached only from inside an exception handler)
    n_prod = 0
    while todo:
        raw, inherited = todo.pop(0)
        if any(raw is c and (inherited or not h) for c, h in chain):
            continue
        chain.append((raw, inherited))
        try:
            fn = normalize(repo, mod, hoist_walrus(raw), inline=False, copyprop="", ifexp=False)
        except AnalysisError:
            raise
        except Exception:
            fn = raw
        qn = qualname_of(raw)
        pp = pos_params(fn)
        if not pp:
            raise AnalysisError(f"{qn}: the serialised value is not a parameter")
        p = pp[0]
        g = CFG(fn)
        for r in [r for r in walk_no_nested(fn) if isinstance(r, ast.Return) and r.value is not None and not is_const(r.value, None)]:
            ids = g.nodes_for(r)
            conds = dominating_conditions(g, fn, ids[0]) if ids else []
            native: Set[str] = set()
            buffers: Set[str] = set()  # texts X with a dominating isinstance(X, <bytes-like types only>)
            for c in conds:
                if isinstance(c, ast.Call) and call_name(c) == "isinstance" and len(c.args) == 2:
                    names = _type_names(c.args[1])
                    if dotted_name(c.args[0]) == p:
                        native |= names & _JSON_NATIVE
                    if names and names <= _BUFFER_TYPES:
                        buffers.add(txt(c.args[0]))
            handler = inherited or any(isinstance(a, ast.ExceptHandler) for a in ancestors(r))
            where = norm(r)[:100]
            produced = _branches([x for x in (every_of(fn, expand(fn, r.value)) or [expand(fn, r.value)])])
            if rule_whole is not None:
                # helpers whose result is returned as it is are links of the chain: looked at in their own turn, not from here
                links = {id(mod.defs[v.func.id]) for v in produced if isinstance(v, ast.Call) and isinstance(v.func, ast.Name) and isinstance(mod.defs.get(v.func.id), ast.FunctionDef) and v.func.id not in all_params(fn)}
                loss = content_loss(repo, mod, fn, r.value, p, seen=links)
                if loss is None:
                    for c in [c for c in ast.walk(r.value) if isinstance(c, ast.Call) and call_name(c) == "json.dumps" and kwarg(c, "default") is not None]:
                        # the function json.dumps() hands every non-JSON object to: what it returns is what gets encoded
                        for m2, t in _repo_callees(repo, mod, fn, ast.Call(func=kwarg(c, "default"), args=[], keywords=[])):
                            f2 = _plain_form(repo, m2, t)
                            q = (pos_params(f2) or [None])[0]
                            for r2 in [x for x in walk_no_nested(f2) if isinstance(x, ast.Return) and x.value is not None]:
                                loss = loss or (content_loss(repo, m2, f2, r2.value, q) if q else None)
                if loss is not None:
                    n_prod += 1
                    R.violation(rule_whole, loss[1], loss[2], where, f"{loss[0]}: the bytes that are hashed into the digests (and compared to decide updated_keys) are not a rendering of the whole value, so contents that differ only in the dropped part share a digest and a rewrite of that part is reported as unchanged", loss[3])
                    continue
                R.ok(rule_whole, UTILS, qn, where, "the bytes are computed from the whole value (no cut, abbreviation, precision or summary on the way)", r.lineno)
            for v in produced:
                n_prod += 1
                if isinstance(v, ast.Call) and (call_name(v) or "").split(".")[-1] == "canonical_json_bytes" and qn != "canonical_json_bytes":
                    R.ok(rule, UTILS, qn, where, "canonical JSON", r.lineno)
                    todo.append((repo.func(UTILS, "canonical_json_bytes"), handler))
                    continue
                if not native and any(isinstance(c, ast.Call) and call_name(c) == "json.dumps" and c.args and dotted_name(c.args[0]) == p for c in ast.walk(v)):
                    R.ok(rule, UTILS, qn, where, "the JSON text of the value (quotes text, spells numbers / null / containers unquoted)", r.lineno)
                    continue
                if isinstance(v, ast.Call) and isinstance(v.func, ast.Name):
                    local_def = mod.defs.get(v.func.id)
                    targets = [local_def] if isinstance(local_def, ast.FunctionDef) and v.func.id not in all_params(fn) else []
                    if len(targets) == 1:
                        todo.append((targets[0], handler))
                        R.ok(rule, UTILS, qn, where, f"delegates to {targets[0].name}", r.lineno)
                        continue
                if not native and isinstance(v, ast.Call) and call_name(v) == "bytes" and len(v.args) == 1 and not v.keywords and txt(v.args[0]) in buffers:
                    # bytes obtained by calling a method of the value (`b = obj.to_bytes()`): a JSON-native builtin type
                    # that happens to have that method (int.to_bytes() gives one raw byte for 0..255) would leave the
                    # canonical encoder through this door unless a dominating guard excludes it
                    leak: Set[str] = set()
                    meth = None
                    srcs = assigned_value(fn, v.args[0].id) if isinstance(v.args[0], ast.Name) else [v.args[0]]
                    for sv in srcs:
                        if isinstance(sv, ast.Call) and isinstance(sv.func, ast.Attribute) and dotted_name(sv.func.value) == p:
                            meth = sv.func.attr
                            have = {n for n, t in _NATIVE_BUILTINS.items() if hasattr(t, meth)}
                            excluded: Set[str] = set()
                            for c in conds:
                                if isinstance(c, ast.UnaryOp) and isinstance(c.op, ast.Not) and isinstance(c.operand, ast.Call) and call_name(c.operand) == "isinstance" and len(c.operand.args) == 2 and dotted_name(c.operand.args[0]) == p:
                                    excluded |= _type_names(c.operand.args[1])
                            if "int" in excluded:
                                excluded.add("bool")
                            leak |= have - excluded
                    if leak:
                        R.violation(rule, UTILS, qn, where, f"a value of type {'/'.join(sorted(leak))} has a `{meth}` method of its own, so it is turned into bytes here instead of by the canonical JSON encoder (int.to_bytes() yields one raw byte for 0..255: 65 and b'A', 1 and True get the same bytes): _stable_equal misses such a rewrite and different contents share a digest", r.lineno)
                        continue
                    R.ok(rule, UTILS, qn, where, "the bytes-like object's own bytes", r.lineno)
                    continue
                raw = _raw_image(v, p)
                if raw is not None and not native:
                    src, how = raw
                    if txt(src) in buffers:
                        R.ok(rule, UTILS, qn, where, "the bytes-like object's own bytes", r.lineno)
                        continue
                    R.violation(rule, UTILS, qn, where, f"`{how[:60]}` turns the value into bytes by copying its memory (or by the bytes() constructor) without a dominating test that it is a bytes / bytearray / memoryview object: the raw image of a buffer-exporting value has no shape, element type or class (a 6-element array, its 2x3 layout and its float view of the same memory get the same bytes; bytes(3) is three zero bytes, bytes([0, 0, 0]) too), so different contents share a digest and _stable_equal reports such a rewrite as unchanged (updated_keys misses the key)", r.lineno)
                    continue
                text = _renders_as_text(v, p)
                if text is None and any(isinstance(c, ast.Call) and _repr_like(repo, mod, fn, c, p) for c in ast.walk(v)):
                    text = "repr() through a helper that returns the full text"
                if handler and not native and text is not None and text.startswith("repr("):
                    R.ok(rule, UTILS, qn, where, "repr last resort inside an exception handler", r.lineno)
                    continue
                if native:
                    R.violation(rule, UTILS, qn, where, f"a value of type {'/'.join(sorted(native))} is turned into bytes by `{txt(v)[:60]}` instead of the canonical JSON encoder: its bytes equal the canonical JSON of another value (the text '300' and the number 300, 'null' and None, '[1,2]' and [1, 2]), so _stable_equal reports such a rewrite as unchanged (updated_keys misses the key) and different contents share a digest", r.lineno)
                    continue
                if text is not None:
                    R.violation(rule, UTILS, qn, where, f"`{text[:60]}` renders the value itself as text outside the canonical JSON encoder: str()/format() give a text value and the value it spells the same bytes (so _stable_equal misses the update and different contents share a digest), repr() of an object without its own __repr__ contains its address (equal contents get different digests)", r.lineno)
                    continue
                raise AnalysisError(f"{qn}: bytes producer `{txt(v)[:80]}` of the serialisation chain has an unknown shape")
    if n_prod < 4:
        raise AnalysisError(f"serialize(): only {n_prod} bytes producer(s) found (5 confirmed by reading)")


# ---------------------------------------------------------------------------------------------------------
# D8 node-local facts: nothing written while one node is handled is read while a later node is described
# ---------------------------------------------------------------------------------------------------------
_GROW = _MUT | {"appendleft", "extendleft", "__setitem__", "__delitem__"}
_CTOR_METHODS = {"__init__", "__post_init__", "__new__", "__init_subclass__"}


def _self_attr(e: ast.AST, recv: str) -> Optional[str]:
    """X when the container / target expression *e* is reached from `<recv>.X` (through subscripts, .get/.setdefault)."""
    while True:
        if isinstance(e, ast.Subscript):
            e = e.value
        elif isinstance(e, ast.Call) and isinstance(e.func, ast.Attribute) and e.func.attr in ("get", "setdefault"):
            e = e.func.value
        elif isinstance(e, ast.Attribute) and not (isinstance(e.value, ast.Name) and e.value.id == recv):
            e = e.value
        else:
            break
    if isinstance(e, ast.Attribute) and isinstance(e.value, ast.Name) and e.value.id == recv:
        return e.attr
    return None


def _receiver(fn: ast.AST) -> Optional[str]:
    a = fn.args.posonlyargs + fn.args.args
    if not a or not isinstance(parent(getattr(fn, "_normal_of", fn)), ast.ClassDef):
        return None
    if any(dotted_name(d) in ("staticmethod", "classmethod") for d in fn.decorator_list):
        return None
    return a[0].arg


def instance_writes(fn: ast.AST, recv: str, within: Optional[ast.AST] = None) -> List[Tuple[str, ast.AST, bool]]:
    """(attribute, statement, rebinding?) for every write of *fn* to `<recv>.X` or into the object `<recv>.X` holds."""
    out: List[Tuple[str, ast.AST, bool]] = []
    for n in ast.walk(within if within is not None else fn):
        tgts: List[ast.AST] = []
        if isinstance(n, ast.Assign):
            tgts = list(n.targets)
        elif isinstance(n, (ast.AugAssign, ast.AnnAssign)) and (isinstance(n, ast.AugAssign) or n.value is not None):
            tgts = [n.target]
        elif isinstance(n, ast.Delete):
            tgts = list(n.targets)
        for t in [x for t in tgts for x in (t.elts if isinstance(t, (ast.Tuple, ast.List)) else [t])]:
            if isinstance(t, (ast.Attribute, ast.Subscript)):
                x = _self_attr(t, recv)
                if x is not None:
                    plain = isinstance(t, ast.Attribute) and isinstance(t.value, ast.Name) and isinstance(n, (ast.Assign, ast.AnnAssign))
                    out.append((x, n, plain))
        if isinstance(n, ast.Call) and isinstance(n.func, ast.Attribute) and n.func.attr in _GROW:
            x = _self_attr(n.func.value, recv)
            if x is not None:
                out.append((x, stmt_of(n), False))
    return out


def _only_designates_cell(n: ast.AST) -> bool:
    """The occurrence *n* of `<recv>.X` is only the target of a write: a store / delete, a subscript store below it, or
    the receiver of a mutator whose result is discarded.  Such an occurrence brings no earlier state into the result."""
    if isinstance(getattr(n, "ctx", None), (ast.Store, ast.Del)):
        return True
    cur, par = n, parent(n)
    while isinstance(par, (ast.Subscript, ast.Attribute)) and par.value is cur:
        if isinstance(par.ctx, (ast.Store, ast.Del)):
            return not isinstance(parent(par), ast.AugAssign)
        if isinstance(par, ast.Attribute) and par.attr in _GROW and par.attr not in ("pop", "popitem", "setdefault"):
            call = parent(par)
            return isinstance(call, ast.Call) and call.func is par and isinstance(parent(call), ast.Expr)
        cur, par = par, parent(par)
    return False


def per_node_roots(repo: Repo, loop: ast.For, compute: Optional[Tuple[str, ast.AST]] = None) -> List[Tuple[str, ast.AST]]:
    """(module rel, function) for every repo function called from the body of the node loop of execute(), plus the
    delta computation (its receiver is a local, so the call does not resolve by itself)."""
    omod = repo.module(ORCH)
    out: List[Tuple[str, ast.AST]] = []
    for st in loop.body:
        for c in [x for x in ast.walk(st) if isinstance(x, ast.Call)]:
            for m, f in repo.resolve_call(omod, c):
                if isinstance(f, FuncNode) and not any(f is o[1] for o in out):
                    out.append((m.rel, f))
    if compute is None:
        dc = repo.maybe_func(DELTA, "DeltaCollector.compute")
        compute = (DELTA, dc) if dc is not None else None
    if compute is not None and not any(compute[1] is o[1] for o in out):
        out.append(compute)
    return out


def node_local_facts(repo: Repo, R: Report, rule: str, ex: ast.AST, loop: ast.For, compute: Optional[Tuple[str, ast.AST]] = None) -> None:
    """The record of node k is computed from node k (its processor, configuration, data and pre/post context).  The
    functions called while one node is handled (the body of the node loop of execute() and everything it reaches)
    therefore read no attribute of a long-lived object (`self.X` of the orchestrator, of a collector ..) that the
    same region writes: such a cell carries what an earlier node (or an earlier run) left behind into the checks,
    parameters, delta or digests recorded for a later one - a memo keyed by less than everything the answer
    depends on, a counter, a remembered view.  Objects constructed inside the loop body (the delta collector) are
    new for every node and are not long-lived."""
    omod = repo.module(ORCH)
    roots = [(repo.module(rel), f) for rel, f in per_node_roots(repo, loop, compute)]
    clo = repo.call_graph_closure(roots, stop=lambda m, n: not m.rel.startswith(("semantiva/execution/", "semantiva/trace/")))
    region: List[Tuple[object, ast.AST, Optional[ast.AST]]] = [(omod, ex, loop)]
    for m, f, _path in sorted(clo.values(), key=lambda t: (t[0].rel, getattr(t[1], "lineno", 0))):
        if m.rel.startswith(("semantiva/execution/", "semantiva/trace/")) and isinstance(f, FuncNode) and f is not ex:
            region.append((m, f, None))
    if len(region) < 12:
        raise AnalysisError(f"execute(): only {len(region)} functions found on the per-node path (30 confirmed by reading)")

    def family(m, f: ast.AST) -> str:
        c = parent(f)
        if not isinstance(c, ast.ClassDef):
            return ""
        try:
            return repo.mro(m, c)[-1][1].name if repo.mro(m, c) else c.name
        except Exception:
            return c.name

    # the top-most repo class is `ABC`-free: mro() lists repo classes only, so the last entry is the root of the family
    # an object constructed inside the loop body is new for every node: what is stored on it does not outlive the node
    per_node_objects = {family(repo.module(rel), f) for rel, f in per_node_roots(repo, loop, compute) if f.name == "__init__"}
    cells: Dict[Tuple[str, str], Tuple[ast.AST, str]] = {}
    for m, f, within in region:
        recv = _receiver(f)
        if recv is None or f.name in _CTOR_METHODS or family(m, f) in per_node_objects:
            continue
        for x, st, _plain in instance_writes(f, recv, within):
            cells.setdefault((family(m, f), x), (st, qualname_of(f)))
    for m, f, within in region:
        recv = _receiver(f)
        qn = qualname_of(f)
        if recv is None or f.name in _CTOR_METHODS:
            continue
        fam = family(m, f)
        bad: List[Tuple[ast.AST, str]] = []
        g: Optional[CFG] = None
        for n in (ast.walk(within) if within is not None else ast.walk(f)):
            if not (isinstance(n, ast.Attribute) and isinstance(n.value, ast.Name) and n.value.id == recv and (fam, n.attr) in cells):
                continue
            if _only_designates_cell(n):
                continue
            # a value bound earlier in the same call (plain `self.X = ..` that dominates the read) is not history
            fresh = False
            own = [st for x, st, plain in instance_writes(f, recv, within) if x == n.attr and plain]
            if own:
                g = g or CFG(f)
                use = g.nodes_for(stmt_of(n))
                for st in own:
                    w = g.nodes_for(st)
                    if use and w and w[0] != use[0] and g.dominated_by_node(use[0], w[0]):
                        fresh = True
            if not fresh:
                bad.append((n, n.attr))
        if not bad:
            R.ok(rule, m.rel, qn, f"{qn}: reads no instance state written on the per-node path", "", getattr(f, "lineno", 0))
            continue
        seen: Set[str] = set()
        for n, attr in bad:
            if attr in seen:
                continue
            seen.add(attr)
            site, writer = cells[(fam, attr)]
            R.violation(rule, m.rel, qn, norm(stmt_of(n))[:110], f"`{recv}.{attr}` outlives the node (written by `{norm(site)[:70]}` in {writer}, on the per-node path) and is read while a node's record is computed: what the SER says about this node (required keys / checks, parameters, delta, digests) then depends on which nodes the same object handled before - e.g. a second node of the same processor class with another parameter placement inherits the first node's answer", getattr(n, "lineno", 0))


# ---------------------------------------------------------------------------------------------------------
# roles: the functions this check reasons about, located from execute() by what they do for the record
# ---------------------------------------------------------------------------------------------------------
_CHECK_CODES = {"pre_checks": "required_keys_present", "post_checks": "context_writes_realized"}
_SUMMARY_KEYS = {"init_summaries": "input_data", "augment_summaries": "output_data"}


def _stores_key(fn: ast.AST, key: str, nested: bool = True) -> List[ast.AST]:
    """The values *fn* puts under the constant mapping key *key*, however the mapping is assembled: entry of a display,
    `m[key] = v`, `dict(key=v)`, `m.update({key: v})` / `m.update(key=v)`, `m.setdefault(key, v)`."""
    out: List[ast.AST] = []
    for s in (ast.walk(fn) if nested else walk_no_nested(fn)):
        if isinstance(s, ast.Assign) and any(isinstance(t, ast.Subscript) and is_const(t.slice, key) for t in s.targets):
            out.append(s.value)
        elif isinstance(s, ast.Assign) and len(s.targets) == 1 and isinstance(s.targets[0], (ast.Tuple, ast.List)) and isinstance(s.value, (ast.Tuple, ast.List)) and len(s.value.elts) == len(s.targets[0].elts):
            out += [v for t, v in zip(s.targets[0].elts, s.value.elts) if isinstance(t, ast.Subscript) and is_const(t.slice, key)]
        elif isinstance(s, ast.Dict):
            out += [v for k, v in zip(s.keys, s.values) if is_const(k, key)]
        elif isinstance(s, ast.Call) and isinstance(s.func, ast.Name) and s.func.id == "dict":
            out += [k.value for k in s.keywords if k.arg == key]
        elif isinstance(s, ast.Call) and isinstance(s.func, ast.Attribute) and s.func.attr == "update":
            out += [k.value for k in s.keywords if k.arg == key]  # a display / dict(..) argument is found on its own
        elif isinstance(s, ast.Call) and isinstance(s.func, ast.Attribute) and s.func.attr == "setdefault" and len(s.args) == 2 and is_const(s.args[0], key):
            out.append(s.args[1])
    return out


def _eager_reads(call: ast.Call) -> Set[str]:
    """Names whose value is read when *call* is evaluated (its receiver and arguments; what the body of a lambda
    written there reads later, when it is invoked, is not)."""
    out: Set[str] = set()
    todo: List[ast.AST] = [call]
    while todo:
        n = todo.pop()
        if isinstance(n, ast.Lambda):
            todo += [d for d in n.args.defaults + n.args.kw_defaults if d is not None]  # defaults are evaluated at once
            continue
        if isinstance(n, ast.Name) and isinstance(n.ctx, ast.Load):
            out.add(n.id)
        todo += list(ast.iter_child_nodes(n))
    return out


# ---------------------------------------------------------------------------------------------------------
# D4 detached snapshots: the pre-node view shares no container with the live context, at any nesting level
# ---------------------------------------------------------------------------------------------------------
_SHALLOW_COPY = {"dict", "list", "tuple", "set", "frozenset", "sorted", "OrderedDict", "collections.OrderedDict", "copy.copy"}
_DEEP_COPY = {"copy.deepcopy", "deepcopy"}
_VIEWS = {"items", "values", "keys"}


class Exports:
    """Which containers owned by a context object (attributes of the instance that its methods write into in place)
    are reachable, and at which nesting depth, from the value an export method (`to_dict` on the unchanged tree; found
    as the argument-less method the snapshot function calls on the context it is given) returns.

    depth 0: the value *is* such a container; depth n: it sits n container levels below a fresh one.  A shallow copy
    (dict(..), list(..), .copy(), {**x}) removes depth 0 only; a comprehension / display adds one level."""

    def __init__(self, repo: Repo, names: Set[str]) -> None:
        self.repo = repo
        self.names = set(names)
        self.cands: Dict[str, List[Tuple[object, ast.ClassDef, ast.AST]]] = {n: [] for n in self.names}
        fam: List[Tuple[object, ast.ClassDef]] = []
        for m, _q, k in repo.all_classes():
            for st in k.body:
                if isinstance(st, FuncNode) and st.name in self.names:
                    self.cands[st.name].append((m, k, st))
                    for mk in repo.mro(m, k):
                        if not any(mk[1] is f[1] for f in fam):
                            fam.append(mk)
        self.live_attrs: Set[str] = set()
        for _m, k in fam:
            for st in k.body:
                recv = _receiver(st) if isinstance(st, FuncNode) else None
                if recv:
                    self.live_attrs |= {a for a, _n, plain in instance_writes(st, recv) if not plain}
        self._memo: Dict[int, Dict[int, Tuple[str, str, ast.AST]]] = {}
        self._open: Set[int] = set()

    def of_method(self, m, fn: ast.AST) -> Dict[int, Tuple[str, str, ast.AST]]:
        if id(fn) in self._memo:
            return self._memo[id(fn)]
        if id(fn) in self._open:
            return {}
        self._open.add(id(fn))
        out: Dict[int, Tuple[str, str, ast.AST]] = {}
        for r in [r for r in walk_no_nested(fn) if isinstance(r, ast.Return) and r.value is not None]:
            for d, src in self.depths(m, fn, r.value).items():
                out.setdefault(d, src)
        self._open.discard(id(fn))
        self._memo[id(fn)] = out
        return out

    def depths(self, m, fn: ast.AST, e: Optional[ast.AST], only: Optional[ast.AST] = None, _names: frozenset = frozenset()) -> Dict[int, Tuple[str, str, ast.AST]]:
        """{depth: (file, function, expression that names the owned container)} for the value of *e* in *fn*.  *only*
        restricts the export methods a call in *fn* itself may run to that one method (the case looked at)."""
        D = lambda x, nm=_names: self.depths(m, fn, x, only, nm)

        def merge(*ds: Dict[int, Tuple[str, str, ast.AST]]) -> Dict[int, Tuple[str, str, ast.AST]]:
            out: Dict[int, Tuple[str, str, ast.AST]] = {}
            for d in ds:
                for k, v in d.items():
                    out.setdefault(k, v)
            return out

        def below(d: Dict[int, Tuple[str, str, ast.AST]]) -> Dict[int, Tuple[str, str, ast.AST]]:
            return {k + 1: v for k, v in d.items()}

        def copied(d: Dict[int, Tuple[str, str, ast.AST]]) -> Dict[int, Tuple[str, str, ast.AST]]:
            return {k: v for k, v in d.items() if k > 0}

        if e is None:
            return {}
        if isinstance(e, ast.IfExp):
            return merge(D(e.body), D(e.orelse))
        if isinstance(e, ast.BoolOp):
            return merge(*[D(v) for v in e.values])
        if isinstance(e, ast.NamedExpr):
            return D(e.value)
        if isinstance(e, ast.Attribute) and e.attr in self.live_attrs and isinstance(e.ctx, ast.Load):
            return {0: (m.rel, qualname_of(getattr(fn, "_normal_of", fn)), e)}
        if isinstance(e, ast.Name):
            if e.id in _names:
                return {}
            return merge(*[self.depths(m, fn, d, only, _names | {e.id}) for d in _def_table(fn)[1].get(e.id, [])])
        if isinstance(e, ast.Dict):
            return merge(*[below(D(v)) if k is not None else copied(D(v)) for k, v in zip(e.keys, e.values)])
        if isinstance(e, (ast.List, ast.Tuple, ast.Set)):
            return merge(*[copied(D(x.value)) if isinstance(x, ast.Starred) else below(D(x)) for x in e.elts])
        if isinstance(e, (ast.ListComp, ast.SetComp, ast.GeneratorExp)):
            return below(D(e.elt))
        if isinstance(e, ast.DictComp):
            return below(D(e.value))
        if isinstance(e, ast.Call):
            cn = call_name(e) or ""
            if cn in _DEEP_COPY:
                return {}
            if cn in _SHALLOW_COPY and len(e.args) == 1 and not e.keywords:
                return copied(D(e.args[0]))
            if isinstance(e.func, ast.Attribute) and not e.args and not e.keywords:
                if e.func.attr == "copy":
                    return copied(D(e.func.value))
                if e.func.attr in _VIEWS:
                    return D(e.func.value)
                if e.func.attr in self.names:
                    cs = [(cm, cf) for cm, _k, cf in self.cands[e.func.attr] if only is None or cf is only]
                    return merge(*[self.of_method(cm, cf) for cm, cf in cs])
        return {}


class Roles:
    """Where the code that fills each part of a SER lives *in this tree*.

    Nothing is looked up by a qualified name except the public entry point `SemantivaOrchestrator.execute`: every other
    function is reached by following calls (`repo.resolve_call`) from execute() along the value it contributes -
    the function that constructs the `SERRecord`, the callee whose result pair becomes processor.parameters /
    parameter_sources, the callees whose results become timing.started_at / finished_at, the callees that build the
    check with code `required_keys_present` / `context_writes_realized`, that store the `input_data` / `output_data`
    summaries, the callee that yields the pre-node view, the delta computation named by the delta provider.  A helper
    that moved (method <-> module function, other module) or was renamed is found where it is now."""

    def __init__(self, repo: Repo) -> None:
        self.repo = repo
        self.omod = repo.module(ORCH)
        self.ex = repo.func(ORCH, EXECUTE)
        self.at: Dict[str, Tuple[object, ast.AST]] = {}
        self._nf: Dict[tuple, ast.AST] = {}
        self._regions: Dict[int, List[Tuple[object, ast.AST]]] = {}
        self.every_ex = _def_table(self.ex)[1]
        self.role_keep: Set[str] = set()  # helpers kept out of the normal forms because of what they are applied to (found by role)
        self._discover()

    # -- primitives --------------------------------------------------------------------------------------------
    def callee(self, mod, call: ast.Call, scope: Optional[ast.AST] = None) -> Optional[Tuple[object, ast.AST]]:
        """The repo function *call* (an expression of module *mod*) runs: for `self.m(..)` the method found along the
        MRO (overrides in subclasses come after it), for a plain or dotted name the def it resolves to.  A call that was
        produced by expanding locals (a detached copy) is resolved as if written in function *scope*."""
        if scope is not None and not any(a is scope for a in ancestors(call)):
            call = clone(call)
            _attach_parents(call)
            call._parent = scope  # type: ignore[attr-defined]
        try:
            t = self.repo.resolve_call(mod, call)
        except AnalysisError:
            raise
        except Exception:
            t = []
        t = [(m, f) for m, f in t if isinstance(f, FuncNode)]
        return t[0] if t else None

    def region(self, mod, fn: ast.AST) -> List[Tuple[object, ast.AST]]:
        """*fn* and the functions of its own module it reaches (the helpers its body may have been split into)."""
        if id(fn) not in self._regions:
            clo = self.repo.call_graph_closure([(mod, fn)], stop=lambda m, n: m is not mod)
            self._regions[id(fn)] = [(m, f) for m, f, _p in clo.values() if m is mod and isinstance(f, FuncNode)]
        return self._regions[id(fn)]

    def has(self, role: str) -> bool:
        return role in self.at

    def fn(self, role: str) -> ast.AST:
        if role not in self.at:
            raise AnalysisError(f"execute(): the function in the role `{role}` was not found by following the calls of execute()")
        return self.at[role][1]

    def mod(self, role: str):
        self.fn(role)
        return self.at[role][0]

    def rel(self, role: str) -> str:
        return self.mod(role).rel

    def qn(self, role: str) -> str:
        return qualname_of(self.fn(role))

    def name(self, role: str) -> Optional[str]:
        return self.at[role][1].name if role in self.at else None

    def keep(self) -> Tuple[str, ...]:
        return tuple(sorted(set(KEEP) | self.role_keep | {f.name for _m, f in self.at.values()}))

    def nf(self, role: str, **opts) -> ast.AST:
        """Normal form of the function in *role* (helpers that hold a role of their own are not inlined)."""
        fn = self.fn(role)
        keep = tuple(opts.pop("keep", ())) + self.keep()
        key = (id(fn), keep, tuple(sorted(opts.items())))
        if key not in self._nf:
            self._nf[key] = normalize(self.repo, self.mod(role), plain_statements(search_loops(plain_traversal(hoist_walrus(fn)))), keep=keep, **opts)
        return self._nf[key]

    def is_call(self, c: ast.AST, role: str) -> bool:
        """*c* calls the function in *role* (whatever the receiver: `self.f(..)`, `f(..)`, `mod.f(..)`)."""
        return isinstance(c, ast.Call) and role in self.at and call_attr(c) == self.at[role][1].name

    def calls(self, scope: ast.AST, role: str) -> List[ast.Call]:
        return [c for c in calls_in(scope) if self.is_call(c, role)]

    def _set(self, role: str, found: List[Tuple[object, ast.AST]], what: str, required: bool = True) -> None:
        """Bind *role*.  A value role (required=False: found by following a value of the record back to the calls that
        produce it) with several producers is bound to the most frequent one (first on a tie): the rule of that value
        then reports the uses that come from another function."""
        distinct: List[Tuple[object, ast.AST]] = []
        for m, f in found:
            if not any(f is g for _m, g in distinct):
                distinct.append((m, f))
        if len(distinct) == 1:
            self.at[role] = distinct[0]
        elif len(distinct) > 1 and not required:
            self.at[role] = max(distinct, key=lambda t: sum(1 for _m, f in found if f is t[1]))
        elif len(distinct) > 1:
            raise AnalysisError(f"execute(): {len(distinct)} different functions {what} ({', '.join(qualname_of(f) for _m, f in distinct)[:120]})")
        elif required:
            raise AnalysisError(f"execute(): no function called from execute() {what}")

    def _from_unpack(self, v: Optional[ast.AST]) -> List[Tuple[ast.Call, Optional[int]]]:
        """(call, index) for every binding `<local> = <call>[index]` (or tuple unpacking of the call) of local *v* of execute()."""
        out: List[Tuple[ast.Call, Optional[int]]] = []

        def follow(e: Optional[ast.AST], idx: Optional[int], depth: int) -> None:
            # the original nodes are kept (no cloning): the calls found here are resolved in their own scope
            if isinstance(e, ast.Call):
                out.append((e, idx))
            elif isinstance(e, ast.Subscript) and isinstance(e.slice, ast.Constant) and idx is None:
                follow(e.value, e.slice.value, depth)
            elif isinstance(e, ast.Name) and depth < 4:
                for d in self.every_ex.get(e.id, []):
                    follow(d, idx, depth + 1)

        follow(v, None, 0)
        return out

    # -- discovery ---------------------------------------------------------------------------------------------
    def _discover(self) -> None:
        ex, omod = self.ex, self.omod
        direct: List[Tuple[ast.Call, object, ast.AST]] = []
        for c in calls_in(ex):
            t = self.callee(omod, c)
            if t is not None and t[1] is not ex:
                direct.append((c, t[0], t[1]))

        def writes(m, f, pred: Callable[[ast.AST], bool]) -> bool:
            return any(pred(g) for _m, g in self.region(m, f))

        # the record builder: constructs the SERRecord
        self._set("record", [(m, f) for _c, m, f in direct if writes(m, f, lambda g: any(call_attr(x) == "SERRecord" for x in calls_in(g, include_nested=True)))], "constructs the SERRecord")
        self.record_calls = [c for c, _m, f in direct if f is self.fn("record")]
        mk = self.nf("record")
        ser = [c for c in calls_in(mk) if call_attr(c) == "SERRecord"]
        if not ser:
            raise AnalysisError(f"{self.qn('record')}: the SERRecord(...) construction is not in the function's normal form")
        self.ser_call = ser[0]
        self.proc = expand(mk, call_kwarg(mk, ser[0], "processor"))
        self.p_par = dotted_name(dict_entry(self.proc, "parameters"))
        self.p_src = dotted_name(dict_entry(self.proc, "parameter_sources"))
        t = expand(mk, call_kwarg(mk, ser[0], "timing"))
        self.p_timing = t.id if isinstance(t, ast.Name) and t.id in all_params(mk) else None
        # the parameter/source resolver: its result pair is what the record builder receives as parameters / sources
        found = []
        for c in self.record_calls:
            b = bind_args(c, mk, ex)
            for pname in (self.p_par, self.p_src):
                for call, _i in self._from_unpack(b.get(pname) if pname else None):
                    t2 = self.callee(omod, call)
                    if t2 is not None:
                        found.append(t2)
        self._set("resolve", found, "yields the (values, sources) pair handed to the record builder", required=False)
        # timing helpers: their results are timing.started_at / finished_at
        for role, key in (("start_timing", "started_at"), ("end_timing", "finished_at")):
            found = []
            for c in self.record_calls:
                for v in dict_values(ex, bind_args(c, mk, ex).get(self.p_timing) if self.p_timing else None, key) or []:
                    for call, _i in self._from_unpack(v):
                        t2 = self.callee(omod, call)
                        if t2 is not None:
                            found.append(t2)
            self._set(role, found, f"yields timing.{key}", required=False)
        # built-in check builders and summary builders, by the record entries they produce
        for role, code in _CHECK_CODES.items():
            self._set(role, [(m, f) for _c, m, f in direct if writes(m, f, lambda g, code=code: any(is_const(v, code) for v in _stores_key(g, "code")))], f"builds the check `{code}`")
        for role, key in _SUMMARY_KEYS.items():
            self._set(role, [(m, f) for _c, m, f in direct if f is not self.fn("record") and writes(m, f, lambda g, key=key: bool(_stores_key(g, key)))], f"stores summaries[{key!r}]")
        # inside the check builders: the type-check entry (receives the code of the check) and the delta-list reader
        found = []
        for role in _CHECK_CODES:
            for m, g in self.region(self.mod(role), self.fn(role)):
                for c in calls_in(g, include_nested=True):
                    if any(is_const(a, "input_type_ok") or is_const(a, "output_type_ok") for a in list(c.args) + [k.value for k in c.keywords]):
                        t2 = self.callee(m, c)
                        if t2 is not None:
                            found.append(t2)
        self._set("type_entry", found, "builds the input_type_ok / output_type_ok entries")
        # the helpers the type-check entry applies to the declared type alone (the one that turns None / a type / a tuple
        # of types into a tuple or None, the one that renders it for the details), whatever they are called: the polarity
        # rule reasons about `<that helper>(expected)` as one value, so they stay calls in the normal form
        te = self.fn("type_entry")
        tpp = pos_params(te)
        if len(tpp) >= 3:
            for c in calls_in(te, include_nested=True):
                if len(c.args) == 1 and not c.keywords and dotted_name(c.args[0]) == tpp[1]:
                    t2 = self.callee(self.mod("type_entry"), c)
                    if t2 is not None and t2[1] is not te:
                        self.role_keep.add(t2[1].name)
        post = self.fn("post_checks")
        pp = pos_params(post)
        found = []
        if len(pp) >= 4:
            for m, g in self.region(self.mod("post_checks"), post):
                for c in calls_in(g, include_nested=True):
                    if len(c.args) == 1 and not c.keywords and dotted_name(c.args[0]) == pp[3] and g is post:
                        t2 = self.callee(m, c)
                        if t2 is not None and t2[1] is not self.fn("type_entry"):
                            found.append(t2)
        self._set("delta_lists", found, "reads the created / updated lists of the context delta", required=False)
        # inside the summary builders: the data / context summary producers
        for role, key in (("data_summary", "input_data"), ("context_summary", "pre_context")):
            found = []
            for m, g in self.region(self.mod("init_summaries"), self.fn("init_summaries")):
                for v in _stores_key(g, key):
                    for x in (assigned_value(g, v.id) if isinstance(v, ast.Name) else [v]):
                        t2 = self.callee(m, x) if isinstance(x, ast.Call) else None
                        if t2 is not None:
                            found.append(t2)
            self._set(role, found, f"produces summaries[{key!r}]")
        # the delta provider handed to the hooks, the delta computation it names, the pre-node view, the snapshot function
        prov = [k.value for c in calls_in(ex) if call_attr(c) == "SERHooks" for k in c.keywords if k.arg == "context_delta_provider"]
        if prov and isinstance(prov[0], ast.Name) and isinstance(_def_table(ex)[0].get(prov[0].id), ast.Lambda):
            prov = [_def_table(ex)[0][prov[0].id]]  # a local that names the lambda (bound once)
        body = prov[0].body if prov and isinstance(prov[0], ast.Lambda) else None
        if prov and isinstance(prov[0], ast.Name):
            pdef = next((n for n in ast.walk(ex) if isinstance(n, FuncNode) and n is not ex and n.name == prov[0].id), None)
            rv = [n.value for n in walk_no_nested(pdef) if isinstance(n, ast.Return)] if pdef is not None else []
            body = rv[0] if len(rv) == 1 else None
        # a provider *built* by a call: `factory(collector, pre, context, ..)` whose result is a closure over its
        # parameters, or `functools.partial(<compute>, ..)`.  The computation is the closure's, written in the terms of
        # execute() (parameters replaced by the arguments); what the arguments read is read when the provider is
        # built, not when it is called.
        self.prov_built_at: Optional[ast.Call] = None
        self.prov_eager: Set[str] = set()
        built = prov[0] if prov else None
        if isinstance(built, ast.Name) and isinstance(_def_table(ex)[0].get(built.id), ast.Call):
            built = _def_table(ex)[0][built.id]
        if body is None and isinstance(built, ast.Call):
            body = self._built_provider(built)
            if body is not None:
                self.prov_built_at = built
                self.prov_eager = _eager_reads(built)
        self.prov_body = body if isinstance(body, ast.Call) else None
        self.collector: Optional[ast.AST] = None  # the local object whose state the delta computation uses
        self.collector_class: Optional[ast.ClassDef] = None
        if self.prov_body is not None:
            t2 = self.callee(omod, self.prov_body)
            f = self.prov_body.func
            if t2 is not None:
                self.at["compute"] = t2
            elif isinstance(f, ast.Attribute) and isinstance(f.value, ast.Name):
                # a method of a local object: the class is the one every binding of the local constructs
                k = self._class_of_local(f.value)
                meth = self.repo.method(k[0], k[1], f.attr) if k is not None else None
                if meth is not None and isinstance(meth[1], FuncNode):
                    self.at["compute"] = meth
                    self.collector, self.collector_class = f.value, k[1]
        if "compute" not in self.at:
            raise AnalysisError("execute(): the context delta provider `<collector>.<compute>(pre, post, ..)` handed to the hooks was not found")
        comp = self.fn("compute")
        cpp = pos_params(comp)
        if self.collector is None and cpp:
            # a module-level computation that takes the collector it works for as its first argument
            first = bind_args(self.prov_body, comp).get(cpp[0])
            k = self._class_of_local(first)
            if k is not None:
                self.collector, self.collector_class = first, k[1]
                cpp = cpp[1:]
        self.cpp = cpp
        if len(cpp) < 2:
            raise AnalysisError(f"{self.qn('compute')}: pre/post parameters vanished")
        pb = bind_args(self.prov_body, comp)
        self.pb = pb
        self.PRE = pb[cpp[0]].id if isinstance(pb.get(cpp[0]), ast.Name) else None
        if self.PRE is None:
            raise AnalysisError("execute(): the context delta provider `<collector>.compute(pre, post, ..)` with a named pre-node view was not found")
        # the snapshot function: what every binding of the pre-node view calls
        found = []
        for d in self.every_ex.get(self.PRE, []):
            t2 = self.callee(omod, d) if isinstance(d, ast.Call) else None
            if t2 is not None:
                found.append(t2)
        self._set("snapshot", found, "yields the pre-node view", required=False)

    def _built_provider(self, built: ast.Call) -> Optional[ast.AST]:
        """The call that a provider made by *built* (an expression of execute()) performs when it is invoked, written
        in the terms of execute(): `functools.partial(f, a, k=b)` performs `f(a, k=b)`; a repo function that only
        defines a parameterless closure (nested def or lambda) over its own parameters and returns it performs the
        closure's returned call with every parameter replaced by the argument of *built* (an argument that is itself
        a parameterless lambda and is called by the closure stands for its body).  None for any other shape."""
        where = call_name(built) or ""
        if where in ("functools.partial", "partial") and built.args and not any(isinstance(a, ast.Starred) for a in built.args) and all(k.arg for k in built.keywords):
            new = ast.Call(func=clone(built.args[0]), args=[clone(a) for a in built.args[1:]], keywords=[clone(k) for k in built.keywords])
            ast.copy_location(new, built)
            return ast.fix_missing_locations(new)
        t = self.callee(self.omod, built)
        if t is None:
            return None
        fac = t[1]
        params = all_params(fac)
        if any(isinstance(n, ast.Name) and isinstance(n.ctx, (ast.Store, ast.Del)) and n.id in params for n in ast.walk(fac)):
            return None  # a parameter is rebound: the closure does not see the argument
        rets = [n.value for n in walk_no_nested(fac) if isinstance(n, ast.Return)]
        inner: Optional[ast.AST] = None
        if len(rets) == 1 and isinstance(rets[0], ast.Lambda) and not all_params(rets[0]):
            inner = rets[0].body
        elif len(rets) == 1 and isinstance(rets[0], ast.Name):
            defs = [n for n in ast.walk(fac) if isinstance(n, FuncNode) and n is not fac and n.name == rets[0].id]
            if len(defs) == 1 and not all_params(defs[0]) and not any(isinstance(n, (ast.Nonlocal, ast.Global)) for n in ast.walk(defs[0])):
                rv = [n.value for n in walk_no_nested(defs[0]) if isinstance(n, ast.Return)]
                inner = expand(defs[0], rv[0]) if len(rv) == 1 else None
        if not isinstance(inner, ast.Call):
            return None
        mapping: Dict[str, ast.AST] = dict(bind_args(built, fac))
        pp = [a.arg for a in fac.args.posonlyargs + fac.args.args]
        if pp and pp[0] in ("self", "cls") and isinstance(built.func, ast.Attribute):
            mapping[pp[0]] = built.func.value
        if any(isinstance(n, ast.Name) and n.id in params and n.id not in mapping for n in ast.walk(inner)):
            return None  # a parameter left to its default

        class S(ast.NodeTransformer):
            def visit_Name(self, n: ast.Name):
                return clone(mapping[n.id]) if isinstance(n.ctx, ast.Load) and n.id in mapping else n

            def visit_Call(self, n: ast.Call):
                self.generic_visit(n)
                if isinstance(n.func, ast.Lambda) and not n.args and not n.keywords and not all_params(n.func):
                    return n.func.body
                return n

        new = S().visit(clone(inner))
        for x in ast.walk(new):
            ast.copy_location(x, built)
        return ast.fix_missing_locations(new)

    def _class_of_local(self, v: Optional[ast.AST]) -> Optional[Tuple[object, ast.ClassDef]]:
        """The repo class every binding of local *v* of execute() constructs."""
        if not isinstance(v, ast.Name):
            return None
        found: List[Tuple[object, ast.ClassDef]] = []
        for d in self.every_ex.get(v.id, []):
            r = self.repo.resolve_name(self.omod, d.func, d) if isinstance(d, ast.Call) and isinstance(d.func, (ast.Name, ast.Attribute)) else None
            if r is None or not isinstance(r[1], ast.ClassDef):
                return None
            found.append(r)
        return found[0] if found and all(c[1] is found[0][1] for c in found) else None


def hash_functions(repo: Repo, A: "Roles") -> List[Tuple[object, ast.AST]]:
    """The repo functions that turn serialised bytes into the value stored under 'sha256' by the two summary producers
    (found by role: the call whose argument is the serialisation of the summarised parameter)."""
    out: List[Tuple[object, ast.AST]] = []
    for role in ("data_summary", "context_summary"):
        if not A.has(role):
            continue
        f = A.nf(role)
        for v in _stores_key(f, "sha256"):
            for x in closure(f, v):
                for c in [c for c in ast.walk(x) if isinstance(c, ast.Call) and len(c.args) == 1 and isinstance(c.args[0], ast.Call)]:
                    inner = (call_name(c.args[0]) or "").split(".")[-1]
                    if inner in ("serialize", "canonical_json_bytes"):
                        t = A.callee(A.mod(role), c, f)
                        if t is not None and isinstance(t[1], ast.FunctionDef) and not any(t[1] is g for _m, g in out):
                            out.append(t)
    return out


CONFIG_ATTR = "processor_config"  # the public attribute of a node that holds its configured parameters


def runtime_resolvers(repo: Repo) -> List[Tuple[object, ast.AST, Dict[str, str]]]:
    """(module, function, {role: parameter}) of every repo function that resolves a parameter for a node at run time,
    found by what it is handed and by whom: code reachable from the methods of the node classes (the classes whose
    objects own a `processor_config`: a method stores `<receiver>.processor_config`) gives it a node's configuration
    (`<node>.processor_config`) together with two plain variables (the parameter name and the run context).
    Roles: config (bound to the configuration), name (the parameter used as the key of the configuration in the
    resolver), context (the other one), cls (bound to an expression over `<node>.processor`, when there is one)."""
    node_classes: List[Tuple[object, ast.ClassDef]] = []
    for mod, _qn, k in repo.all_classes():
        for meth in [m for m in k.body if isinstance(m, FuncNode)]:
            recv = _receiver(meth)
            if recv and any(x == CONFIG_ATTR and plain for x, _st, plain in instance_writes(meth, recv)):
                node_classes.append((mod, k))
                break
    fam: Dict[int, Tuple[object, ast.ClassDef]] = {}
    for mod, k in node_classes:
        fam[id(k)] = (mod, k)
        for sm, sc in repo.subclasses(k):
            fam[id(sc)] = (sm, sc)
    roots = [(m, f) for m, k in fam.values() for f in k.body if isinstance(f, FuncNode)]
    homes = {m.rel.rsplit("/", 2)[0] for m, _k in fam.values()}  # the package the node classes live in
    clo = repo.call_graph_closure(roots, stop=lambda m, n: not any(m.rel.startswith(h + "/") for h in homes))
    out: List[Tuple[object, ast.AST, Dict[str, str]]] = []
    for mod, fn, _path in sorted(clo.values(), key=lambda t: (t[0].rel, getattr(t[1], "lineno", 0))):
        if not isinstance(fn, FuncNode):
            continue
        for c in calls_in(fn, include_nested=True):
            args = list(c.args) + [k.value for k in c.keywords]
            cfg = [a for a in args if isinstance(a, ast.Attribute) and a.attr == CONFIG_ATTR and isinstance(a.value, ast.Name)]
            if len(cfg) != 1 or sum(1 for a in args if isinstance(a, ast.Name) and a.id != cfg[0].value.id) < 2:
                continue
            owner = cfg[0].value.id
            try:
                targets = [(m, f) for m, f in repo.resolve_call(mod, c) if isinstance(f, ast.FunctionDef) and not isinstance(parent(f), ast.ClassDef)]
            except AnalysisError:
                raise
            except Exception:
                targets = []
            for m, f in targets:
                if any(f is o[1] for o in out):
                    continue
                roles: Dict[str, str] = {}
                passed = []
                for q, a in bind_args(c, f).items():
                    if a is cfg[0]:
                        roles["config"] = q
                    elif isinstance(a, ast.Name) and a.id != owner:
                        passed.append(q)
                    elif re.search(rf"\b{re.escape(owner)}\.processor\b", ast.unparse(a)):
                        roles["cls"] = q
                if "config" not in roles or len(passed) != 2:
                    continue
                keyed = [q for q in passed if any(
                    (isinstance(x, ast.Subscript) and dotted_name(x.value) == roles["config"] and dotted_name(x.slice) == q)
                    or (isinstance(x, ast.Compare) and dotted_name(x.left) == q and any(_root_name(k.func.value if isinstance(k, ast.Call) and isinstance(k.func, ast.Attribute) else k) == roles["config"] for k in x.comparators))
                    or (isinstance(x, ast.Call) and isinstance(x.func, ast.Attribute) and dotted_name(x.func.value) == roles["config"] and any(dotted_name(y) == q for y in x.args))
                    for x in ast.walk(f))]
                if len(keyed) != 1:
                    continue
                roles["name"] = keyed[0]
                roles["context"] = next(q for q in passed if q != keyed[0])
                out.append((m, f, roles))
    return out


def canonical_resolver(repo: Repo, mod, fn: ast.AST, roles: Dict[str, str]) -> ast.AST:
    """Normal form of the run-time resolver *fn* with its parameters (and the helper that looks a name up in the
    processor's declared parameter table) spelled the way the shared chain extraction (sa/props/_chains.py) reads them."""
    # the default look-up: a repo function applied to the parameter name (and the processor class) - kept as a call
    helpers: Dict[str, str] = {}
    for c in calls_in(fn):
        args = list(c.args) + [k.value for k in c.keywords]
        if isinstance(c.func, (ast.Name, ast.Attribute)) and any(dotted_name(a) == roles["name"] for a in args) and not any(dotted_name(a) in (roles["config"], roles["context"]) for a in args):
            try:
                t = repo.resolve_call(mod, c)
            except Exception:
                t = []
            if len(t) == 1 and isinstance(t[0][1], ast.FunctionDef):
                helpers[dotted_name(c.func) or ""] = t[0][1].name
    nf = normalize(repo, mod, search_loops(hoist_walrus(fn)), keep=tuple(sorted(set(helpers.values()) | {"_default_for"})))
    rename = {roles["config"]: "processor_config", roles["name"]: "name", roles["context"]: "context"}
    if "cls" in roles:
        rename[roles["cls"]] = "processor_cls"
    taken = {x.id for x in ast.walk(nf) if isinstance(x, ast.Name)} | all_params(nf)
    if any(new != old and new in taken for old, new in rename.items()):
        return nf  # a canonical name is used for something else: read the function as it is spelled
    out = clone(nf)
    for x in ast.walk(out):
        if isinstance(x, ast.Name) and x.id in rename:
            x.id = rename[x.id]
        elif isinstance(x, ast.arg) and x.arg in rename:
            x.arg = rename[x.arg]
        if isinstance(x, ast.Call) and (dotted_name(x.func) or "") in helpers and not (dotted_name(x.func) or "").endswith("_default_for"):
            x.func = ast.copy_location(ast.Name(id="_default_for", ctx=ast.Load()), x.func)
    ast.fix_missing_locations(out)
    _attach_parents(out)
    return out


def run(repo: Repo, R: Report) -> None:
    R.assume(
        "datetime.now(timezone.utc) / utcnow() read the true UTC instant; time.time() does not step backwards within one node (wall-clock steps are outside the quantifier)",
        "serialize()/canonical_json_bytes() are functions of content for framework data types (repr last resort is content-determined for objects with __dict__)",
    )
    R.undecided("that processor.parameters *values* equal what was passed for arbitrary processors (channel and source table are pinned, not values)", "non-decreasing timestamps under a wall clock stepping backwards")

    A = Roles(repo)

    # ------------------------------------------------------------------ D1 UTC
    r_utc = R.rule("C07-D1-utc-timestamps", "every string labelled with the UTC designator Z is produced from a UTC-anchored clock read; SER timing and driver timestamps come from such producers", 4)
    r_shape = R.rule("C07-D1-rfc3339-shape", "the text that receives the designator Z is a complete RFC 3339 date-time at every instant: positional cuts are applied only to fixed-width renderings (isoformat with an explicit timespec of seconds or finer, strftime), never to isoformat() whose width depends on the microsecond field; no offset besides the Z; a fraction of a second assembled by hand is the sub-second field cut down (floor) and zero-padded, never rounded (a rounded field reaches the next whole unit without a carry into the seconds)", 2)
    r_res = R.rule("C07-D1-one-resolution", "all producers of the stamps of one trace stream (lifecycle record timestamps, SER timing) cut the clock reading at the same resolution - they render the same number of digits of the fraction of a second: the stream interleaves the producers in both orders, and a stamp cut at a coarser unit that follows a finer one read within the same coarse unit denotes an earlier instant, so the stream would not be non-decreasing", 2)
    producers: Dict[str, str] = {}
    stamps: List[Tuple[str, str, ast.AST, Optional[int]]] = []
    n_z = 0
    for rel in TS_FILES:
        if not repo.has_module(rel):
            continue
        mod = repo.module(rel)
        for qn, raw_fn in [(q, n) for q, n in mod.defs.items() if isinstance(n, FuncNode)]:
            # normal form without inlining: a designator hoisted into a module constant is a 'Z' again
            try:
                fn = normalize(repo, mod, hoist_walrus(raw_fn), inline=False, copyprop="", ifexp=False)
            except AnalysisError:
                raise
            except Exception:
                fn = raw_fn
            own = [z for z in z_labelled(fn) if next((a for a in ancestors(z) if isinstance(a, FuncNode)), None) is fn]
            for z in own:
                n_z += 1
                why = z_shape_problem(fn, z) or fraction_rendering_problem(fn, z)
                R.check(why is None, r_shape, rel, qn, norm(stmt_of(z))[:110], why or "", z.lineno)
                stamps.append((rel, qn, z, fraction_digits(fn, z) if why is None else None))
                # the clock may be read in this expression or in a local it uses
                scope: List[ast.AST] = closure(fn, z)
                verdicts = [utc_anchored(s) for s in scope]
                params = {a.arg for a in fn.args.args}
                from_param = any(isinstance(x, ast.Name) and x.id in params and x.id != "self" for s in scope for x in ast.walk(s))
                drift = next((t for s in scope for t in [_non_wall_epoch(s)] if t is not None), None)
                if drift is not None:
                    R.violation(r_utc, rel, qn, norm(stmt_of(z))[:110], f"the instant that is rendered and labelled Z is computed from `{drift}`, a clock that does not follow UTC (monotonic / performance / CPU-time counters have an arbitrary origin and stop or drift when the host sleeps or the wall clock is stepped): whatever offset is added, the stamp is not the true UTC instant, and it falls out of order with the stamps the other producers of the stream read from the wall clock", z.lineno)
                elif any(v is False for v in verdicts):
                    R.violation(r_utc, rel, qn, norm(stmt_of(z))[:110], "a naive local-time reading is labelled Z: on a host that is not in UTC every such timestamp is off by the zone offset", z.lineno)
                elif any(v is True for v in verdicts):
                    R.ok(r_utc, rel, qn, norm(stmt_of(z))[:110], "UTC-anchored", z.lineno)
                    producers[fn.name] = rel
                elif from_param and any(isinstance(c, ast.Call) and "fromtimestamp" in (call_name(c) or "") for s in scope for c in ast.walk(s)):
                    R.violation(r_utc, rel, qn, norm(stmt_of(z))[:110], "an epoch value is converted with a naive fromtimestamp() and labelled Z", z.lineno)
                else:
                    R.violation(r_utc, rel, qn, norm(stmt_of(z))[:110], "a Z-labelled string whose clock source is not recognisably UTC-anchored", z.lineno)
    if n_z < 2:
        raise AnalysisError(f"only {n_z} Z-labelled timestamp producer(s) found (2 confirmed by reading)")
    check_one_resolution(R, r_res, stamps)
    # SER timing flows from the producers
    ex = A.ex
    mk = A.nf("record")
    _s_ex, every_ex = _def_table(ex)

    def unpack_of(v: Optional[ast.AST], role: str, pos: int, exclusive: bool = True) -> bool:
        """Every binding of local *v* in execute() is element *pos* of the result of a call of the function in *role*
        (not exclusive: or a constant placeholder)."""
        defs = [expand(ex, d) for d in every_ex.get(v.id, [])] if isinstance(v, ast.Name) else []
        good = [d for d in defs if isinstance(d, ast.Subscript) and A.is_call(d.value, role) and is_const(d.slice, pos)]
        inert = [d for d in defs if isinstance(d, ast.Constant)]
        return bool(good) and len(good) + (0 if exclusive else len(inert)) == len(defs)

    def timing_entry_ok(c: ast.Call, key: str, role: str, pos: int, exclusive: bool) -> bool:
        """Entry *key* of the timing mapping handed to the record builder (a display or a local naming one) is,
        whenever present, element *pos* of the result of the timing helper in *role*."""
        vals = dict_values(ex, bind_args(c, mk, ex).get(A.p_timing) if A.p_timing else None, key)
        return bool(vals) and all(unpack_of(v, role, pos, exclusive) for v in vals)

    def status_of(c: ast.Call) -> str:
        return str(getattr(kwarg(c, "status"), "value", "?"))

    for c in A.record_calls:
        ok = timing_entry_ok(c, "started_at", "start_timing", 2, False) and timing_entry_ok(c, "finished_at", "end_timing", 0, True)
        R.check(ok, r_utc, ORCH, EXECUTE, f"timing of SER ({status_of(c)}) from _start_timing/_end_timing", "SER timing strings do not come from the timing helpers", c.lineno)
    for role, idx in (("start_timing", 2), ("end_timing", 0)):
        if not A.has(role):
            continue  # reported above: the record's timing strings do not come from a timing helper
        f = A.nf(role, keep=tuple(sorted(producers)))
        helper = A.name(role)
        rets = [expand(f, n.value) for n in walk_no_nested(f) if isinstance(n, ast.Return)]
        ok = bool(rets)
        for rv in rets:
            e = expand(f, rv.elts[idx]) if isinstance(rv, ast.Tuple) and len(rv.elts) > idx else None
            vals = every_of(f, e)
            ok = ok and bool(vals) and all(isinstance(v, ast.Call) and call_attr(v) in producers for v in vals)
        R.check(ok, r_utc, A.rel(role), A.qn(role), f"{helper}() iso element comes from a UTC producer", "SER started_at/finished_at is not produced by the UTC timestamp helper", f.lineno)
    for qn in ("JsonlTraceDriver.on_pipeline_start", "JsonlTraceDriver.on_pipeline_end", "JsonlTraceDriver.on_run_space_start", "JsonlTraceDriver.on_run_space_end"):
        raw = repo.func(JSONL, qn)
        jmod = repo.module(JSONL)
        # the record may be assembled in helpers of the driver: they are looked at in the method's normal form (inlined),
        # the ones that cannot be inlined where they are (every function of the module the method reaches)
        f = normalize(repo, jmod, plain_statements(hoist_walrus(raw)), keep=tuple(sorted(producers)), deep=True)
        inlined = set(getattr(f, "_inlined", []) or [])
        scopes = [f] + [h for _m, h in A.region(jmod, raw) if h is not raw and h.name not in inlined and h.name not in producers]
        vals, n_ts = [], 0
        for sc in scopes:
            ts = _stores_key(sc, "timestamp", nested=False)
            n_ts += len(ts)
            vals += [x for v in ts for x in every_of(sc, expand(sc, v))]
        ok = n_ts > 0 and len(vals) >= n_ts and all(isinstance(v, ast.Call) and call_attr(v) in producers for v in vals)
        R.check(ok, r_utc, JSONL, qn, "record.timestamp from the UTC producer", "lifecycle record timestamp is not produced by the UTC timestamp helper", f.lineno)

    # ------------------------------------------------------------------ roles in execute()
    g = CFG(ex)
    # the node run statement, by role: the call of execute() that is handed the node callable - a lambda or a local def
    # of execute() whose body runs `<node>.process(Payload(<data>, <context>))` - whatever the receiving method is called
    local_defs = {n.name: n for n in ast.walk(ex) if isinstance(n, FuncNode) and n is not ex}

    def node_callable_of(c: ast.Call) -> Optional[Tuple[ast.AST, tuple]]:
        for a in list(c.args) + [k.value for k in c.keywords]:
            d = a if isinstance(a, ast.Lambda) else local_defs.get(a.id) if isinstance(a, ast.Name) else None
            h = find1(d, "_N_.process(Payload(_D_, _C_))", nested=True) if d is not None else None
            if h is not None:
                return d, h
        return None

    sub, subcall, hit = None, None, None
    for n in g.nodes:
        if n.ast is None or n.kind != "stmt" or isinstance(n.ast, FuncNode):
            continue
        for c in calls_in(n.ast):
            got_cb = node_callable_of(c)
            if got_cb is not None:
                sub, subcall, hit = n, c, got_cb[1]
                break
        if sub is not None:
            break
    if sub is None:
        raise AnalysisError("execute(): node run statement (the call that is handed the node callable `<node>.process(Payload(<data>, <context>))`) not found")
    if hit is None:
        raise AnalysisError("execute(): the node callable `<node>.process(Payload(<data>, <context>))` was not found")
    NODE, DATA, CTX = name_of(hit[1], "_N_"), name_of(hit[1], "_D_"), name_of(hit[1], "_C_")
    if not (NODE and DATA and CTX):
        raise AnalysisError("execute(): node / data / context of the node callable are not plain variables")
    loop = next((a for a in ancestors(sub.ast) if isinstance(a, ast.For)), None)
    if loop is None:
        raise AnalysisError("execute(): node loop not found")

    def is_snapshot(e: Optional[ast.AST]) -> bool:
        """*e* calls the snapshot function (the one that yields the pre-node view) on the context variable."""
        return A.is_call(e, "snapshot") and len(e.args) + len(e.keywords) == 1 and dotted_name((list(e.args) + [k.value for k in e.keywords])[0]) == CTX

    def use_node(c: ast.AST) -> Optional[int]:
        ids = g.nodes_for(stmt_of(c))
        return ids[0] if ids else None

    def after_run(nid: Optional[int]) -> bool:
        return nid is not None and nid != sub.id and g.dominated_by_node(nid, sub.id)

    def in_handler(c: ast.AST) -> bool:
        for a in ancestors(c):
            if a is loop:
                return False
            if isinstance(a, ast.ExceptHandler):
                return True
        return False

    loop_head = g.nodes_for(loop)
    rebinds = [n for n in g.nodes if n.ast is not None and n.kind == "stmt" and isinstance(n.ast, (ast.Assign, ast.AnnAssign)) and any(isinstance(x, ast.Name) and x.id == CTX and isinstance(x.ctx, ast.Store) for x in ast.walk(n.ast)) and after_run(n.id) and not in_handler(n.ast)]

    def before_run(nid: Optional[int]) -> bool:
        """*nid* is executed in the part of an iteration that precedes the node run."""
        if nid is None or not loop_head:
            return False
        return sub.id in g.reach([nid], blocked=set(loop_head)) and nid not in g.reach([t for t, _l in g.succ[sub.id]], blocked=set(loop_head))

    def ctx_current(nid: int) -> bool:
        """On the success path the context variable read at *nid* is the one bound from the node's result."""
        if not rebinds:
            return True
        defs = reaching_defs(g, CTX, nid)
        return bool(defs) and all(after_run(d.id) for d in defs)

    def post_view(c: ast.Call, arg: Optional[ast.AST]) -> Tuple[bool, str]:
        """Is *arg* (at call *c*) on every path a snapshot of the context taken after the node ran?"""
        use = use_node(c)
        if arg is None or use is None or not after_run(use):
            return False, "the call is not after the node run"
        if is_snapshot(arg):
            return (True, "") if in_handler(c) or ctx_current(use) else (False, "the snapshot can be taken before the context returned by the node is bound")
        nm = arg.id if isinstance(arg, ast.Name) else None
        if nm is None:
            return False, f"`{ast.unparse(arg)}` is not a context snapshot"
        todo: List[Tuple[str, int]] = [(nm, use)]
        seen_defs: Set[Tuple[str, int]] = set()
        while todo:
            name, at = todo.pop()
            if (name, at) in seen_defs:
                continue
            seen_defs.add((name, at))
            defs = reaching_defs(g, name, at)
            if not defs:
                return False, f"`{name}` has no definition reaching line {g.nodes[at].line}"
            for d in defs:
                a = d.ast
                val = a.value if isinstance(a, (ast.Assign, ast.AnnAssign)) else None
                plain = isinstance(a, ast.AnnAssign) or (isinstance(a, ast.Assign) and all(isinstance(t, ast.Name) for t in a.targets))
                if plain and isinstance(val, ast.Name) and val.id != PRE and after_run(d.id):
                    todo.append((val.id, d.id))  # an alias made after the run: look at what it names
                    continue
                if not (plain and is_snapshot(val)):
                    return False, f"on some path `{name}` is `{d.text()[:70]}` (line {d.line}), not a fresh snapshot of the context"
                if not after_run(d.id):
                    return False, f"the snapshot `{d.text()[:70]}` (line {d.line}) can be taken before the node ran"
                if not in_handler(a) and not ctx_current(d.id):
                    return False, f"the snapshot (line {d.line}) can be taken before the context returned by the node is bound"
        return True, ""

    def output_data(c: ast.Call, arg: Optional[ast.AST]) -> bool:
        if not (isinstance(arg, ast.Name) and arg.id == DATA):
            return False
        if in_handler(c):
            return True  # a failed node has no output: the handler describes the data it holds
        use = use_node(c)
        defs = reaching_defs(g, DATA, use) if use is not None else []
        return bool(defs) and all(after_run(d.id) for d in defs)

    # the delta provider names the pre-node snapshot (located with the roles)
    comp_raw = A.fn("compute")
    PRE_P, POST_P = A.cpp[0], A.cpp[1]
    prov_body, pb, PRE = A.prov_body, A.pb, A.PRE

    # ------------------------------------------------------------------ D2 provenance
    r_prov = R.rule("C07-D2-parameter-provenance", "the SER labels every processing parameter with the channel the run-time chain picks: node config, else context (for every processing parameter name, exactly when the key is in the pre-node context), else the processor's declared default; later steps never overwrite earlier ones; values and labels reach processor.parameters / parameter_sources unswapped", 10)
    if not A.has("resolve"):
        R.violation(r_prov, ORCH, EXECUTE, norm(stmt_of(A.record_calls[0]))[:110] if A.record_calls else "", "processor.parameters / parameter_sources handed to the record builder are not the result pair of a parameter/source resolution done for this node", ex.lineno)
        raise AnalysisError("execute(): no call yields the (values, sources) pair handed to the record builder")
    RPQ, RREL = A.qn("resolve"), A.rel("resolve")
    rp = split_parallel_stores(A.nf("resolve", loops=False))
    rpp = pos_params(rp)
    if len(rpp) < 3:
        raise AnalysisError(f"{RPQ}: parameters vanished")
    NODE_P, CTX_P = rpp[0], rpp[2]
    pair = [expand(rp, r.value) for r in walk_no_nested(rp) if isinstance(r, ast.Return)]
    pair = [v for v in pair if isinstance(v, ast.Tuple) and len(v.elts) == 2 and all(isinstance(e, ast.Name) for e in v.elts)]
    if not pair:
        raise AnalysisError(f"{RPQ}: `return <values>, <sources>` not found")
    VAL, SRC = pair[0].elts[0].id, pair[0].elts[1].id

    def sub_store(n: ast.AST, base: str) -> Optional[ast.Subscript]:
        if isinstance(n, ast.Assign) and len(n.targets) == 1 and isinstance(n.targets[0], ast.Subscript) and dotted_name(n.targets[0].value) == base:
            return n.targets[0]
        return None

    lab_stores = [n for n in walk_no_nested(rp) if sub_store(n, SRC) is not None]

    def label_of(st: ast.AST) -> Optional[str]:
        v = expand(rp, st.value)
        return v.value if isinstance(v, ast.Constant) and v.value in ("node", "context", "default") else None

    mislabel = [n for n in walk_no_nested(rp) if sub_store(n, VAL) is not None and label_of(n) is not None]
    R.check(bool(lab_stores) and all(label_of(s) is not None for s in lab_stores) and not mislabel, r_prov, RREL, RPQ, "return <values>, <sources>: the second map receives the channel labels", "the returned pair is not (values, channel labels in {node, context, default})", rp.lineno)
    top = {id(x): i for i, st in enumerate(rp.body) for x in ast.walk(st)}
    order = sorted(((top.get(id(s), 0), s.lineno, label_of(s), s) for s in lab_stores), key=lambda t: t[:2])
    labels = [o[2] for o in order]
    first_ctx = labels.index("context") if "context" in labels else -1
    last_ctx = max((i for i, l in enumerate(labels) if l == "context"), default=-1)
    first_def = min((i for i, l in enumerate(labels) if l == "default"), default=-1)
    R.check("node" in labels and first_ctx > labels.index("node") and first_def > last_ctx >= 0, r_prov, RREL, RPQ, "label order node, context, default", f"labels are not assigned in the order node, context, default (found {labels})", rp.lineno)
    g_rp = CFG(rp)
    default_from_table = False
    rmod = A.mod("resolve")

    def reads_declared_table(e: ast.AST) -> bool:
        """*e* contains a call `<f>(<node>.processor)` of a repo function that reads the processor's metadata (the
        declared parameter table: `get_metadata()['parameters']`), whatever the receiver or name of <f>."""
        for c in [c for c in ast.walk(expand(rp, e)) if isinstance(c, (ast.Call, ast.Attribute))]:
            # the table read in place (the helper's body inlined): `<node>.processor.get_metadata` / getattr(.., 'get_metadata', ..)
            if isinstance(c, ast.Attribute):
                if c.attr == "get_metadata" and txt(expand(rp, c.value)) == f"{NODE_P}.processor":
                    return True
                continue
            if call_name(c) == "getattr" and len(c.args) >= 2 and is_const(c.args[1], "get_metadata") and txt(expand(rp, c.args[0])) == f"{NODE_P}.processor":
                return True
            args = list(c.args) + [k.value for k in c.keywords]
            if len(args) != 1 or txt(expand(rp, args[0])) != f"{NODE_P}.processor":
                continue
            t = A.callee(rmod, c, rp)
            if t is not None and any(is_const(x, "get_metadata") or (isinstance(x, ast.Attribute) and x.attr == "get_metadata") for _m, h in A.region(*t) for x in ast.walk(h)):
                return True
        return False

    for _i, _ln, lab, s in order:
        if lab not in ("context", "default"):
            continue
        K = ast.unparse(sub_store(s, SRC).slice)
        ids = g_rp.nodes_for(s)
        conds = [txt(c) for c in dominating_conditions(g_rp, rp, ids[0])] if ids else []
        a_first = {f"{K} not in {VAL}", f"{K} not in {SRC}", f"{K} not in {VAL}.keys()", f"{K} not in {SRC}.keys()"}
        R.check(any(c in a_first for c in conds), r_prov, RREL, RPQ, f"{lab} label [first writer wins]", f"the {lab} step can overwrite a label assigned by a higher-precedence channel (no `{K} not in {VAL}` guard dominates `{norm(s)}`)", s.lineno)
        holder = next((lst for lst in (getattr(parent(s), f, None) for f in ("body", "orelse", "finalbody")) if isinstance(lst, list) and s in lst), [])
        vstores = [n for n in holder if sub_store(n, VAL) is not None and ast.unparse(sub_store(n, VAL).slice) == K]
        if lab == "context":
            a_ctx = {f"{K} in {CTX_P}", f"{K} in {CTX_P}.keys()"}
            R.check(any(c in a_ctx for c in conds), r_prov, RREL, RPQ, "context label [present in context]", f"context label assigned without testing that the key is in the pre-node context (`{K} in {CTX_P}`)", s.lineno)
            extra = [c for c in conds if c not in a_first and c not in a_ctx]
            R.check(not extra, r_prov, RREL, RPQ, "context label [exactly when present]", f"the context step is narrowed by `{' and '.join(extra)[:90]}`: the run-time chain takes every key that is in the context (whatever its value), so such a parameter is passed from the context but recorded with another source or not at all", s.lineno)
            lp = next((a for a in ancestors(s) if isinstance(a, ast.For)), None)
            # the loop domain is computed from the getter of this node's processor, read here or in a helper
            covers = lp is not None and f"{NODE_P}.processor" in getter_owners(repo, rp, lp.iter)
            R.check(covers, r_prov, RREL, RPQ, "context label [domain]", "the context step does not range over all processing parameter names: a defaulted parameter overridden by context is never labelled `context` (and is missing from processor.parameters)", s.lineno)
            reads = {f"{CTX_P}[{K}]", f"{CTX_P}.get({K})"}
            known = {(CTX_P, K)} if any(c in a_ctx for c in conds) else set()  # the key is in the view here: every look-up spelling is the entry
            ok = bool(vstores) and all(any(ast.unparse(x) in reads for x in ast.walk(lookup_canon(expand(rp, v.value), known))) for v in vstores)
            R.check(ok, r_prov, RREL, RPQ, "context value = <pre-node view>[k]", "the value recorded for a context-sourced parameter is not read from the pre-node context", s.lineno)
        if lab == "default":
            if any(reads_declared_table(x) for v in vstores for x in closure(rp, v.value)):
                default_from_table = True
    R.check(default_from_table, r_prov, RREL, RPQ, "defaults from _parameter_defaults(node.processor)", "no default step reads the processor's declared parameter table", rp.lineno)
    # call site passes this node and its pre-node snapshot; the pair reaches the record unswapped
    rcalls = A.calls(ex, "resolve")
    ok = bool(rcalls)
    for rcall in rcalls:
        rb = bind_args(rcall, rp)
        ok = ok and dotted_name(rb.get(NODE_P)) == NODE and dotted_name(rb.get(CTX_P)) == PRE
    R.check(ok, r_prov, ORCH, EXECUTE, "_resolve_params_with_sources(<node>, .., <pre-node view>, ..)", "provenance is not reconstructed from this node and its pre-node context", ex.lineno)
    ser_calls = [A.ser_call]
    proc, p_par, p_src = A.proc, A.p_par, A.p_src
    for c in A.record_calls:
        ok = bool(p_par) and bool(p_src) and p_par in all_params(mk) and p_src in all_params(mk)
        for pname, pos in ((p_par, 0), (p_src, 1)):
            v = bind_args(c, mk, ex).get(pname) if pname else None
            ok = ok and unpack_of(v, "resolve", pos)
        R.check(ok, r_prov, ORCH, EXECUTE, f"SER ({status_of(c)}): processor.parameters / parameter_sources = the resolved (values, sources) pair", "processor.parameters / parameter_sources are not the (values, sources) pair reconstructed for this node", c.lineno)

    # the other side of the interface: the chain the nodes resolve their parameters with at run time
    r_agree = R.rule("C07-D2-runtime-chain-agreement", "the channel the SER names is the channel the node took the value from: the function the nodes resolve a parameter with at run time (handed the node's processor_config, the parameter name and the context) picks the configured value whenever the name is a key of the configuration (whatever the value stored there), else the context value whenever the context has the key, else the declared default whenever there is one, else raises - the same tests, in the same order, under which the SER writes `node`, `context`, `default`", 4)
    from ._chains import extract_chain

    node_stores = [s for _i, _ln, lab, s in order if lab == "node"]
    ser_node_plain = bool(node_stores)
    for s in node_stores:
        ids = g_rp.nodes_for(s)
        conds = dominating_conditions(g_rp, rp, ids[0]) if ids else [ast.Constant(value="?")]
        lp = next((a for a in ancestors(s) if isinstance(a, ast.For)), None)
        # the loop ranges over the mapping read from entry 'parameters' of this node's definition (however the local that
        # names it is bound: every expression that flows into the iterable is looked at)
        flows = closure(rp, lp.iter) if lp is not None else []
        over_declared = any(is_const(x, "parameters") for y in flows for x in ast.walk(y)) and any(isinstance(x, ast.Name) and x.id == rpp[1] for y in flows for x in ast.walk(y))
        plain = not conds and over_declared
        ser_node_plain = ser_node_plain and plain
        R.check(plain, r_agree, RREL, RPQ, "node label [every key of the node's declared parameters, whatever its value]", f"the node step of the SER is narrowed ({' and '.join(txt(c) for c in conds)[:80] or 'its domain is not the keys of the declared parameters of this node'}): the run-time chain takes the configured value for every key that is present in the node's configuration", s.lineno)
    resolvers = runtime_resolvers(repo)
    if not resolvers:
        raise AnalysisError("no repo function is handed a node's `processor_config`, a parameter name and the run context by a method (the run-time side of parameter resolution was not found)")
    want_chain = [("config", "config"), ("context", "context"), ("default", "default")]
    ser_word = {"config": "node", "context": "context", "default": "default"}
    ser_test = {"config": "the name is a key of the node's declared parameters (whatever the value)", "context": "the key is in the pre-node context (whatever the value)", "default": "the processor declares a default for the name"}
    for xm, xf, xroles in resolvers:
        xq = qualname_of(xf)
        chain = extract_chain(canonical_resolver(repo, xm, xf, xroles))
        steps = [c for c in chain if c[0] != "always"]
        for i, (guard, result) in enumerate(want_chain):
            got = steps[i] if i < len(steps) else ("<missing>", "<missing>")
            if got == (guard, result):
                R.ok(r_agree, xm.rel, xq, f"step {i + 1}: {guard} value exactly when present = SER label `{ser_word[guard]}`", "", xf.lineno)
                continue
            if got[1] == result and got[0].rstrip("?~") == guard:
                why = f"the run-time chain takes the {guard} value under a test that reads the {guard} channel but is not its plain presence test, while the SER writes `{ser_word[guard]}` exactly when {ser_test[guard]}: for a parameter that is present but rejected by the run-time test (e.g. configured as null / a falsy value) the node receives the value of a later channel (or fails with KeyError) and the SER still reports the {guard} value with source `{ser_word[guard]}`"
            else:
                why = f"step {i + 1} of the run-time chain is {got} where the SER assumes ({guard!r}, {result!r}): the order or the test of the channels differs, so parameter_sources names a channel the value did not come from"
            channel_param = xroles.get(guard)  # config / context: the parameter of the resolver that holds the channel
            line = next((n.lineno for n in walk_no_nested(xf) if isinstance(n, (ast.If, ast.IfExp)) and channel_param and _reads_name(expand(xf, n.test), channel_param)), xf.lineno)
            R.violation(r_agree, xm.rel, xq, f"first-match chain {chain}"[:110], why, line)
        tail = [c for c in chain if c[0] == "always"]
        R.check(bool(tail) and tail[-1][1].startswith("raise:") and len(steps) == len(want_chain), r_agree, xm.rel, xq, "no channel has the name: raises (the SER has no entry for it)", f"after the three channels the run-time chain does not raise ({chain[len(want_chain):]}): a parameter the SER has no entry for is passed to the processor", xf.lineno)

    # ------------------------------------------------------------------ D3 checks
    r_chk = R.rule("C07-D3-check-polarity", "built-in checks report PASS exactly when the condition holds, on the right inputs (pre snapshot / input data, post snapshot taken after the node ran / output data)", 10)
    pre = A.nf("pre_checks", loops=True)
    post = A.nf("post_checks", loops=True)
    tce = A.nf("type_entry")
    PREQ, POSTQ, TCEQ = A.qn("pre_checks"), A.qn("post_checks"), A.qn("type_entry")

    def check_dict(fn: ast.AST, code: str) -> Optional[ast.AST]:
        for n in ast.walk(fn):
            if isinstance(n, ast.Dict) and is_const(dict_entry(n, "code"), code):
                return n
        return None

    def pass_iff_empty(fn: ast.AST, code: str) -> Optional[ast.AST]:
        """The expression M such that result is 'PASS' exactly when M is empty (None when the shape is different)."""
        d = check_dict(fn, code)
        res = expand(fn, dict_entry(expand(fn, d), "result")) if d is not None else None
        if not isinstance(res, ast.IfExp) or not (isinstance(res.body, ast.Constant) and isinstance(res.orelse, ast.Constant)):
            return None
        t, a, b = res.test, res.body.value, res.orelse.value
        neg = False
        if isinstance(t, ast.UnaryOp) and isinstance(t.op, ast.Not):
            t, neg = t.operand, True
        elif isinstance(t, ast.Compare) and len(t.ops) == 1 and isinstance(t.ops[0], (ast.Eq, ast.NotEq, ast.Gt)) and isinstance(t.left, ast.Call) and call_name(t.left) == "len" and len(t.left.args) == 1 and is_const(t.comparators[0], 0):
            t, neg = t.left.args[0], isinstance(t.ops[0], ast.Eq)
        elif isinstance(t, ast.Compare) and len(t.ops) == 1 and isinstance(t.ops[0], (ast.Eq, ast.NotEq)) and _empty_container(t.comparators[0]) and (isinstance(t.comparators[0], ast.List) or call_name(t.comparators[0]) == "list") \
                and (isinstance(expand(fn, t.left), (ast.List, ast.ListComp)) or (isinstance(expand(fn, t.left), ast.Call) and call_name(expand(fn, t.left)) in ("list", "sorted"))):
            t, neg = t.left, isinstance(t.ops[0], ast.Eq)  # `m == []` of a list m: m is empty
        if isinstance(t, ast.Call) and call_name(t) == "bool" and len(t.args) == 1:
            t = t.args[0]
        if (neg and (a, b) == ("PASS", "FAIL")) or (not neg and (a, b) == ("FAIL", "PASS")):
            return t
        return None

    prep, postp = pos_params(pre), pos_params(post)
    if len(prep) < 4 or len(postp) < 4:
        raise AnalysisError(f"{PREQ}/{POSTQ}: parameters vanished")
    m_pre = pass_iff_empty(pre, "required_keys_present")
    R.check(m_pre is not None, r_chk, A.rel("pre_checks"), PREQ, "required_keys_present: PASS iff the missing list is empty", "required_keys_present does not report PASS exactly when the list of missing keys is empty", pre.lineno)
    want = ("diff", ("K", "required"), ("K", "pre-view"))
    got = kterm(m_pre, name_atoms({prep[3]: "required", prep[1]: "pre-view"})) if m_pre is not None else ("?", "")
    R.check(got == want, r_chk, A.rel("pre_checks"), PREQ, "missing = required keys - keys of the context view", f"pre-check `missing` is not (required keys) minus (keys of the pre snapshot): it is {kshow(got)[:110]}", pre.lineno)
    m_post = pass_iff_empty(post, "context_writes_realized")
    R.check(m_post is not None, r_chk, A.rel("post_checks"), POSTQ, "context_writes_realized: PASS iff the missing list is empty", "context_writes_realized does not report PASS exactly when the list of missing keys is empty", post.lineno)

    def post_atom(e: ast.AST) -> Optional[str]:
        if isinstance(e, ast.Name) and e.id == postp[1]:
            return "post-view"
        if isinstance(e, ast.Subscript) and A.is_call(e.value, "delta_lists") and len(e.value.args) == 1 and dotted_name(e.value.args[0]) == postp[3] and isinstance(e.slice, ast.Constant):
            return {0: "created", 1: "updated"}.get(e.slice.value)
        if isinstance(e, ast.Attribute) and dotted_name(e.value) == postp[3] and e.attr in ("created_keys", "updated_keys"):
            return e.attr[:-5]
        return None

    want = ("diff", ("or", frozenset({("K", "created"), ("K", "updated")})), ("K", "post-view"))
    got = kterm(m_post, post_atom) if m_post is not None else ("?", "")
    R.check(got == want, r_chk, A.rel("post_checks"), POSTQ, "missing = (created | updated) - keys of the context view", f"post-check `missing` is not (created ∪ updated) minus (keys of the post snapshot): it is {kshow(got)[:110]}", post.lineno)
    if A.has("delta_lists"):
        xdl = A.fn("delta_lists")
        xr_all = [x for r in walk_no_nested(xdl) if isinstance(r, ast.Return) for x in every_of(xdl, expand(xdl, r.value))]
        xr = [x for x in xr_all if isinstance(x, ast.Tuple) and len(x.elts) == 2]
        ok = bool(xr) and len(xr) == len(xr_all)
        for tup in xr:
            c0, c1 = closure_text(xdl, tup.elts[0]), closure_text(xdl, tup.elts[1])
            ok = ok and "created" in c0 and "updated" not in c0 and "updated" in c1 and "created" not in c1
        R.check(ok, r_chk, A.rel("delta_lists"), A.qn("delta_lists"), "returns (created keys, updated keys)", "the delta lists handed to the post-check are swapped or mixed", xdl.lineno)
    # type check polarity: FAIL exactly when a type is declared and the value is not an instance of it
    tp = pos_params(tce)
    if len(tp) < 3:
        raise AnalysisError(f"{TCEQ}: parameters vanished")
    EXP_P, VAL_P = tp[1], tp[2]
    # every way the entry's result gets its value, with the conditions under which that value is the final one
    g_t = CFG(tce)
    _s_t, every_t = _def_table(tce)
    leaves: Optional[List[Tuple[object, List[ast.AST]]]] = []

    def later_store(name: str, d_id: int, at: int) -> bool:
        """Another binding of *name* can execute after node *d_id* and before *at*."""
        seen = g_t.reach([t for t, _l in g_t.succ[d_id]], blocked={at})
        return any(o.id in seen and o.id != d_id for o in g_t.nodes if o.ast is not None and o.kind == "stmt" and isinstance(o.ast, (ast.Assign, ast.AnnAssign, ast.AugAssign)) and any(isinstance(x, ast.Name) and x.id == name and isinstance(x.ctx, ast.Store) for x in ast.walk(o.ast)))

    def collect(e: Optional[ast.AST], conds: List[ast.AST], at: int, depth: int = 0) -> None:
        nonlocal leaves
        if leaves is None:
            return
        if isinstance(e, ast.Constant):
            leaves.append((e.value, conds))
        elif isinstance(e, ast.IfExp):
            collect(e.body, conds + conjuncts(expand(tce, e.test), True), at, depth)
            collect(e.orelse, conds + conjuncts(expand(tce, e.test), False), at, depth)
        elif isinstance(e, ast.Name) and depth < 4:
            defs = reaching_defs(g_t, e.id, at)
            if not defs:
                leaves = None
                return
            for d in defs:
                a = d.ast
                plain = (isinstance(a, ast.Assign) and len(a.targets) == 1 and isinstance(a.targets[0], ast.Name)) or (isinstance(a, ast.AnnAssign) and isinstance(a.target, ast.Name) and a.value is not None)
                if not plain:
                    leaves = None
                    return
                v = expand(tce, a.value)
                if isinstance(v, ast.Constant) and v.value == "PASS":
                    leaves.append(("PASS", []))  # the conditions of a PASS leaf are never used
                    continue
                if later_store(e.id, d.id, at):
                    leaves = None  # a FAIL that can be overwritten: the final value is not decided by this store alone
                    return
                collect(v, conds + dominating_conditions(g_t, tce, d.id), d.id, depth + 1)
        else:
            leaves = None

    n_ret = 0
    for r in [r for r in walk_no_nested(tce) if isinstance(r, ast.Return)]:
        n_ret += 1
        rid = g_t.nodes_for(r)
        d = expand(tce, r.value)
        if not rid or not isinstance(d, ast.Dict):
            leaves = None
            break
        collect(expand(tce, dict_entry(d, "result")), dominating_conditions(g_t, tce, rid[0]), rid[0])
    # the declared type enters the conditions through one repo function applied to the `expected` parameter (it turns
    # None / a type / a tuple of types into a tuple or None), whatever its name and receiver
    norm_calls = {ast.unparse(c) for c in ast.walk(tce) if isinstance(c, ast.Call) and len(c.args) == 1 and not c.keywords and dotted_name(c.args[0]) == EXP_P and A.callee(A.mod("type_entry"), c, tce) is not None}

    def canon(text: str) -> str:
        for nc in sorted(norm_calls, key=len, reverse=True):
            text = text.replace(nc, "<declared>")
        return text

    nexp = "<declared>"
    want_conds = {f"{nexp} is not None", f"not any((isinstance({VAL_P}, _k0) for _k0 in {nexp}))"}
    alt = {f"not isinstance({VAL_P}, {nexp})": f"not any((isinstance({VAL_P}, _k0) for _k0 in {nexp}))", f"{nexp}": f"{nexp} is not None"}
    fail_conds: Optional[Set[str]] = None
    if leaves is not None and n_ret and all(v in ("PASS", "FAIL") for v, _c in leaves) and any(v == "PASS" for v, _c in leaves):
        fails = [c for v, c in leaves if v == "FAIL"]
        if len(fails) == 1:
            fail_conds = {canon(txt(c)) for c in fails[0]}
        elif not fails:
            fail_conds = set()
    if fail_conds is not None:
        fail_conds = {alt.get(c, c) for c in fail_conds}
    if fail_conds is not None and len({nc for nc in norm_calls if any(nc in txt(c) for v, cs in (leaves or []) if v == "FAIL" for c in cs)}) > 1:
        fail_conds = None  # two different derivations of the declared type in one condition: not the shape understood here
    R.check(fail_conds == want_conds, r_chk, A.rel("type_entry"), TCEQ, "FAIL iff a type is declared and not any(isinstance(value, t))", f"type check does not report FAIL exactly when the value is not an instance of the declared type (FAIL under: {sorted(fail_conds) if fail_conds is not None else 'unrecognised shape'})"[:230], tce.lineno)
    # which type on which data
    for fn, fp, getter, code in ((pre, prep, "input_data_type", "input_type_ok"), (post, postp, "output_data_type", "output_type_ok")):
        calls = A.calls(fn, "type_entry")
        ok = len(calls) == 1
        if ok:
            b = bind_args(calls[0], tce)
            # the declared type is the result of calling the attribute <getter> of this node's processor (read directly or
            # through getattr with whatever stand-in for processors that declare nothing): the attributes of the processor
            # read on the way are exactly {<getter>} - names of locals, stand-ins and helpers do not matter
            ex_e = expand(fn, b.get(EXP_P)) if b.get(EXP_P) is not None else None
            owner = f"{fp[0]}.processor"
            read: Set[str] = set()
            for x in (ast.walk(ex_e) if ex_e is not None else []):
                if isinstance(x, ast.Attribute) and txt(x.value) == owner:
                    read.add(x.attr)
                elif isinstance(x, ast.Call) and call_name(x) == "getattr" and len(x.args) >= 2 and txt(x.args[0]) == owner:
                    read.add(x.args[1].value if isinstance(x.args[1], ast.Constant) and isinstance(x.args[1].value, str) else "<computed>")
            called = [x for x in (ast.walk(ex_e) if ex_e is not None else []) if isinstance(x, ast.Call) and not x.args and not x.keywords and (
                (isinstance(x.func, ast.Attribute) and x.func.attr == getter and txt(x.func.value) == owner)
                or (isinstance(x.func, ast.Call) and call_name(x.func) == "getattr" and len(x.func.args) >= 2 and txt(x.func.args[0]) == owner and is_const(x.func.args[1], getter)))]
            ok = is_const(b.get(tp[0]), code) and dotted_name(b.get(VAL_P)) == fp[2] and read == {getter} and bool(called)
        R.check(ok, r_chk, ORCH, qualname_of(fn), f"{code}: processor.{getter}() against data", f"{code} does not test the data against the processor's declared {getter}", fn.lineno)
    # call sites: pre with pre snapshot and data before the node; post with a snapshot taken after the node ran and the output data
    for c in calls_in(ex):
        if A.is_call(c, "pre_checks"):
            b = bind_args(c, pre)
            use = use_node(c)
            ok = dotted_name(b.get(prep[0])) == NODE and dotted_name(b.get(prep[1])) == PRE and dotted_name(b.get(prep[2])) == DATA and before_run(use)
            R.check(ok, r_chk, ORCH, EXECUTE, "pre-checks built before the node runs, on the pre-node view and input data", "pre-checks are not computed from the state before the node ran", c.lineno)
        if A.is_call(c, "post_checks"):
            b = bind_args(c, post)
            okv, why = post_view(c, b.get(postp[1]))
            ok = dotted_name(b.get(postp[0])) == NODE and okv and output_data(c, b.get(postp[2]))
            R.check(ok, r_chk, ORCH, EXECUTE, f"post-checks ({'failure handler' if in_handler(c) else 'success path'}) on a context snapshot taken after the node ran and the output data", "post-checks are not computed from the state after the node ran" + (f": {why}" if why else ""), c.lineno)

    # ------------------------------------------------------------------ D4 delta
    r_d = R.rule("C07-D4-context-delta", "created = post - pre keys, updated = common keys whose values differ, both sorted; pre snapshot taken before and post snapshot after the node; snapshots are copies", 8)
    CQ, CREL = A.qn("compute"), A.rel("compute")
    comp = A.nf("compute", loops=True, deep=True)  # deep: a computation the method only delegates to (`return _impl(self, ..)`) is looked at where it is
    atoms = name_atoms({PRE_P: "pre", POST_P: "post"})
    rets = [expand(comp, r.value) for r in walk_no_nested(comp) if isinstance(r, ast.Return)]
    rd = rets[0] if len(rets) == 1 and isinstance(rets[0], ast.Dict) else None
    ck = dict_entry(rd, "created_keys") or dict_entry(rd, "created") if rd is not None else None
    uk = dict_entry(rd, "updated_keys") or dict_entry(rd, "updated") if rd is not None else None
    if ck is None or uk is None:
        raise AnalysisError(f"{CQ}: returned mapping with created_keys / updated_keys not found")
    got = kterm(ck, atoms)
    R.check(got == ("diff", ("K", "post"), ("K", "pre")), r_d, CREL, CQ, "created_keys = keys(post) - keys(pre)", f"created keys are not (post keys) minus (pre keys): they are {kshow(got)[:120]}", comp.lineno)
    got = kterm(uk, atoms)
    common = ("and", frozenset({("K", "pre"), ("K", "post")}))
    # the 'same value' test may be a repo function of the two values (checked below), under whatever name
    cmod = A.mod("compute")
    eq_fns: List[Tuple[object, ast.AST]] = []
    for c in [c for c in ast.walk(uk) if isinstance(c, ast.Call) and len(c.args) == 2 and not c.keywords]:
        t = A.callee(cmod, c, comp)
        if t is not None and not any(t[1] is f for _m, f in eq_fns):
            eq_fns.append(t)
    differs = set()
    for a, b in ((PRE_P, POST_P), (POST_P, PRE_P)):
        for fa in ("{m}.get(_k)", "{m}[_k]"):
            for fb in ("{m}.get(_k)", "{m}[_k]"):
                for _m, f in eq_fns:
                    differs.add(f"not {f.name}({fa.format(m=a)}, {fb.format(m=b)})")
                differs.add(f"{fa.format(m=a)} != {fb.format(m=b)}")
    base_ok = got[0] == "filter" and got[1] == common
    if base_ok:
        # a candidate _k is a key of both views: every spelling of `the value of _k in <view>` (subscript, .get with or
        # without a fallback, `<view>[_k] if _k in <view> else ..`) denotes the same value there
        facts = {(PRE_P, "_k"), (POST_P, "_k")}
        got = ("filter", got[1], frozenset(ast.unparse(lookup_canon(ast.parse(c, mode="eval").body, facts)) for c in got[2]))
    R.check(base_ok, r_d, CREL, CQ, "updated_keys range over keys(post) & keys(pre)", f"updated candidates are not exactly the common keys: {kshow(got[1] if got[0] == 'filter' else got)[:120]}", comp.lineno)
    R.check(got[0] == "filter" and len(got[2]) == 1 and next(iter(got[2])) in differs, r_d, CREL, CQ, "updated_keys = common keys whose value differs", f"updated keys are not the common keys whose value changed: {kshow(got)[:140]}", comp.lineno)
    R.check(is_sorted_expr(ck) and is_sorted_expr(uk), r_d, CREL, CQ, "created_keys / updated_keys are sorted lists", "the returned key lists are not sorted", comp.lineno)
    # the 'differs' test itself: equality of the two values under one injective rendering
    for semod, se_raw in eq_fns:
        se = normalize(repo, semod, hoist_walrus(se_raw), keep=A.keep())
        sep = pos_params(se)
        se_rets = [x for r in walk_no_nested(se) if isinstance(r, ast.Return) for x in (every_of(se, expand(se, r.value)) or [r.value])]

        def same_rendering(e: ast.AST) -> bool:
            if not (isinstance(e, ast.Compare) and len(e.ops) == 1 and isinstance(e.ops[0], ast.Eq) and len(sep) >= 2):
                return False
            a, b = txt(e.left), txt(e.comparators[0])
            hole = "\x00"
            pa = re.sub(rf"\b{re.escape(sep[0])}\b", hole, a)
            pb = re.sub(rf"\b{re.escape(sep[1])}\b", hole, b)
            if hole not in pa:
                pa, pb = re.sub(rf"\b{re.escape(sep[1])}\b", hole, a), re.sub(rf"\b{re.escape(sep[0])}\b", hole, b)
            return hole in pa and pa == pb and pa.replace(" ", "") in (hole, f"serialize({hole})", f"sha256_bytes(serialize({hole}))", f"canonical_json_bytes({hole})")

        R.check(bool(se_rets) and all(same_rendering(e) for e in se_rets), r_d, semod.rel, qualname_of(se_raw), "_stable_equal(a, b) = (serialize(a) == serialize(b)), fallback a == b", "the test that decides `updated_keys` is not the equality of the two values (under serialize): a changed value can be reported unchanged or an unchanged one as updated", se.lineno)
    # execute: provider diffs the pre snapshot (before) with a fresh post snapshot (at call time, after the node)
    # the collector (receiver of the computation, or the object handed to it) is a repo object every binding of which is a construction
    ok = is_snapshot(pb.get(POST_P)) and A.collector is not None and A.collector_class is not None
    R.check(ok, r_d, ORCH, EXECUTE, "delta = DeltaCollector.compute(<pre-node view>, snapshot(context) at call time)", "the delta is not the diff between the pre-node snapshot and the post-node context", ex.lineno)
    # which context the provider snapshots: the variable as bound when the provider is *called* (a lambda / nested def of
    # execute() reads it then) - a provider built by a call (factory returning a closure over its parameters,
    # functools.partial) holds the object the variable named when it was *built*
    built = A.prov_built_at
    if built is None or CTX not in A.prov_eager:
        R.ok(r_d, ORCH, EXECUTE, "the delta provider reads the context variable when it is called", "", ex.lineno)
    else:
        bn = use_node(built)
        ok = not rebinds or (after_run(bn) and (in_handler(built) or ctx_current(bn)))
        R.check(ok, r_d, ORCH, EXECUTE, norm(built)[:110], f"the delta provider is built by this call, which reads `{CTX}` at once: the post snapshot is taken of the context object that existed " + ("before the node ran" if not after_run(bn) else "before the context returned by the node was bound") + f", not of the one the node returned (`{CTX}` is rebound from the node's result at line {rebinds[0].line if rebinds else '?'}); a node or executor that hands back another context object gets created_keys / updated_keys of the object it did not return", built.lineno)
    def is_provider_call(c: ast.Call) -> bool:
        """`<hooks>.context_delta_provider()` or a call of a local that names that attribute on every path."""
        if call_attr(c) == "context_delta_provider":
            return True
        if isinstance(c.func, ast.Name) and use_node(c) is not None:
            defs = reaching_defs(g, c.func.id, use_node(c))
            vals = [getattr(d.ast, "value", None) if isinstance(d.ast, (ast.Assign, ast.AnnAssign)) and not isinstance(getattr(d.ast, "targets", [None])[0], (ast.Tuple, ast.List)) else None for d in defs]
            return bool(vals) and all(isinstance(v, ast.Attribute) and v.attr == "context_delta_provider" for v in vals)
        return False

    pcalls = [c for c in calls_in(ex) if is_provider_call(c)]
    ok = bool(pcalls) and all(after_run(use_node(c)) and (in_handler(c) or ctx_current(use_node(c))) for c in pcalls)
    R.check(ok, r_d, ORCH, EXECUTE, "the delta provider is called after the node ran (success path: after the returned context is bound)", "the context delta is computed before the node ran or from the context object the node did not return", ex.lineno)
    pre_def = [n for n in g.nodes if n.ast is not None and n.kind == "stmt" and isinstance(n.ast, (ast.Assign, ast.AnnAssign)) and any(isinstance(x, ast.Name) and x.id == PRE and isinstance(x.ctx, ast.Store) for x in ast.walk(n.ast))]
    ok = len(pre_def) == 1 and is_snapshot(getattr(pre_def[0].ast, "value", None)) and g.dominated_by_node(sub.id, pre_def[0].id) and before_run(pre_def[0].id) and any(a is loop for a in ancestors(pre_def[0].ast))
    R.check(ok, r_d, ORCH, EXECUTE, "<pre-node view> = snapshot(context) inside the loop, before the node runs", "the pre snapshot is not taken per node before it runs", ex.lineno)
    def fresh_mapping(e: Optional[ast.AST]) -> bool:
        if isinstance(e, ast.IfExp):
            return fresh_mapping(e.body) and fresh_mapping(e.orelse)
        if isinstance(e, ast.Call) and isinstance(e.func, ast.Attribute) and e.func.attr == "copy" and not e.args:
            return True
        return (isinstance(e, ast.Call) and call_name(e) == "dict") or (isinstance(e, ast.Dict) and (not e.keys or all(k is None for k in e.keys))) or isinstance(e, ast.DictComp)

    if A.has("snapshot"):
        # normal form with delegation followed: a body moved into a helper (`return _impl(ctx)`) is looked at where it is
        snap = normalize(repo, A.mod("snapshot"), hoist_walrus(A.fn("snapshot")), keep=(), deep=True)
        rets = [x for n in walk_no_nested(snap) if isinstance(n, ast.Return) for x in (every_of(snap, expand(snap, n.value)) or [n.value])]
        ok = bool(rets) and all(fresh_mapping(r) for r in rets)
        R.check(ok, r_d, A.rel("snapshot"), A.qn("snapshot"), "every return is dict(...) or {}", "a snapshot aliases the live context: pre and post views are the same object and the delta is always empty", snap.lineno)
        # ... and a copy at every level: nothing below the top level of the view is a container the context object owns
        r_det = R.rule("C07-D4-snapshot-detached", "the pre-node view shares no container with the live context at any nesting level: on the way from the snapshot function through the export method it calls on the context (for every context class that defines it, and the export methods those call on their parts) every container the context object owns (an instance attribute its methods write into in place) is copied before it goes into the result - the snapshot's own dict(..) copies the top level only, so an owned container one level down is written by the node in the pre view too and the delta (created_keys / updated_keys, key summaries, context_writes_realized) misses the write", 1)
        sp = pos_params(snap)
        snap_mod = A.mod("snapshot")
        export_names = {c.func.attr for c in calls_in(snap) if isinstance(c.func, ast.Attribute) and not c.args and not c.keywords and sp and dotted_name(c.func.value) == sp[0] and c.func.attr not in _VIEWS and c.func.attr != "copy"}
        X = Exports(repo, export_names)
        n_bad = 0
        for name in sorted(export_names):
            for cm, ck, cf in X.cands[name]:
                shared: Dict[int, Tuple[str, str, ast.AST]] = {}
                for r in rets:
                    for d, src in X.depths(snap_mod, snap, r, only=cf).items():
                        shared.setdefault(d, src)
                if shared:
                    n_bad += 1
                    d, (srel, sq, se) = min(shared.items(), key=lambda t: t[0])
                    R.violation(r_det, srel, sq, norm(stmt_of(se))[:110] if parent(se) is not None else txt(se)[:110], f"for a context of class {ck.name} the view `{A.name('snapshot')}` returns still holds `{txt(se)}` - a container the live context object owns and writes into - {d} level(s) below its top: the snapshot's copy is shallow, so what the node writes there appears in the pre-node view as well; pre and post views agree and created_keys / updated_keys (and the key summaries and context_writes_realized computed from them) miss the write", getattr(se, "lineno", cf.lineno))
                else:
                    R.ok(r_det, cm.rel, qualname_of(cf), f"{ck.name}.{name}() as copied by the snapshot", "no owned container below the copy", cf.lineno)
        if not n_bad:
            R.ok(r_det, A.rel("snapshot"), A.qn("snapshot"), "every returned view is detached from the context object", "", snap.lineno)
    else:
        R.violation(r_d, ORCH, EXECUTE, "<pre-node view> = snapshot(context)", "the pre-node view is not produced by a snapshot function of the repo: nothing guarantees that it is a copy of the context taken before the node ran", ex.lineno)

    # ------------------------------------------------------------------ D5 digests
    r_dig = R.rule("C07-D5-digests", "input and output data digests come from one helper on the value itself; pre/post context digests are computed from the respective snapshot passed to that call (never copied between entries); the post snapshot is taken after the node ran", 8)
    def digest_text(fn: ast.AST) -> str:
        """Every value stored under the key 'sha256' in *fn* (subscript store or dict display entry), locals expanded."""
        vals = [s.value for s in ast.walk(fn) if isinstance(s, ast.Assign) and any(isinstance(t, ast.Subscript) and is_const(t.slice, "sha256") for t in s.targets)]
        vals += [v for d in ast.walk(fn) if isinstance(d, ast.Dict) for k, v in zip(d.keys, d.values) if is_const(k, "sha256")]
        return " ;; ".join(txt(expand(fn, x)) for v in vals for x in closure(fn, v))

    ds = A.nf("data_summary")
    dsp = pos_params(ds)
    R.check(bool(dsp) and f"sha256_bytes(serialize({dsp[0]}))" in digest_text(ds), r_dig, A.rel("data_summary"), A.qn("data_summary"), "sha256 = sha256_bytes(serialize(data))", "data digest is not the hash of the serialised value", ds.lineno)
    cs = A.nf("context_summary")
    csp = pos_params(cs)
    R.check(bool(csp) and f"sha256_bytes(canonical_json_bytes({csp[0]}))" in digest_text(cs), r_dig, A.rel("context_summary"), A.qn("context_summary"), "sha256 = sha256_bytes(canonical_json_bytes(context_view))", "context digest is not the hash of the canonical JSON of the snapshot", cs.lineno)
    cj = repo.func(UTILS, "canonical_json_bytes")
    dumps = [c for c in calls_in(cj) if call_name(c) == "json.dumps"]
    ok = bool(dumps) and all(is_const(expand(cj, call_kwarg(cj, c, "sort_keys")), True) for c in dumps)  # written at the call or in an options mapping spread into it
    R.check(ok, r_dig, UTILS, "canonical_json_bytes", "json.dumps(..., sort_keys=True)", "canonical JSON depends on mapping order: equal content gives different digests", cj.lineno)
    r_enc = R.rule("C07-D5-one-encoding", "serialize() (whose bytes are hashed into the data digests and compared by _stable_equal to decide updated_keys) gives different values different bytes: values of JSON-native types (str, numbers, bool, None, list, dict) are encoded by canonical_json_bytes only; the other producers are the own bytes of a bytes-like object and the repr last resort inside an exception handler", 4)
    r_whole = R.rule("C07-D5-whole-content", "the bytes that are hashed into the data / context digests and compared by _stable_equal are a rendering of the whole value: on the way from the value to the bytes (through serialize(), the helpers it returns from, the renderers they call and the json `default` hook) nothing cuts a rendering by position, abbreviates it, formats it with a precision or lets a summary (len / id / hash / type) stand in for it; the hash function consumes all of those bytes", 5)
    serialize_encoders(repo, R, r_enc, r_whole)
    # the hash itself: everything fed to the hash object is the whole bytes argument
    for role_fn in {id(f): (m, f) for m, f in hash_functions(repo, A)}.values():
        hm, hraw = role_fn
        hf = _plain_form(repo, hm, hraw)
        hp = (pos_params(hf) or [None])[0]
        fed = [a for c in calls_in(hf) for a in c.args if hp and ((call_attr(c) == "update") or (_qualified(hm, c).startswith("hashlib."))) and _reads(hf, a, hp)]
        loss = next((l for l in (content_loss(repo, hm, hf, a, hp) for a in fed) if l is not None), None)
        if loss is not None:
            R.violation(r_whole, loss[1], loss[2], norm(hf)[:80], f"{loss[0]}: the digest is computed from a part of the serialised bytes only, so contents that differ elsewhere share a digest", loss[3])
        else:
            R.check(bool(fed) and any(dotted_name(expand(hf, a)) == hp or (isinstance(a, ast.Subscript) and dotted_name(a.value) == hp and _chunk_of_walk(a)) for a in fed), r_whole, hm.rel, qualname_of(hraw), "the hash object is fed the whole bytes argument", "the bytes argument itself never reaches the hash object: the digest is not a function of the serialised content", hf.lineno)
    summ_fns = {}
    summ_roles: Dict[str, Dict[str, Optional[str]]] = {}  # helper -> producer -> the parameter it summarises
    for helper, keys in (("init_summaries", {"input_data": "data_summary", "pre_context": "context_summary"}), ("augment_summaries", {"output_data": "data_summary", "post_context": "context_summary"})):
        f = A.nf(helper)
        summ_fns[helper] = f
        params = pos_params(f)
        summ_roles[helper] = {}
        for key, producer in keys.items():
            stores = [n for n in ast.walk(f) if isinstance(n, ast.Assign) and any(isinstance(t, ast.Subscript) and isinstance(t.slice, ast.Constant) and t.slice.value == key for t in n.targets)]
            ok = bool(stores)
            for s in stores:
                vals = assigned_value(f, s.value.id) if isinstance(s.value, ast.Name) else [s.value]
                # the summarised value is a parameter of this helper (which one: by role, checked at the call site)
                prod_fn = A.fn(producer)
                first = (pos_params(prod_fn) or [""])[0]
                args0 = {dotted_name(expand(f, bind_args(v, prod_fn)[first])) if isinstance(v, ast.Call) and first in bind_args(v, prod_fn) else None for v in vals}
                want_arg = next(iter(args0)) if len(args0) == 1 else None
                summ_roles[helper][producer] = want_arg if want_arg in params and want_arg != "self" else None
                ok = ok and bool(vals) and want_arg is not None and want_arg in params and want_arg != "self" and all(A.is_call(v, producer) for v in vals)
                # only gated on the summary being non-empty
                for a in ancestors(s):
                    if isinstance(a, ast.If) and a is not f:
                        tn = {x.id for x in ast.walk(a.test) if isinstance(x, ast.Name)} - {"len", "bool"}
                        ok = ok and tn <= {dotted_name(s.value) or ""}
            R.check(ok, r_dig, A.rel(helper), A.qn(helper), f"summaries[{key!r}] = {A.name(producer)}(this call's value)", f"summaries[{key!r}] is not (always) recomputed from the value passed to this call: stale or copied digests", f.lineno)
    for c in calls_in(ex):
        if A.is_call(c, "init_summaries"):
            b = bind_args(c, summ_fns["init_summaries"])
            use = use_node(c)
            roles = summ_roles["init_summaries"]
            ok = dotted_name(b.get(roles.get("data_summary") or "")) == DATA and dotted_name(b.get(roles.get("context_summary") or "")) == PRE and before_run(use)
            R.check(ok, r_dig, ORCH, EXECUTE, "_init_summaries(<input data>, <pre-node view>, ...)", "input summaries are not taken from the input data and pre snapshot", c.lineno)
        if A.is_call(c, "augment_summaries"):
            b = bind_args(c, summ_fns["augment_summaries"])
            roles = summ_roles["augment_summaries"]
            okv, why = post_view(c, b.get(roles.get("context_summary") or ""))
            R.check(okv and output_data(c, b.get(roles.get("data_summary") or "")), r_dig, ORCH, EXECUTE, f"_augment_output_summaries(.., <output data>, <post-node view>, ..) ({'failure handler' if in_handler(c) else 'success path'})", "output summaries are not taken from the output data and a context snapshot taken after the node ran" + (f": {why}" if why else ""), c.lineno)

    # ------------------------------------------------------------------ D6 durations, D7 ref
    r_misc = R.rule("C07-D6D7-duration-and-ref", "wall_ms/cpu_ms = int((now - start) * 1000) with start read by _start_timing; processor.ref is module.qualname of node.processor's class for the node that ran", 9)
    for role in ("start_timing", "end_timing"):
        if not A.has(role):
            raise AnalysisError(f"execute(): the timing helper in the role `{role}` was not found (the violation is reported under C07-D1)")
    et = A.nf("end_timing")
    st = A.nf("start_timing")
    ETQ, STQ = A.qn("end_timing"), A.qn("start_timing")
    etp = pos_params(et)
    et_ret = [v for v in (expand(et, r.value) for r in walk_no_nested(et) if isinstance(r, ast.Return)) if isinstance(v, ast.Tuple) and len(v.elts) == 3]
    st_ret = [v for v in (expand(st, r.value) for r in walk_no_nested(st) if isinstance(r, ast.Return)) if isinstance(v, ast.Tuple) and len(v.elts) == 3]
    if len(etp) < 2 or len(et_ret) != 1 or len(st_ret) != 1:
        raise AnalysisError(f"{STQ}/{ETQ}: 3-tuple returns or start parameters vanished")
    for label, idx, clock, pidx in (("wall_ms", 1, "time.time", 0), ("cpu_ms", 2, "time.process_time", 1)):
        v = expand(et, et_ret[0].elts[idx])
        subs = [b for b in ast.walk(v) if isinstance(b, ast.BinOp) and isinstance(b.op, ast.Sub)]
        ok = len(subs) == 1 and isinstance(subs[0].left, ast.Call) and call_name(subs[0].left) == clock and not subs[0].left.args and dotted_name(subs[0].right) == etp[pidx]
        R.check(ok, r_misc, A.rel("end_timing"), ETQ, f"{label} = int(({clock}() - <start>) * 1000)", f"{label} is not end minus start of the matching clock", et.lineno)
        sv = expand(st, st_ret[0].elts[pidx])
        R.check(isinstance(sv, ast.Call) and call_name(sv) == clock and not sv.args, r_misc, A.rel("start_timing"), STQ, f"start[{pidx}] = {clock}()", f"the start value for {label} is not read from {clock}()", st.lineno)

    for c in calls_in(ex):
        if A.is_call(c, "end_timing"):
            b = bind_args(c, et)
            ok = unpack_of(b.get(etp[0]), "start_timing", 0, exclusive=False) and unpack_of(b.get(etp[1]), "start_timing", 1, exclusive=False)
            R.check(ok, r_misc, ORCH, EXECUTE, f"_end_timing(<start wall>, <start cpu>) from _start_timing() ({'failure handler' if in_handler(c) else 'success path'})", "durations are not measured from the values read by _start_timing()", c.lineno)
    for c in A.record_calls:
        ok = timing_entry_ok(c, "wall_ms", "end_timing", 1, True) and timing_entry_ok(c, "cpu_ms", "end_timing", 2, True)
        R.check(ok, r_misc, ORCH, EXECUTE, f"SER ({status_of(c)}): timing.wall_ms / cpu_ms from _end_timing()", "SER durations do not come from _end_timing()", c.lineno)
    node_kw = {p for c in A.record_calls for p, v in bind_args(c, mk, ex).items() if dotted_name(v) == NODE}
    NK = next(iter(node_kw)) if len(node_kw) == 1 else None
    ref = dict_entry(proc, "ref")
    tags = expand(mk, call_kwarg(mk, ser_calls[0], "tags")) if ser_calls else None

    def names_class(e: Optional[ast.AST]) -> bool:
        if e is None or NK is None:
            return False
        parts = joined_parts(e)
        if parts is not None:
            e = ast.JoinedStr(values=[x if isinstance(x, ast.Constant) else ast.FormattedValue(value=x, conversion=-1, format_spec=None) for x in parts])
        s = ast.unparse(e).replace(f"type({NK}.processor)", f"{NK}.processor.__class__")
        return s in (f"f'{{{NK}.processor.__class__.__module__}}.{{{NK}.processor.__class__.__qualname__}}'", f"{NK}.processor.__class__.__module__ + '.' + {NK}.processor.__class__.__qualname__")

    R.check(names_class(ref) and (dict_entry(tags, "node_ref") is None or names_class(dict_entry(tags, "node_ref"))), r_misc, A.rel("record"), A.qn("record"), "processor.ref = f'{node.processor.__class__.__module__}.{...__qualname__}'", "processor.ref does not name the class of the processor object that ran", mk.lineno)
    R.check(NODE in {x.id for x in ast.walk(loop.target) if isinstance(x, ast.Name)}, r_misc, ORCH, EXECUTE, "the node that runs is the loop's current node", "the node callable does not run the loop's current node", loop.lineno)
    for c in A.record_calls:
        if True:
            R.check(NK is not None and dotted_name(bind_args(c, mk, ex).get(NK)) == NODE, r_misc, ORCH, EXECUTE, f"_make_ser_record(node=<the node that ran>) ({status_of(c)})", "the SER is built for a different node object than the one that ran", c.lineno)

    # ------------------------------------------------------------------ D8 node-local facts
    r_loc = R.rule("C07-D8-node-local-facts", "what a SER says about a node is computed from that node, its configuration, data and pre/post context: the per-node path of execute() (loop body and everything it calls in the execution / trace packages) reads no instance attribute that the same path writes (memo, counter, remembered view) - such a cell carries an earlier node's or run's answer into a later record", 12)
    node_local_facts(repo, R, r_loc, ex, loop, (A.rel("compute"), A.fn("compute")))
    from . import c04_rest

    R.rule_prefix = "C07-D8/"
    try:
        sl = [(omod_rel, qualname_of(f), f) for omod_rel, f in per_node_roots(repo, loop, (A.rel("compute"), A.fn("compute")))]
        c04_rest.no_process_state(repo, R, sl)
        R.minimum["C07-D8/C04-D3a-no-process-state"] = 12
    finally:
        R.rule_prefix = ""
