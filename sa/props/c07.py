"""C07 - what a Semantic Execution Record says about its node is true.

D1 timestamps denote UTC, D2 parameter provenance follows the run-time chain, D3 built-in
checks have the right polarity and inputs, D4 context delta is a pre/post diff of this node,
D5 digests are one function of content, D6 durations end - start, D7 processor.ref names the
class that ran.
"""
from __future__ import annotations

import ast
from typing import Dict, List, Optional, Set, Tuple

from ..cfg import CFG
from ..engine import (
    AnalysisError,
    FuncNode,
    Repo,
    ancestors,
    assigned_value,
    call_attr,
    call_name,
    calls_in,
    dotted_name,
    kwarg,
    norm,
    qualname_of,
    stmt_of,
    walk_no_nested,
)
from ..report import Report
from ._orch import ORCH, EXECUTE

JSONL = "semantiva/trace/drivers/jsonl.py"
DELTA = "semantiva/trace/delta_collector.py"
UTILS = "semantiva/trace/_utils.py"
O = "SemantivaOrchestrator."
TS_FILES = [ORCH, JSONL, "semantiva/trace/runtime/run_space_emitter.py", UTILS, "semantiva/trace/model.py"]


def utc_anchored(expr: ast.AST) -> Optional[bool]:
    """True/False for a clock read inside *expr* (None when there is none)."""
    verdict: Optional[bool] = None
    for c in ast.walk(expr):
        if not isinstance(c, ast.Call):
            continue
        d = call_name(c) or ""
        tail = d.split(".")[-1]
        if tail == "now" and "datetime" in d:
            tz = c.args[0] if c.args else kwarg(c, "tz")
            ok = tz is not None and "utc" in ast.unparse(tz).lower()
            verdict = ok if verdict is None else (verdict and ok)
        elif tail in ("utcnow", "utcfromtimestamp", "gmtime"):
            verdict = True if verdict is None else verdict
        elif tail in ("fromtimestamp",):
            tz = c.args[1] if len(c.args) > 1 else kwarg(c, "tz")
            ok = tz is not None and "utc" in ast.unparse(tz).lower()
            verdict = ok if verdict is None else (verdict and ok)
        elif tail in ("localtime", "today", "ctime", "asctime"):
            verdict = False
    return verdict


def z_labelled(fn: ast.AST) -> List[ast.AST]:
    """Expressions in *fn* that attach the UTC designator 'Z' to a time string."""
    out = []
    for n in ast.walk(fn):
        if isinstance(n, ast.BinOp) and isinstance(n.op, ast.Add) and isinstance(n.right, ast.Constant) and n.right.value == "Z":
            out.append(n)
        if isinstance(n, ast.JoinedStr) and n.values and isinstance(n.values[-1], ast.Constant) and str(n.values[-1].value).endswith("Z") and any(isinstance(v, ast.FormattedValue) for v in n.values):
            out.append(n)
        if isinstance(n, ast.Call) and call_attr(n) == "strftime" and n.args and isinstance(n.args[0], ast.Constant) and isinstance(n.args[0].value, str) and n.args[0].value.endswith("Z"):
            out.append(n)
    return out


def run(repo: Repo, R: Report) -> None:
    R.assume(
        "datetime.now(timezone.utc) / utcnow() read the true UTC instant; time.time() does not step backwards within one node (wall-clock steps are outside the quantifier)",
        "serialize()/canonical_json_bytes() are functions of content for framework data types (repr last resort is content-determined for objects with __dict__)",
    )
    R.undecided("that processor.parameters *values* equal what was passed for arbitrary processors (channel and source table are pinned, not values)", "non-decreasing timestamps under a wall clock stepping backwards")

    # ------------------------------------------------------------------ D1 UTC
    r_utc = R.rule("C07-D1-utc-timestamps", "every string labelled with the UTC designator Z is produced from a UTC-anchored clock read; SER timing and driver timestamps come from such producers", 4)
    producers: Dict[str, str] = {}
    n_z = 0
    for rel in TS_FILES:
        if not repo.has_module(rel):
            continue
        mod = repo.module(rel)
        for qn, fn in [(q, n) for q, n in mod.defs.items() if isinstance(n, FuncNode)]:
            own = [z for z in z_labelled(fn) if next((a for a in ancestors(z) if isinstance(a, FuncNode)), None) is fn]
            for z in own:
                n_z += 1
                # the clock may be read in this expression or in a local it uses
                scope: List[ast.AST] = [z]
                for nm in {x.id for x in ast.walk(z) if isinstance(x, ast.Name)}:
                    scope.extend(assigned_value(fn, nm))
                for nm in list({x.id for s in scope for x in ast.walk(s) if isinstance(x, ast.Name)}):
                    scope.extend(assigned_value(fn, nm))
                verdicts = [utc_anchored(s) for s in scope]
                params = {a.arg for a in fn.args.args}
                from_param = any(isinstance(x, ast.Name) and x.id in params and x.id != "self" for s in scope for x in ast.walk(s))
                if any(v is False for v in verdicts):
                    R.violation(r_utc, rel, qn, norm(stmt_of(z))[:110], "a naive local-time reading is labelled Z: on a host that is not in UTC every such timestamp is off by the zone offset", z.lineno)
                elif any(v is True for v in verdicts):
                    R.ok(r_utc, rel, qn, norm(stmt_of(z))[:110], "UTC-anchored", z.lineno)
                    producers[fn.name] = rel
                elif from_param and any(isinstance(c, ast.Call) and "fromtimestamp" in (call_name(c) or "") for s in scope for c in ast.walk(s)):
                    R.violation(r_utc, rel, qn, norm(stmt_of(z))[:110], "an epoch value is converted with a naive fromtimestamp() and labelled Z", z.lineno)
                else:
                    R.violation(r_utc, rel, qn, norm(stmt_of(z))[:110], "a Z-labelled string whose clock source is not recognisably UTC-anchored", z.lineno)
    if n_z < 2:
        raise AnalysisError(f"only {n_z} Z-labelled timestamp producer(s) found (2 confirmed by reading)")
    # SER timing flows from the producers
    for helper, idx in (("_start_timing", 2), ("_end_timing", 0)):
        f = repo.func(ORCH, O + helper)
        rets = [n for n in walk_no_nested(f) if isinstance(n, ast.Return)]
        ok = False
        for r in rets:
            if isinstance(r.value, ast.Tuple) and len(r.value.elts) > idx:
                e = r.value.elts[idx]
                vals = assigned_value(f, e.id) if isinstance(e, ast.Name) else [e]
                ok = bool(vals) and all(isinstance(v, ast.Call) and call_attr(v) in producers for v in vals)
        R.check(ok, r_utc, ORCH, O + helper, f"{helper}() iso element comes from a UTC producer", "SER started_at/finished_at is not produced by the UTC timestamp helper", f.lineno)
    ex = repo.func(ORCH, EXECUTE)
    for c in calls_in(ex):
        if call_attr(c) == "_make_ser_record":
            t = kwarg(c, "timing")
            tk = {k.value: v for k, v in zip(t.keys, t.values) if isinstance(k, ast.Constant)} if isinstance(t, ast.Dict) else {}
            ok = True
            for key, helper, pos in (("started_at", "_start_timing", 2), ("finished_at", "_end_timing", 0)):
                v = tk.get(key)
                name = dotted_name(v)
                defs = [n for n in walk_no_nested(ex) if isinstance(n, ast.Assign) and isinstance(n.targets[0], ast.Tuple) and any(dotted_name(e) == name for e in n.targets[0].elts) and isinstance(n.value, ast.Call)]
                good = [d for d in defs if call_attr(d.value) == helper and [dotted_name(e) for e in d.targets[0].elts].index(name) == pos]
                ok = ok and bool(good) and len(good) == len(defs)
            R.check(ok, r_utc, ORCH, EXECUTE, f"timing of SER ({getattr(kwarg(c, 'status'), 'value', '?')}) from _start_timing/_end_timing", "SER timing strings do not come from the timing helpers", c.lineno)
    for qn in ("JsonlTraceDriver.on_pipeline_start", "JsonlTraceDriver.on_pipeline_end", "JsonlTraceDriver.on_run_space_start", "JsonlTraceDriver.on_run_space_end"):
        f = repo.func(JSONL, qn)
        ts = [v for n in walk_no_nested(f) if isinstance(n, ast.Dict) for k, v in zip(n.keys, n.values) if isinstance(k, ast.Constant) and k.value == "timestamp"]
        ok = bool(ts) and all(isinstance(v, ast.Call) and call_attr(v) in producers for v in ts)
        R.check(ok, r_utc, JSONL, qn, "record.timestamp from the UTC producer", "lifecycle record timestamp is not produced by the UTC timestamp helper", f.lineno)

    # ------------------------------------------------------------------ D2 provenance
    r_prov = R.rule("C07-D2-parameter-provenance", "the SER labels every processing parameter with the channel the run-time chain picks: node config, else context (for every processing parameter name, not only required ones), else the processor's declared default; later steps never overwrite earlier ones", 6)
    rp = repo.func(ORCH, O + "_resolve_params_with_sources")
    stores = [n for n in walk_no_nested(rp) if isinstance(n, ast.Assign) and any(isinstance(t, ast.Subscript) and dotted_name(t.value) == "source_out" for t in n.targets)]
    order = []
    for s in stores:
        lab = s.value.value if isinstance(s.value, ast.Constant) else None
        loop = next((a for a in ancestors(s) if isinstance(a, ast.For)), None)
        guards = [a for a in ancestors(s) if isinstance(a, ast.If)]
        order.append((s.lineno, lab, loop, guards, s))
    labels = [o[1] for o in order]
    first_ctx = labels.index("context") if "context" in labels else -1
    last_ctx = max((i for i, l in enumerate(labels) if l == "context"), default=-1)
    first_def = min((i for i, l in enumerate(labels) if l == "default"), default=-1)
    R.check("node" in labels and first_ctx > labels.index("node") and first_def > last_ctx >= 0, r_prov, ORCH, O + "_resolve_params_with_sources", f"label order {labels}", "labels are not assigned in the order node, context, default", rp.lineno)
    for _ln, lab, loop, guards, s in order:
        if lab in ("context", "default"):
            guarded = any("not in params_out" in ast.unparse(g.test) for g in guards) or any(isinstance(x, ast.If) and "in params_out" in ast.unparse(x.test) and any(isinstance(y, ast.Continue) for y in x.body) for x in (loop.body if loop else []))
            R.check(guarded, r_prov, ORCH, O + "_resolve_params_with_sources", norm(s) + " [first writer wins]", f"the {lab} step can overwrite a label assigned by a higher-precedence channel", s.lineno)
        if lab == "context" and loop is not None:
            it_names = {x.id for x in ast.walk(loop.iter) if isinstance(x, ast.Name)}
            pn_defs = [v for nm in it_names for v in assigned_value(rp, nm)]
            covers = any("get_processing_parameter_names" in ast.unparse(v) or any(isinstance(x, ast.Name) and x.id == "name_getter" for x in ast.walk(v)) for v in pn_defs)
            R.check(covers, r_prov, ORCH, O + "_resolve_params_with_sources", norm(loop) + " [domain]", "the context step does not range over all processing parameter names: a defaulted parameter overridden by context is never labelled `context` (and is missing from processor.parameters)", loop.lineno)
            present = any("in ctx_view" in ast.unparse(g.test) for g in guards)
            R.check(present, r_prov, ORCH, O + "_resolve_params_with_sources", norm(s) + " [present in context]", "context label assigned without testing that the key is in the pre-node context", s.lineno)
    dd = [v for v in assigned_value(rp, "declared_defaults")]
    R.check(bool(dd) and all(isinstance(v, ast.Call) and call_attr(v) == "_parameter_defaults" for v in dd), r_prov, ORCH, O + "_resolve_params_with_sources", "defaults from _parameter_defaults(node.processor)", "the default step does not read the processor's declared parameter table", rp.lineno)
    # values recorded come from the matching channel
    for _ln, lab, loop, guards, s in order:
        blk_assigns = [n for n in ast.walk(loop if loop else rp) if isinstance(n, ast.Assign) and any(isinstance(t, ast.Subscript) and dotted_name(t.value) == "params_out" for t in n.targets)]
        near = [b for b in blk_assigns if abs(b.lineno - s.lineno) <= 2]
        if lab == "context":
            R.check(bool(near) and all("ctx_view" in ast.unparse(b.value) for b in near), r_prov, ORCH, O + "_resolve_params_with_sources", "context value = ctx_view[k]", "the value recorded for a context-sourced parameter is not read from the pre-node context", s.lineno)
    # call site passes the pre-node snapshot
    call = next((c for c in calls_in(ex) if call_attr(c) == "_resolve_params_with_sources"), None)
    ok = call is not None and len(call.args) >= 3 and dotted_name(call.args[2]) == "pre_ctx_view" and dotted_name(call.args[0]) == "node"
    R.check(ok, r_prov, ORCH, EXECUTE, "_resolve_params_with_sources(node, node_def, pre_ctx_view, ...)", "provenance is not reconstructed from this node and its pre-node context", ex.lineno)

    # ------------------------------------------------------------------ D3 checks
    r_chk = R.rule("C07-D3-check-polarity", "built-in checks report PASS exactly when the condition holds, on the right inputs (pre snapshot / input data, post snapshot / output data)", 8)
    pre = repo.func(ORCH, O + "_build_pre_checks")
    post = repo.func(ORCH, O + "_build_post_checks")
    tce = repo.func(ORCH, O + "_type_check_entry")

    def pass_iff_empty(fn, var, label):
        hits = [n for n in ast.walk(fn) if isinstance(n, ast.IfExp) and isinstance(n.body, ast.Constant) and n.body.value == "PASS"]
        good = [h for h in hits if isinstance(h.test, ast.UnaryOp) and isinstance(h.test.op, ast.Not) and dotted_name(h.test.operand) == var and isinstance(h.orelse, ast.Constant) and h.orelse.value == "FAIL"]
        R.check(bool(good), r_chk, ORCH, qualname_of(fn), f"{label}: 'PASS' if not {var} else 'FAIL'", f"{label} does not report PASS exactly when `{var}` is empty", fn.lineno)

    pass_iff_empty(pre, "missing", "required_keys_present")
    pass_iff_empty(post, "missing", "context_writes_realized")
    mv = assigned_value(pre, "missing")
    ok = len(mv) == 1 and isinstance(mv[0], ast.ListComp) and dotted_name(mv[0].generators[0].iter) == "required_keys" and len(mv[0].generators[0].ifs) == 1 and ast.unparse(mv[0].generators[0].ifs[0]).replace(" ", "") == f"{ast.unparse(mv[0].generators[0].target)}notincontext_view"
    R.check(ok, r_chk, ORCH, O + "_build_pre_checks", "missing = [k for k in required_keys if k not in context_view]", "pre-check `missing` is not (required keys) minus (keys of the pre snapshot)", pre.lineno)
    mv = assigned_value(post, "missing")
    ok = len(mv) == 1 and isinstance(mv[0], ast.ListComp) and "created" in ast.unparse(mv[0].generators[0].iter) and "updated" in ast.unparse(mv[0].generators[0].iter) and len(mv[0].generators[0].ifs) == 1 and "not in context_view" in ast.unparse(mv[0].generators[0].ifs[0])
    R.check(ok, r_chk, ORCH, O + "_build_post_checks", "missing = [k for k in created + updated if k not in context_view]", "post-check `missing` is not (created ∪ updated) minus (keys of the post snapshot)", post.lineno)
    # type check polarity
    fails = [n for n in ast.walk(tce) if isinstance(n, ast.Assign) and isinstance(n.value, ast.Constant) and n.value.value == "FAIL"]
    ok = False
    for f in fails:
        tests = [a.test for a in ancestors(f) if isinstance(a, ast.If)]
        ok = ok or any(isinstance(t, ast.UnaryOp) and isinstance(t.op, ast.Not) and "isinstance(value" in ast.unparse(t.operand) and "any(" in ast.unparse(t.operand) for t in tests)
    init_pass = any(isinstance(n, ast.Assign) and isinstance(n.value, ast.Constant) and n.value.value == "PASS" for n in walk_no_nested(tce))
    R.check(ok and init_pass, r_chk, ORCH, O + "_type_check_entry", "FAIL iff not any(isinstance(value, t) ...)", "type check polarity changed", tce.lineno)
    # which type on which data
    for fn, getter, code in ((pre, "input_data_type", "input_type_ok"), (post, "output_data_type", "output_type_ok")):
        src = ast.unparse(fn)
        calls = [c for c in calls_in(fn) if call_attr(c) == "_type_check_entry"]
        ok = len(calls) == 1 and isinstance(calls[0].args[0], ast.Constant) and calls[0].args[0].value == code and dotted_name(calls[0].args[2]) == "data"
        exp = assigned_value(fn, dotted_name(calls[0].args[1]) or "") if calls else []
        ok = ok and bool(exp) and getter in ast.unparse(exp[0]) and "node.processor" in ast.unparse(exp[0])
        R.check(ok, r_chk, ORCH, qualname_of(fn), f"{code}: processor.{getter}() against data", f"{code} does not test the data against the processor's declared {getter}", fn.lineno)
    # call sites: pre with pre snapshot and data before the node; post with post snapshot after reassigning data
    g = CFG(ex, may_raise=lambda p: set())
    sub = next((n for n in g.nodes if n.ast is not None and n.kind == "stmt" and any(call_attr(c) == "_submit_and_wait" for c in calls_in(n.ast))), None)
    if sub is None:
        raise AnalysisError("execute(): node run statement not found")
    for c in calls_in(ex):
        if call_attr(c) == "_build_pre_checks":
            n = g.nodes_for(stmt_of(c))
            ok = dotted_name(c.args[1]) == "pre_ctx_view" and dotted_name(c.args[2]) == "data" and bool(n) and g.dominated_by_node(sub.id, n[0])
            R.check(ok, r_chk, ORCH, EXECUTE, "pre-checks built before the node runs, on pre_ctx_view and input data", "pre-checks are not computed from the state before the node ran", c.lineno)
        if call_attr(c) == "_build_post_checks":
            n = g.nodes_for(stmt_of(c))
            ok = dotted_name(c.args[1]) == "post_ctx_view" and dotted_name(c.args[2]) == "data" and bool(n) and (g.dominated_by_node(n[0], sub.id))
            R.check(ok, r_chk, ORCH, EXECUTE, f"post-checks (line {c.lineno}) built after the node ran, on post_ctx_view and output data", "post-checks are not computed from the state after the node ran", c.lineno)

    # ------------------------------------------------------------------ D4 delta
    r_d = R.rule("C07-D4-context-delta", "created = post - pre keys, updated = common keys whose values differ, both sorted; pre snapshot taken before and post snapshot after the node; snapshots are copies", 7)
    comp = repo.func(DELTA, "DeltaCollector.compute")
    cv = assigned_value(comp, "created")
    ok = len(cv) == 1 and isinstance(cv[0], ast.BinOp) and isinstance(cv[0].op, ast.Sub) and dotted_name(cv[0].left) == "post_keys" and dotted_name(cv[0].right) == "pre_keys"
    R.check(ok, r_d, DELTA, "DeltaCollector.compute", "created = post_keys - pre_keys", "created keys are not (post keys) minus (pre keys)", comp.lineno)
    pk = assigned_value(comp, "pre_keys") + assigned_value(comp, "post_keys")
    ok = len(pk) == 2 and "pre_ctx" in ast.unparse(pk[0]) and "post_ctx" in ast.unparse(pk[1])
    R.check(ok, r_d, DELTA, "DeltaCollector.compute", "pre_keys/post_keys from pre_ctx/post_ctx", "key sets are not taken from the respective snapshots", comp.lineno)
    mu = assigned_value(comp, "maybe_updated")
    ok = len(mu) == 1 and isinstance(mu[0], ast.BinOp) and isinstance(mu[0].op, ast.BitAnd) and {dotted_name(mu[0].left), dotted_name(mu[0].right)} == {"pre_keys", "post_keys"}
    R.check(ok, r_d, DELTA, "DeltaCollector.compute", "maybe_updated = post_keys & pre_keys", "updated candidates are not the common keys", comp.lineno)
    uv = assigned_value(comp, "updated")
    ok = len(uv) == 1 and isinstance(uv[0], ast.Call) and call_attr(uv[0]) == "sorted" and "maybe_updated" in ast.unparse(uv[0]) and "not _stable_equal(pre_ctx.get(k), post_ctx.get(k))" in ast.unparse(uv[0])
    R.check(ok, r_d, DELTA, "DeltaCollector.compute", "updated = sorted(k in common if values differ)", "updated keys are not the common keys whose value changed (sorted)", comp.lineno)
    rets = [n for n in walk_no_nested(comp) if isinstance(n, ast.Return) and isinstance(n.value, ast.Dict)]
    ok = False
    for r in rets:
        d = {k.value: v for k, v in zip(r.value.keys, r.value.values) if isinstance(k, ast.Constant)}
        ck, uk = d.get("created_keys", d.get("created")), d.get("updated_keys", d.get("updated"))
        def from_(e, root):
            if e is None:
                return False
            names = {x.id for x in ast.walk(e) if isinstance(x, ast.Name)}
            for nm in list(names):
                for v in assigned_value(comp, nm):
                    names |= {x.id for x in ast.walk(v) if isinstance(x, ast.Name)}
            return root in names
        ok = from_(ck, "created") and from_(uk, "updated") and not from_(ck, "updated")
    R.check(ok, r_d, DELTA, "DeltaCollector.compute", "returned created_keys/updated_keys are those sets", "the returned delta swaps or drops the computed sets", comp.lineno)
    # execute: provider diff of pre snapshot (before) and a fresh post snapshot (after)
    prov = [k.value for c in calls_in(ex) if call_attr(c) == "SERHooks" for k in c.keywords if k.arg == "context_delta_provider"]
    ok = bool(prov) and isinstance(prov[0], ast.Lambda) and dotted_name(kwarg(prov[0].body, "pre_ctx")) == "pre_ctx_view" and isinstance(kwarg(prov[0].body, "post_ctx"), ast.Call) and call_attr(kwarg(prov[0].body, "post_ctx")) == "_context_snapshot"
    R.check(ok, r_d, ORCH, EXECUTE, "delta = compute(pre_ctx=pre_ctx_view, post_ctx=snapshot(context) at call time)", "the delta is not the diff between the pre-node snapshot and the post-node context", ex.lineno)
    pre_def = [n for n in g.nodes if n.ast is not None and isinstance(n.ast, ast.Assign) and dotted_name(n.ast.targets[0]) == "pre_ctx_view"]
    ok = len(pre_def) == 1 and isinstance(pre_def[0].ast.value, ast.Call) and call_attr(pre_def[0].ast.value) == "_context_snapshot" and g.dominated_by_node(sub.id, pre_def[0].id) and any(isinstance(a, ast.For) for a in ancestors(pre_def[0].ast))
    R.check(ok, r_d, ORCH, EXECUTE, "pre_ctx_view = snapshot(context) inside the loop, before the node runs", "the pre snapshot is not taken per node before it runs", ex.lineno)
    snap = repo.func(ORCH, O + "_context_snapshot")
    rets = [n for n in walk_no_nested(snap) if isinstance(n, ast.Return)]
    ok = bool(rets) and all((isinstance(r.value, ast.Call) and call_attr(r.value) == "dict") or (isinstance(r.value, ast.Dict) and not r.value.keys) for r in rets)
    R.check(ok, r_d, ORCH, O + "_context_snapshot", "every return is dict(...) or {}", "a snapshot aliases the live context: pre and post views are the same object and the delta is always empty", snap.lineno)

    # ------------------------------------------------------------------ D5 digests
    r_dig = R.rule("C07-D5-digests", "input and output data digests come from one helper on the value itself; pre/post context digests are computed from the respective snapshot passed to that call (never copied between entries)", 6)
    ds = repo.func(ORCH, O + "_data_summary")
    src = ast.unparse(ds)
    R.check("sha256_bytes(serialize(data))" in src, r_dig, ORCH, O + "_data_summary", "sha256 = sha256_bytes(serialize(data))", "data digest is not the hash of the serialised value", ds.lineno)
    cs = repo.func(ORCH, O + "_context_summary")
    R.check("sha256_bytes(canonical_json_bytes(context_view))" in ast.unparse(cs), r_dig, ORCH, O + "_context_summary", "sha256 = sha256_bytes(canonical_json_bytes(context_view))", "context digest is not the hash of the canonical JSON of the snapshot", cs.lineno)
    cj = repo.func(UTILS, "canonical_json_bytes")
    dumps = [c for c in calls_in(cj) if call_name(c) == "json.dumps"]
    ok = bool(dumps) and isinstance(kwarg(dumps[0], "sort_keys"), ast.Constant) and kwarg(dumps[0], "sort_keys").value is True
    R.check(ok, r_dig, UTILS, "canonical_json_bytes", "json.dumps(..., sort_keys=True)", "canonical JSON depends on mapping order: equal content gives different digests", cj.lineno)
    for helper, keys in (("_init_summaries", {"input_data": "_data_summary", "pre_context": "_context_summary"}), ("_augment_output_summaries", {"output_data": "_data_summary", "post_context": "_context_summary"})):
        f = repo.func(ORCH, O + helper)
        params = [a.arg for a in f.args.args]
        for key, producer in keys.items():
            stores = [n for n in ast.walk(f) if isinstance(n, ast.Assign) and any(isinstance(t, ast.Subscript) and isinstance(t.slice, ast.Constant) and t.slice.value == key for t in n.targets)]
            ok = bool(stores)
            for s in stores:
                vals = assigned_value(f, s.value.id) if isinstance(s.value, ast.Name) else [s.value]
                want_arg = "data" if producer == "_data_summary" else "context_view"
                ok = ok and bool(vals) and all(isinstance(v, ast.Call) and call_attr(v) == producer and v.args and dotted_name(v.args[0]) == want_arg and want_arg in params for v in vals)
                # only gated on the summary being non-empty
                for a in ancestors(s):
                    if isinstance(a, ast.If) and a is not f:
                        tn = {x.id for x in ast.walk(a.test) if isinstance(x, ast.Name)}
                        ok = ok and tn <= {dotted_name(s.value) or ""}
            R.check(ok, r_dig, ORCH, O + helper, f"summaries[{key!r}] = {producer}(this call's value)", f"summaries[{key!r}] is not (always) recomputed from the value passed to this call: stale or copied digests", f.lineno)
    for c in calls_in(ex):
        if call_attr(c) == "_init_summaries":
            R.check([dotted_name(a) for a in c.args[:2]] == ["data", "pre_ctx_view"], r_dig, ORCH, EXECUTE, "_init_summaries(data, pre_ctx_view, ...)", "input summaries are not taken from the input data and pre snapshot", c.lineno)
        if call_attr(c) == "_augment_output_summaries":
            R.check([dotted_name(a) for a in c.args[1:3]] == ["data", "post_ctx_view"], r_dig, ORCH, EXECUTE, f"_augment_output_summaries(summaries, data, post_ctx_view, ...) (line {c.lineno})", "output summaries are not taken from the output data and post snapshot", c.lineno)

    # ------------------------------------------------------------------ D6 durations, D7 ref
    r_misc = R.rule("C07-D6D7-duration-and-ref", "wall_ms/cpu_ms = int((now - start) * 1000); processor.ref is module.qualname of node.processor's class for the node that ran", 4)
    et = repo.func(ORCH, O + "_end_timing")
    for var, clock, start in (("duration_ms", "time.time", "start_wall"), ("cpu_ms", "time.process_time", "start_cpu")):
        vals = assigned_value(et, var)
        ok = False
        for v in vals:
            subs = [b for b in ast.walk(v) if isinstance(b, ast.BinOp) and isinstance(b.op, ast.Sub)]
            for b in subs:
                lefts = assigned_value(et, b.left.id) if isinstance(b.left, ast.Name) else [b.left]
                ok = ok or (bool(lefts) and all(isinstance(l, ast.Call) and call_name(l) == clock for l in lefts) and dotted_name(b.right) == start)
        R.check(ok, r_misc, ORCH, O + "_end_timing", f"{var} = int(({clock}() - {start}) * 1000)", f"{var} is not end minus start", et.lineno)
    mk = repo.func(ORCH, O + "_make_ser_record")
    pc = assigned_value(mk, "proc_cls")
    fq = assigned_value(mk, "fqcn")
    ok = len(pc) == 1 and ast.unparse(pc[0]) == "node.processor.__class__" and len(fq) == 1 and "proc_cls.__module__" in ast.unparse(fq[0]) and "proc_cls.__qualname__" in ast.unparse(fq[0])
    R.check(ok, r_misc, ORCH, O + "_make_ser_record", "fqcn = f'{node.processor.__class__.__module__}.{...__qualname__}'", "processor.ref does not name the class of the processor object that ran", mk.lineno)
    loop = next((a for a in ancestors(sub.ast) if isinstance(a, ast.For)), None)
    lv = loop.target.elts[1].id if loop is not None and isinstance(loop.target, ast.Tuple) and isinstance(loop.target.elts[1], ast.Name) else None
    for c in calls_in(ex):
        if call_attr(c) == "_make_ser_record":
            R.check(dotted_name(kwarg(c, "node")) == lv, r_misc, ORCH, EXECUTE, f"_make_ser_record(node={lv}) ({getattr(kwarg(c, 'status'), 'value', '?')})", "the SER is built for a different node object than the one that ran", c.lineno)
