"""C02 - static inspection is sound (structural preconditions).

D1 one classification for inspection and run time (sibling first-match chains),
D2 the required-key analysis is order-sensitive,
D3 the type-flow check carries across context-only nodes and accepts only what the run-time gate accepts,
D4 keys a component publishes as created are written whatever the context already holds,
D5 the abstract context state is updated completely and in the right order,
D6 run time (get_processing_parameter_names) and inspection (`parameters` metadata) enumerate the same parameters.
D7 the node configuration the run side hands to the node factory is a key-preserving image of the declared one (value flow
   from the run entry through canonical-spec building and node instantiation),
D8 building nodes for inspection does not add/remove entries of the caller-owned parameters mapping (inspect, then run the same object).
"""
from __future__ import annotations

import ast
from typing import Dict, List, Optional, Set, Tuple

from ..cfg import CFG
from ..engine import (
    AnalysisError,
    FuncNode,
    Repo,
    ancestors,
    assigned_value,
    call_attr,
    call_name,
    calls_in,
    dotted_name,
    kwarg,
    norm,
    stmt_of,
    walk_no_nested,
)
from ..report import Report

BUILDER = "semantiva/inspection/builder.py"
VALIDATOR = "semantiva/inspection/validator.py"
PARAMRES = "semantiva/pipeline/_param_resolution.py"
NODES = "semantiva/pipeline/nodes/nodes.py"
BPI = "build_pipeline_inspection"


def _main_loop(fn: ast.FunctionDef) -> ast.For:
    p0 = fn.args.args[0].arg if fn.args.args else "node_configs"
    loops = [n for n in walk_no_nested(fn) if isinstance(n, ast.For) and p0 in _names(n.iter) and any(call_attr(c) == "inspect_origin" for c in calls_in(n))]
    if not loops:
        raise AnalysisError("build_pipeline_inspection: loop over node_configs not found")
    return loops[0]


def state_roles(fn: ast.FunctionDef) -> Tuple[str, str]:
    """Names of the per-node abstract context state (origins, deleted keys): the variables handed to
    inspect_origin as key_origin= / deleted_keys=."""
    for c in calls_in(fn):
        if call_attr(c) == "inspect_origin":
            ko, dk = dotted_name(kwarg(c, "key_origin")), dotted_name(kwarg(c, "deleted_keys"))
            if ko and dk:
                return ko, dk
    raise AnalysisError("build_pipeline_inspection: inspect_origin(key_origin=..., deleted_keys=...) not found")


def _names(e: ast.AST) -> Set[str]:
    return {x.id for x in ast.walk(e) if isinstance(x, ast.Name)}


def _key_state_stores(loop: ast.For, state: str = "key_origin") -> List[ast.AST]:
    out = []
    for n in ast.walk(loop):
        if isinstance(n, ast.Assign) and any(isinstance(t, ast.Subscript) and dotted_name(t.value) == state for t in n.targets):
            out.append(n)
        if isinstance(n, ast.Call) and call_attr(n) in ("setdefault", "update", "__setitem__") and isinstance(n.func, ast.Attribute) and dotted_name(n.func.value) == state:
            out.append(stmt_of(n))
    return out


def required_keys_rule(repo: Repo, R: Report) -> None:
    """C02-D2: the pipeline-level required context keys depend on *where* a key is required."""
    r = R.rule("C02-D2-required-keys-order-sensitive", "the set reported as required context keys is collected per node against the keys produced by *earlier* nodes only (before the node's own created keys are registered), and is not reduced afterwards by keys created anywhere in the pipeline", 3)
    fn = repo.func(BUILDER, BPI)
    loop = _main_loop(fn)
    KO, _DK = state_roles(fn)
    ctor = next((c for c in calls_in(fn) if call_attr(c) == "PipelineInspection"), None)
    if ctor is None:
        raise AnalysisError("build_pipeline_inspection: PipelineInspection(...) not found")
    e = kwarg(ctor, "required_context_keys")
    if e is None:
        raise AnalysisError("PipelineInspection(required_context_keys=...) not found")
    # expand aliases defined after the loop
    exprs = [e]
    base: Set[str] = set()
    seen_alias: Set[str] = set()
    while exprs:
        x = exprs.pop()
        for nm in _names(x):
            if nm in seen_alias:
                continue
            seen_alias.add(nm)
            defs = [v for v in assigned_value(fn, nm)]
            outside = [v for v in defs if not any(a is loop for a in ancestors(v))]
            post = [v for v in outside if getattr(v, "lineno", 0) > loop.end_lineno]
            if post:
                exprs.extend(post)
                # subtraction of an accumulator after the loop
                for v in post:
                    for b in ast.walk(v):
                        is_sub = isinstance(b, ast.BinOp) and isinstance(b.op, ast.Sub)
                        is_diff = isinstance(b, ast.Call) and call_attr(b) in ("difference", "difference_update")
                        if is_sub or is_diff:
                            right = b.right if is_sub else (b.args[0] if b.args else None)
                            rn = _names(right) if right is not None else set()
                            acc = [n for n in rn if _accumulated_in(loop, n)]
                            if acc:
                                R.violation(r, BUILDER, BPI, norm(stmt_of(v)), f"keys created anywhere in the pipeline (`{acc[0]}`) are subtracted after the loop: a key used *before* the node that creates it is not reported as required, so an accepted configuration fails with KeyError at run time", v.lineno)
            else:
                base.add(nm)
    accs = [n for n in base if _accumulated_in(loop, n)]
    if not accs:
        if not R.violations():
            raise AnalysisError("required_context_keys is not built from a per-node accumulator; shape not recognised")
        return
    g = CFG(fn, may_raise=lambda part: set())
    heads = set(g.nodes_for(loop))
    stores = _key_state_stores(loop, KO)
    store_ids = {nid for s in stores for nid in g.nodes_for(s)}
    for acc in accs:
        updates = _updates_of(loop, acc)
        flow = False
        for u in updates:
            txt_names = _names(u)
            # reads the flow state directly, or a value classified by inspect_origin
            reads_state = KO in txt_names or any(
                isinstance(c, ast.Compare) and any(isinstance(k, ast.Constant) and k.value == "required" for k in c.comparators) for a in ancestors(u) if isinstance(a, ast.If) for c in ast.walk(a.test))
            if reads_state:
                flow = True
                # ordering: not after this node's own keys were registered
                uid = g.nodes_for(u)
                saved = {h: g.succ[h] for h in heads}
                for h in heads:
                    g.succ[h] = []
                try:
                    after = g.reach(list(store_ids))
                finally:
                    for h, v in saved.items():
                        g.succ[h] = v
                late = [i for i in uid if i in after]
                R.check(not late, r, BUILDER, BPI, norm(u), "the external-key test runs after the node's own created keys were entered into key_origin: a node that both requires and creates a key (e.g. template \"{run}_v2\":run) satisfies itself and the key is not reported as required", u.lineno)
        R.check(flow, r, BUILDER, BPI, f"accumulator `{acc}` reads the keys produced so far", f"`{acc}` is a monotone accumulator that never consults the per-node context state: the required-key set does not depend on node order", loop.lineno)
    R.ok(r, BUILDER, BPI, norm(stmt_of(e))[:100], "fed by per-node accumulator(s): " + ", ".join(sorted(accs)), e.lineno)


def _accumulated_in(loop: ast.For, name: str) -> bool:
    return bool(_updates_of(loop, name))


def _updates_of(loop: ast.For, name: str) -> List[ast.AST]:
    out = []
    for n in ast.walk(loop):
        if isinstance(n, ast.Call) and call_attr(n) in ("update", "add", "extend", "append") and isinstance(n.func, ast.Attribute) and dotted_name(n.func.value) == name:
            out.append(stmt_of(n))
        if isinstance(n, ast.AugAssign) and dotted_name(n.target) == name:
            out.append(n)
    return out


def run(repo: Repo, R: Report) -> None:
    R.assume("per-node facts declared by processors (created keys, parameter names, data types) are what the processors do")
    R.undecided("the implication 'no inspection error => no flow failure' for arbitrary user processors; the dynamic comparison of reported vs actual per-node facts")
    required_keys_rule(repo, R)
    from . import c02_rest

    c02_rest.run(repo, R)
