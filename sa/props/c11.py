"""C11 - sweep expressions are confined to the safe grammar.

D1 visitor completeness, D2 whitelist <= documented table, D3 validate-before-evaluate.
"""
from __future__ import annotations

import ast
import re
from typing import Dict, List, Optional, Set, Tuple

from ..cfg import CFG, EXC, edges_guaranteeing, returns_only_through
from ..engine import (
    AnalysisError,
    FuncNode,
    Repo,
    call_attr,
    call_name,
    calls_in,
    dotted_name,
    kwarg,
    norm,
    qualname_of,
    walk_no_nested,
)
from ..normal import nfunc
from ..report import Report

SAFE = "semantiva/utils/safe_eval.py"
SWEEP = "semantiva/data_processors/parametric_sweep_factory.py"

# The documented safe grammar (semantiva/utils/safe_eval.py as shipped, restated in
# the property): arithmetic, boolean and comparison operators, conditional
# expression, tuples, constants, names and direct calls.
DOCUMENTED_NODES = {
    "Expression", "Module", "Expr", "Load", "BinOp", "UnaryOp", "BoolOp", "Compare",
    "IfExp", "Call", "Name", "Constant", "Tuple", "Add", "Sub", "Mult", "Div",
    "FloorDiv", "Mod", "Pow", "USub", "UAdd", "And", "Or", "Eq", "NotEq", "Lt",
    "LtE", "Gt", "GtE",
}
DOCUMENTED_FUNCS = {"abs", "min", "max", "round", "float", "int", "str", "bool"}
NON_NODE_TYPES = {"identifier", "int", "string", "constant"}
# who-may-eval: (file, function) -> builtins allowed there, with reason
EVAL_SITES = {
    (SAFE, "ExpressionEvaluator.compile"): {"compile"},
    (SAFE, "ExpressionEvaluator.compile._fn"): {"eval"},
    ("semantiva/trace/_utils.py", "_semantiva_version"): {"exec"},  # reads version.txt of the package
}


def asdl_fields(cls_name: str) -> List[Tuple[str, str, str]]:
    """(type, multiplicity, field) triples of ast.<cls_name> from the interpreter's grammar."""
    cls = getattr(ast, cls_name, None)
    if cls is None or not cls.__doc__:
        return []
    doc = " ".join(cls.__doc__.split())
    m = re.match(r"\w+\((.*)\)$", doc)
    if not m:
        return []
    out = []
    for part in m.group(1).split(","):
        part = part.strip()
        if not part:
            continue
        mm = re.match(r"(\w+)([*?]?)\s+(\w+)$", part)
        if mm:
            out.append((mm.group(1), mm.group(2), mm.group(3)))
    return out


def node_fields(cls_name: str) -> List[Tuple[str, str, str]]:
    return [f for f in asdl_fields(cls_name) if f[0] not in NON_NODE_TYPES and f[0] != "expr_context"]


def set_literal_names(value: ast.AST) -> Optional[Set[str]]:
    """Names in a set/frozenset/tuple/list literal of ``ast.X`` attributes or strings."""
    if isinstance(value, ast.Call) and call_attr(value) in ("set", "frozenset") and len(value.args) == 1:
        value = value.args[0]
    if not isinstance(value, (ast.Set, ast.Tuple, ast.List)):
        return None
    out: Set[str] = set()
    for e in value.elts:
        if isinstance(e, ast.Attribute) and isinstance(e.value, ast.Name) and e.value.id == "ast":
            out.add(e.attr)
        elif isinstance(e, ast.Constant) and isinstance(e.value, str):
            out.add(e.value)
        elif isinstance(e, ast.Name):
            out.add(e.id)
        else:
            return None
    return out


def class_attr(cls: ast.ClassDef, name: str) -> Optional[ast.AST]:
    for st in cls.body:
        if isinstance(st, ast.Assign) and any(isinstance(t, ast.Name) and t.id == name for t in st.targets):
            return st.value
        if isinstance(st, ast.AnnAssign) and isinstance(st.target, ast.Name) and st.target.id == name:
            return st.value
    return None


def is_self_visit(call: ast.Call, which=("visit",)) -> bool:
    f = call.func
    return isinstance(f, ast.Attribute) and f.attr in which and isinstance(f.value, ast.Name) and f.value.id == "self"


def access_path(expr: ast.AST, env: Dict[str, str], node_param: str) -> Optional[str]:
    """``node.args[*]`` style path of *expr*; loop variables resolved through *env*."""
    if isinstance(expr, ast.Name):
        if expr.id == node_param:
            return "node"
        return env.get(expr.id)
    if isinstance(expr, ast.Attribute):
        base = access_path(expr.value, env, node_param)
        return f"{base}.{expr.attr}" if base else None
    if isinstance(expr, ast.Subscript):
        base = access_path(expr.value, env, node_param)
        return f"{base}[*]" if base else None
    return None


def covering_statements(func: ast.FunctionDef, node_param: str) -> Dict[int, Set[str]]:
    """Map id(stmt) -> access paths that statement visits (on its own normal completion)."""
    out: Dict[int, Set[str]] = {}

    def visits_in_body(body: List[ast.stmt], env: Dict[str, str]) -> Set[str]:
        paths: Set[str] = set()
        for st in body:
            paths |= stmt_paths(st, env)
        return paths

    def stmt_paths(st: ast.stmt, env: Dict[str, str]) -> Set[str]:
        paths: Set[str] = set()
        if isinstance(st, ast.Expr) and isinstance(st.value, ast.Call):
            c = st.value
            if is_self_visit(c, ("visit",)) and c.args:
                p = access_path(c.args[0], env, node_param)
                if p:
                    paths.add(p)
            elif is_self_visit(c, ("generic_visit",)) and c.args:
                p = access_path(c.args[0], env, node_param)
                if p:
                    paths.add(p + ".*")
        if isinstance(st, ast.Expr) and isinstance(st.value, (ast.ListComp, ast.SetComp)):
            comp = st.value
            if len(comp.generators) == 1 and not comp.generators[0].ifs and isinstance(comp.generators[0].target, ast.Name):
                it = access_path(comp.generators[0].iter, env, node_param)
                if it and isinstance(comp.elt, ast.Call) and is_self_visit(comp.elt) and comp.elt.args:
                    env2 = dict(env)
                    env2[comp.generators[0].target.id] = it + "[*]"
                    p = access_path(comp.elt.args[0], env2, node_param)
                    if p:
                        paths.add(p)
        if isinstance(st, ast.For) and isinstance(st.target, ast.Name) and not st.orelse:
            it = access_path(st.iter, env, node_param)
            if it:
                env2 = dict(env)
                env2[st.target.id] = it + "[*]"
                # only unconditional top-level statements of the loop body count
                body_ok = not any(isinstance(n, (ast.Break, ast.Continue)) for s in st.body for n in ast.walk(s))
                if body_ok:
                    paths |= visits_in_body(st.body, env2)
        return paths

    def walk(body: List[ast.stmt]):
        for st in body:
            p = stmt_paths(st, {})
            if p:
                out[id(st)] = p
            for attr in ("body", "orelse", "finalbody"):
                sub = getattr(st, attr, None)
                if isinstance(sub, list) and not isinstance(st, ast.For):
                    walk(sub)
            if isinstance(st, ast.Try):
                for h in st.handlers:
                    walk(h.body)

    walk(func.body)
    return out


def field_covered(kind: str, field: Tuple[str, str, str], must: Set[str], prefix: str = "node", depth: int = 0) -> bool:
    """Is *field* of node kind *kind* covered by the must-visited access paths?"""
    ftype, mult, fname = field
    p = f"{prefix}.{fname}"
    if f"{prefix}.*" in must:
        return True
    if mult == "*":
        if p + "[*]" in must:
            return True
        elem_prefix = p + "[*]"
    else:
        if p in must:
            return True
        elem_prefix = p
    # element type is a product node (keyword, comprehension, ...): all of its node children visited
    cls_name = ftype if hasattr(ast, ftype) else None
    if cls_name and depth < 2:
        sub = node_fields(cls_name)
        if sub and all(field_covered(cls_name, sf, must, elem_prefix, depth + 1) for sf in sub):
            return True
    return False


def run(repo: Repo, R: Report) -> None:
    mod = repo.module(SAFE)
    visitor = repo.cls(SAFE, "_SafeVisitor")
    fn_rel = SAFE

    R.assume(
        "ast.NodeVisitor.visit dispatches on type(node).__name__ and NodeVisitor.generic_visit visits every child field (CPython stdlib)",
        "CPython resolves global names in compiled code only through Name nodes; attribute access needs an Attribute node",
        "the grammar tables (ast.<Node>.__doc__/_fields) of the running interpreter describe the trees ast.parse can produce",
    )

    # ---------------- D2 whitelist tables ---------------------------------
    r_wl = R.rule("C11-D2-whitelist", "every node kind the visitor can accept (whitelist set + custom handlers) is in the documented safe grammar", 20)
    allowed_val = class_attr(visitor, "_ALLOWED_NODES")
    allowed = set_literal_names(allowed_val) if allowed_val is not None else None
    if allowed is None:
        raise AnalysisError("_SafeVisitor._ALLOWED_NODES is not a literal set of ast classes")
    handlers: Dict[str, ast.FunctionDef] = {}
    for st in visitor.body:
        if isinstance(st, FuncNode) and st.name.startswith("visit_"):
            # normal form: named sub-expressions (``func = node.func``), hoisted constants and extracted helpers are seen through
            handlers[st.name[len("visit_"):]] = nfunc(repo, SAFE, f"_SafeVisitor.{st.name}", copyprop="all")
    for name in sorted(allowed):
        R.check(name in DOCUMENTED_NODES, r_wl, fn_rel, "_SafeVisitor", f"_ALLOWED_NODES: ast.{name}",
                f"ast.{name} is accepted but is not in the documented safe grammar", getattr(allowed_val, "lineno", 0))
    for name, h in sorted(handlers.items()):
        if hasattr(ast, name):
            R.check(name in DOCUMENTED_NODES, r_wl, fn_rel, f"_SafeVisitor.visit_{name}", f"def visit_{name}",
                    f"a custom handler bypasses generic_visit's whitelist test, so ast.{name} is accepted; it is not in the documented safe grammar", h.lineno)
    # dispatch must be the stdlib's
    r_disp = R.rule("C11-D1-dispatch", "_SafeVisitor inherits ast.NodeVisitor.visit unchanged (completeness argument relies on stdlib dispatch)", 1)
    base_names = {dotted_name(b) for b in visitor.bases}
    own = {st.name for st in visitor.body if isinstance(st, FuncNode)}
    R.check("ast.NodeVisitor" in base_names or "NodeVisitor" in base_names, r_disp, fn_rel, "_SafeVisitor", "class _SafeVisitor(bases)",
            "not a subclass of ast.NodeVisitor", visitor.lineno)
    if "visit" in own:
        R.violation(r_disp, fn_rel, "_SafeVisitor.visit", "def visit", "visit() is overridden: per-kind dispatch is no longer the stdlib's", visitor.lineno)

    r_funcs = R.rule("C11-D2-functions", "callable whitelist and evaluation environment are the documented eight builtins, bound to themselves", 9)
    funcs_val = class_attr(visitor, "_ALLOWED_FUNCS")
    funcs = set_literal_names(funcs_val) if funcs_val is not None else None
    if funcs is None:
        raise AnalysisError("_SafeVisitor._ALLOWED_FUNCS is not a literal set of strings")
    for f in sorted(funcs):
        R.check(f in DOCUMENTED_FUNCS, r_funcs, fn_rel, "_SafeVisitor", f"_ALLOWED_FUNCS: {f!r}",
                f"call target {f!r} is whitelisted but is not one of the documented functions", getattr(funcs_val, "lineno", 0))
    ev_init = nfunc(repo, SAFE, "ExpressionEvaluator.__init__", copyprop="all")
    env_dicts = [n for n in walk_no_nested(ev_init) if isinstance(n, ast.Dict)]
    if not env_dicts:
        raise AnalysisError("ExpressionEvaluator.__init__: environment dict literal not found")
    env_keys: Set[str] = set()
    for d in env_dicts:
        for k, v in zip(d.keys, d.values):
            if k is None or not isinstance(k, ast.Constant):
                R.violation(r_funcs, fn_rel, "ExpressionEvaluator.__init__", norm(d), "environment built from a non-literal key / ** expansion", d.lineno)
                continue
            env_keys.add(k.value)
            good = k.value in DOCUMENTED_FUNCS and isinstance(v, ast.Name) and v.id == k.value
            R.check(good, r_funcs, fn_rel, "ExpressionEvaluator.__init__", f"env[{k.value!r}] = {norm(v)}",
                    "evaluation environment binds a name outside the documented function table (or to a different object)", k.lineno)
    # visitor-accepted call targets must be bound in env (else they fall through to __builtins__)
    for f in sorted(funcs - env_keys):
        R.violation(r_funcs, fn_rel, "_SafeVisitor", f"_ALLOWED_FUNCS: {f!r}", "whitelisted call target is not bound in the evaluator environment, so it resolves through __builtins__", getattr(funcs_val, "lineno", 0))
    # any other mutation of env in __init__ must come from the allowed_funcs parameter only
    for c in calls_in(ev_init):
        if call_attr(c) in ("update", "setdefault", "__setitem__") and isinstance(c.func, ast.Attribute) and dotted_name(c.func.value) in ("env", "self.env"):
            ok = len(c.args) == 1 and isinstance(c.args[0], ast.Name) and c.args[0].id == "allowed_funcs" and not c.keywords
            R.check(ok, r_funcs, fn_rel, "ExpressionEvaluator.__init__", norm(c), "environment extended from something other than the caller-supplied allowed_funcs", c.lineno)
    # nobody in the package passes extra functions / a custom evaluator on the YAML path
    r_callers = R.rule("C11-D2-callers", "no package call site widens the evaluator (ExpressionEvaluator(...) with arguments, or create(expression_evaluator=...))", 1)
    for m in repo.modules.values():
        for c in (n for n in ast.walk(m.tree) if isinstance(n, ast.Call)):
            if call_attr(c) == "ExpressionEvaluator":
                repo.consulted.add(m.rel)
                fn = qualname_of(next((a for a in [c] + list(_anc(c)) if isinstance(a, FuncNode)), m.tree)) if True else ""
                R.check(not c.args and not c.keywords, r_callers, m.rel, fn, norm(c), "evaluator constructed with extra callables", c.lineno)
            if kwarg(c, "expression_evaluator") is not None:
                repo.consulted.add(m.rel)
                R.violation(r_callers, m.rel, "", norm(c), "custom expression evaluator passed inside the package", c.lineno)

    # ---------------- D1 visitor completeness ------------------------------
    r_gen = R.rule("C11-D1-generic", "generic_visit rejects kinds outside the whitelist before recursing and then recurses via super().generic_visit(node)", 2)
    gv = handlers_generic = None
    for st in visitor.body:
        if isinstance(st, FuncNode) and st.name == "generic_visit":
            gv = nfunc(repo, SAFE, "_SafeVisitor.generic_visit", copyprop="all")
    if gv is None:
        R.violation(r_gen, fn_rel, "_SafeVisitor", "def generic_visit", "generic_visit is not overridden: no whitelist test at all", visitor.lineno)
    else:
        node_param = gv.args.args[1].arg if len(gv.args.args) > 1 else "node"
        g = CFG(gv)

        def wl_atom(e: ast.AST) -> Optional[bool]:
            # type(node) in self._ALLOWED_NODES  /  not in
            if isinstance(e, ast.Compare) and len(e.ops) == 1 and isinstance(e.ops[0], (ast.In, ast.NotIn)):
                left, right = e.left, e.comparators[0]
                lt = isinstance(left, ast.Call) and call_attr(left) == "type" and len(left.args) == 1 and isinstance(left.args[0], ast.Name) and left.args[0].id == node_param
                rt = dotted_name(right) in ("self._ALLOWED_NODES", "_SafeVisitor._ALLOWED_NODES", "type(self)._ALLOWED_NODES")
                if lt and rt:
                    return isinstance(e.ops[0], ast.In)
            return None

        holds, path, guards = returns_only_through(g, wl_atom)
        R.check(holds and guards > 0, r_gen, fn_rel, "_SafeVisitor.generic_visit", "whitelist test dominates normal return",
                "generic_visit can return normally without `type(node) in _ALLOWED_NODES` having held", gv.lineno, path)
        # recursion on all accepted paths
        def is_super_generic(n) -> bool:
            if n.ast is None or n.kind != "stmt":
                return False
            for c in calls_in(n.ast):
                f = c.func
                if isinstance(f, ast.Attribute) and f.attr == "generic_visit" and c.args and isinstance(c.args[0], ast.Name) and c.args[0].id == node_param:
                    if isinstance(f.value, ast.Call) and call_attr(f.value) == "super":
                        return True
                if call_name(c) in ("ast.NodeVisitor.generic_visit", "NodeVisitor.generic_visit") and len(c.args) >= 2:
                    return True
            return False

        bad = g.must_pass([g.entry], [g.ret_exit], is_super_generic)
        R.check(not bad, r_gen, fn_rel, "_SafeVisitor.generic_visit", "super().generic_visit(node) on every accepting path",
                "an accepted node's children are not visited on some path (no super().generic_visit(node))", gv.lineno, bad[0][1] if bad else None)

    r_cov = R.rule("C11-D1-fields", "every custom visit_<Kind> handler visits, or constrains to a checked leaf, every child field of <Kind> on every normally-returning path", 2)
    for kind, h in sorted(handlers.items()):
        if not hasattr(ast, kind):
            continue
        node_param = h.args.args[1].arg if len(h.args.args) > 1 else "node"
        g = CFG(h)
        cover = covering_statements(h, node_param)
        # access paths visited on every normally-returning path
        all_paths: Set[str] = set().union(*cover.values()) if cover else set()
        must: Set[str] = set()
        for p in all_paths:
            stmts = {sid for sid, ps in cover.items() if p in ps}
            bad = g.must_pass([g.entry], [g.ret_exit], lambda n, stmts=stmts: n.ast is not None and id(n.ast) in stmts)
            if not bad:
                must.add(p)
        for field in node_fields(kind):
            ftype, mult, fname = field
            stmt = f"visit_{kind}: field {fname} ({ftype}{mult})"
            if field_covered(kind, field, must):
                R.ok(r_cov, fn_rel, f"_SafeVisitor.visit_{kind}", stmt, "visited on every accepting path", h.lineno)
                continue
            # constrained to a checked leaf?
            if kind == "Call" and fname == "func":
                def func_is_name(e: ast.AST) -> Optional[bool]:
                    if isinstance(e, ast.Call) and call_attr(e) == "isinstance" and len(e.args) == 2:
                        if access_path(e.args[0], {}, node_param) == "node.func" and dotted_name(e.args[1]) in ("ast.Name", "Name"):
                            return True
                    return None

                def func_in_funcs(e: ast.AST) -> Optional[bool]:
                    if isinstance(e, ast.Compare) and len(e.ops) == 1 and isinstance(e.ops[0], (ast.In, ast.NotIn)):
                        if access_path(e.left, {}, node_param) == "node.func.id" and dotted_name(e.comparators[0]) in ("self._ALLOWED_FUNCS", "_SafeVisitor._ALLOWED_FUNCS"):
                            return isinstance(e.ops[0], ast.In)
                    return None

                h1, p1, g1 = returns_only_through(g, func_is_name)
                h2, p2, g2 = returns_only_through(g, func_in_funcs)
                R.check(h1 and h2 and g1 and g2, r_cov, fn_rel, "_SafeVisitor.visit_Call", stmt,
                        "visit_Call can return normally for a call whose target is not a plain Name in _ALLOWED_FUNCS", h.lineno, p1 or p2)
                continue
            if kind == "Name":
                continue
            R.violation(r_cov, fn_rel, f"_SafeVisitor.visit_{kind}", stmt,
                        f"child position {kind}.{fname} is neither visited nor constrained: any expression there bypasses the whitelist", h.lineno)
        if kind == "Name":
            def name_allowed(e: ast.AST) -> Optional[bool]:
                if isinstance(e, ast.Compare) and len(e.ops) == 1 and isinstance(e.ops[0], (ast.In, ast.NotIn)):
                    if access_path(e.left, {}, node_param) == "node.id" and dotted_name(e.comparators[0]) == "self.allowed_names":
                        return isinstance(e.ops[0], ast.In)
                return None

            holds, path, guards = returns_only_through(g, name_allowed)
            R.check(holds and guards > 0, r_cov, fn_rel, "_SafeVisitor.visit_Name", "visit_Name: id in self.allowed_names dominates normal return",
                    "visit_Name can accept a name that is not a declared sweep variable", h.lineno, path)
    # allowed_names attribute is exactly the constructor argument
    vinit = next((st for st in visitor.body if isinstance(st, FuncNode) and st.name == "__init__"), None)
    r_names = R.rule("C11-D2-names", "the visitor's name whitelist is exactly the caller's set of sweep variables", 1)
    if vinit is None:
        raise AnalysisError("_SafeVisitor.__init__ vanished")
    stores = [n for n in walk_no_nested(vinit) if isinstance(n, ast.Assign) and any(dotted_name(t) == "self.allowed_names" for t in n.targets)]
    for s in stores:
        v = s.value
        ok = (isinstance(v, ast.Name) and v.id == "allowed_names") or (
            isinstance(v, ast.Call) and call_attr(v) in ("set", "frozenset") and len(v.args) == 1 and isinstance(v.args[0], ast.Name) and v.args[0].id == "allowed_names")
        R.check(ok, r_names, fn_rel, "_SafeVisitor.__init__", norm(s), "name whitelist is not the constructor argument unchanged", s.lineno)
    if not stores:
        R.violation(r_names, fn_rel, "_SafeVisitor.__init__", "self.allowed_names = ...", "allowed_names never stored", vinit.lineno)
    # other writers of allowed_names anywhere in the class
    for st in visitor.body:
        if isinstance(st, FuncNode) and st.name != "__init__":
            for n in ast.walk(st):
                if isinstance(n, (ast.Assign, ast.AugAssign)):
                    tg = n.targets if isinstance(n, ast.Assign) else [n.target]
                    if any(dotted_name(t) == "self.allowed_names" for t in tg):
                        R.violation(r_names, fn_rel, f"_SafeVisitor.{st.name}", norm(n), "name whitelist rewritten outside __init__", n.lineno)
                if isinstance(n, ast.Call) and isinstance(n.func, ast.Attribute) and dotted_name(n.func.value) == "self.allowed_names" and n.func.attr in ("add", "update"):
                    R.violation(r_names, fn_rel, f"_SafeVisitor.{st.name}", norm(n), "name whitelist widened during traversal", n.lineno)

    # ---------------- D3 validate before evaluate ---------------------------
    r_ord = R.rule("C11-D3-order", "compile()/eval() are dominated by _SafeVisitor(allowed_names).visit(tree) on the very tree that is compiled, and a rejection cannot be swallowed", 5)
    comp = repo.func(SAFE, "ExpressionEvaluator.compile")
    g = CFG(comp)
    params = [a.arg for a in comp.args.args]
    if len(params) < 3:
        raise AnalysisError("ExpressionEvaluator.compile signature changed")
    names_param = params[2]

    def visit_calls(n) -> List[ast.Call]:
        if n.ast is None or n.kind not in ("stmt",):
            return []
        out = []
        for c in calls_in(n.ast):
            f = c.func
            if isinstance(f, ast.Attribute) and f.attr == "visit" and isinstance(f.value, ast.Call) and call_attr(f.value) == "_SafeVisitor":
                out.append(c)
        return out

    visit_nodes = [n for n in g.nodes if visit_calls(n)]
    # visitor objects bound to a local first: v = _SafeVisitor(..); v.visit(tree)
    local_visitors = {}
    for n in walk_no_nested(comp):
        if isinstance(n, ast.Assign) and isinstance(n.value, ast.Call) and call_attr(n.value) == "_SafeVisitor":
            for t in n.targets:
                if isinstance(t, ast.Name):
                    local_visitors[t.id] = n.value
    for n in g.nodes:
        if n.ast is not None and n.kind == "stmt" and not visit_calls(n):
            for c in calls_in(n.ast):
                f = c.func
                if isinstance(f, ast.Attribute) and f.attr == "visit" and isinstance(f.value, ast.Name) and f.value.id in local_visitors:
                    visit_nodes.append(n)
    if not visit_nodes:
        R.violation(r_ord, fn_rel, "ExpressionEvaluator.compile", "_SafeVisitor(...).visit(tree)", "the expression tree is never validated", comp.lineno)
    else:
        vn = visit_nodes[0]
        vcall = None
        ctor = None
        for c in calls_in(vn.ast):
            f = c.func
            if isinstance(f, ast.Attribute) and f.attr == "visit":
                vcall = c
                ctor = f.value if isinstance(f.value, ast.Call) else local_visitors.get(getattr(f.value, "id", ""))
        assert vcall is not None
        # constructor argument is the allowed_names parameter unchanged
        a0 = ctor.args[0] if ctor is not None and ctor.args else (kwarg(ctor, "allowed_names") if ctor is not None else None)
        ok_arg = isinstance(a0, ast.Name) and a0.id == names_param or (
            isinstance(a0, ast.Call) and call_attr(a0) in ("set", "frozenset") and len(a0.args) == 1 and isinstance(a0.args[0], ast.Name) and a0.args[0].id == names_param)
        R.check(bool(ok_arg), r_ord, fn_rel, "ExpressionEvaluator.compile", norm(vcall), "visitor is not constructed from the allowed_names parameter unchanged", vcall.lineno)
        visited_tree = vcall.args[0] if vcall.args else None
        tree_name = visited_tree.id if isinstance(visited_tree, ast.Name) else None
        # tree has a single definition: ast.parse(expr, mode="eval")
        defs = [n for n in walk_no_nested(comp) if isinstance(n, ast.Assign) and any(isinstance(t, ast.Name) and t.id == tree_name for t in n.targets)]
        single = tree_name is not None and len(defs) == 1 and isinstance(defs[0].value, ast.Call) and call_name(defs[0].value) == "ast.parse"
        R.check(single, r_ord, fn_rel, "ExpressionEvaluator.compile", f"{tree_name} = ast.parse(...)", "the validated tree is not the single result of ast.parse", comp.lineno)
        if single:
            pc = defs[0].value
            mode = kwarg(pc, "mode") or (pc.args[2] if len(pc.args) > 2 else None)
            R.check(isinstance(mode, ast.Constant) and mode.value == "eval", r_ord, fn_rel, "ExpressionEvaluator.compile", norm(defs[0]),
                    "expression is not parsed in eval mode (statements would be parsed)", defs[0].lineno)
        # builtin compile() dominated by the visit and applied to the same tree
        compile_nodes = []
        for n in g.nodes:
            if n.ast is not None and n.kind == "stmt":
                for c in calls_in(n.ast):
                    if isinstance(c.func, ast.Name) and c.func.id == "compile":
                        compile_nodes.append((n, c))
        if not compile_nodes:
            raise AnalysisError("ExpressionEvaluator.compile: builtin compile() call not found")
        for n, c in compile_nodes:
            dom = all(g.dominated_by_node(n.id, v.id) for v in visit_nodes[:1])
            same = bool(c.args) and isinstance(c.args[0], ast.Name) and c.args[0].id == tree_name
            R.check(dom, r_ord, fn_rel, "ExpressionEvaluator.compile", norm(c), "compile() is reachable without the validation having run", c.lineno)
            R.check(same, r_ord, fn_rel, "ExpressionEvaluator.compile", norm(c) + " [same tree]", "the compiled object is not the validated tree (re-parse or different source)", c.lineno)
        # a rejection must leave the function exceptionally
        exc_succ = [t for t, lab in g.succ[vn.id] if lab == EXC]
        seen = g.reach(exc_succ)
        escaped = [t for t in [g.ret_exit] + [cn.id for cn, _ in compile_nodes] if t in seen]
        R.check(not escaped, r_ord, fn_rel, "ExpressionEvaluator.compile", "rejection propagates",
                "an ExpressionError raised by the visitor can be swallowed and compilation/return still reached", vn.line,
                g.path_to(seen, escaped[0]) if escaped else None)
    # every normal return is preceded by the validation (a memoised result may be returned
    # early only when the memo key includes the allowed names, i.e. it was validated for them)
    if visit_nodes:
        vset = {v.id for v in visit_nodes}
        bad = g.must_pass([g.entry], [g.ret_exit], lambda n: n.id in vset)
        ok_ret = True
        why_path = None
        if bad:
            seen = g.reach([g.entry], blocked=vset)
            for n in g.nodes:
                if n.id in seen and n.kind == "stmt" and isinstance(n.ast, ast.Return) and n.id not in vset:
                    if not _keyed_by(comp, n.ast.value, names_param):
                        ok_ret = False
                        why_path = g.path_to(seen, n.id)
        R.check(ok_ret, r_ord, fn_rel, "ExpressionEvaluator.compile", "every return is preceded by validation for these allowed names",
                "compile() can return a callable without validating the expression against this call's allowed names (e.g. a memo keyed by the text alone)", comp.lineno, why_path)
    # eval call: globals is self.env, code from compile
    r_eval = R.rule("C11-D3-eval", "eval() receives the compiled validated code, the fixed environment as globals and only the sweep variables as locals", 1)
    evals = [c for c in ast.walk(comp) if isinstance(c, ast.Call) and isinstance(c.func, ast.Name) and c.func.id == "eval"]
    if not evals:
        raise AnalysisError("ExpressionEvaluator.compile: eval() call not found")
    code_names = set()
    for n in walk_no_nested(comp):
        if isinstance(n, ast.Assign) and isinstance(n.value, ast.Call) and isinstance(n.value.func, ast.Name) and n.value.func.id == "compile":
            code_names |= {t.id for t in n.targets if isinstance(t, ast.Name)}
    for c in evals:
        fn = next((a for a in _anc(c) if isinstance(a, FuncNode)), comp)
        kwname = fn.args.kwarg.arg if fn.args.kwarg else None
        ok = (
            len(c.args) == 3 and not c.keywords
            and isinstance(c.args[0], ast.Name) and c.args[0].id in code_names
            and dotted_name(c.args[1]) == "self.env"
            and isinstance(c.args[2], ast.Name) and c.args[2].id == kwname
        )
        R.check(ok, r_eval, fn_rel, qualname_of(fn), norm(c), "eval() arguments are not (validated code, self.env, **kwargs of the call)", c.lineno)

    # ---------------- who may eval ------------------------------------------
    r_who = R.rule("C11-D3-who-may-eval", "eval/exec/compile builtins occur only at the frozen sites", 3)
    for m in repo.modules.values():
        for c in (n for n in ast.walk(m.tree) if isinstance(n, ast.Call)):
            if isinstance(c.func, ast.Name) and c.func.id in ("eval", "exec", "compile"):
                fn = next((a for a in _anc(c) if isinstance(a, FuncNode)), None)
                qn = qualname_of(fn) if fn is not None else "<module>"
                repo.consulted.add(m.rel)
                allowed_here = EVAL_SITES.get((m.rel, qn), set())
                R.check(c.func.id in allowed_here, r_who, m.rel, qn, norm(c), f"{c.func.id}() outside the frozen who-may-eval table", c.lineno)

    # ---------------- sweep factory passes exactly the variables --------------
    r_sw = R.rule("C11-D3-sweep-names", "the sweep factory compiles expressions with exactly the declared variable names, and nothing else evaluates them", 2)
    create = repo.func(SWEEP, "ParametricSweepFactory.create")
    found = False
    for c in calls_in(create):
        if call_attr(c) == "_compile_parametric_expressions":
            found = True
            a1 = c.args[1] if len(c.args) > 1 else kwarg(c, "allowed_names")
            ok = (
                isinstance(a1, ast.Call) and call_attr(a1) in ("set", "frozenset") and len(a1.args) == 1
                and ((isinstance(a1.args[0], ast.Call) and dotted_name(a1.args[0].func) == "vars.keys") or (isinstance(a1.args[0], ast.Name) and a1.args[0].id == "vars"))
            )
            R.check(ok, r_sw, SWEEP, "ParametricSweepFactory.create", norm(c), "allowed names passed to the expression compiler are not exactly set(vars)", c.lineno)
    if not found:
        raise AnalysisError("create(): call of _compile_parametric_expressions not found")
    cpe = repo.func(SWEEP, "_compile_parametric_expressions")
    names_p = cpe.args.args[1].arg
    ok_any = False
    for c in calls_in(cpe):
        if call_attr(c) == "compile" and isinstance(c.func, ast.Attribute):
            a = c.args[1] if len(c.args) > 1 else kwarg(c, "allowed_names")
            ok = isinstance(a, ast.Name) and a.id == names_p
            ok_any = True
            R.check(ok, r_sw, SWEEP, "_compile_parametric_expressions", norm(c), "allowed names widened between create() and the evaluator", c.lineno)
    if not ok_any:
        raise AnalysisError("_compile_parametric_expressions: evaluator.compile call not found")

    if R.tier == "thorough":
        # explicit (kind, field) obligations over the whole expression grammar
        r_gram = R.rule("C11-D1-grammar", "for every expression node kind of the running grammar: rejected at every position, or accepted with all child fields covered", 25)
        effective = allowed | {k for k in handlers if hasattr(ast, k)}
        kinds = sorted(c.__name__ for c in ast.expr.__subclasses__())
        for k in kinds:
            if k not in effective:
                R.ok(r_gram, fn_rel, "_SafeVisitor.generic_visit", f"{k}: rejected (not in whitelist, no handler)")
            else:
                for ftype, mult, fname in node_fields(k):
                    R.check(k in DOCUMENTED_NODES, r_gram, fn_rel, "_SafeVisitor", f"{k}.{fname}: accepted kind, field {'custom handler' if k in handlers else 'generic_visit'}",
                            f"{k} accepted but undocumented")
        R.extra["grammar_expr_kinds"] = len(kinds)

    R.undecided("resource exhaustion by accepted expressions (e.g. 9**9**9) - not part of the statement")


def _anc(node):
    from ..engine import ancestors
    return ancestors(node)


def _keyed_by(func, value, names_param: str) -> bool:
    """Is *value* (a returned expression) a lookup whose key mentions *names_param*?"""
    from ..engine import assigned_value

    def expand(e, depth=0):
        names = {n.id for n in ast.walk(e) if isinstance(n, ast.Name)}
        if depth < 2:
            for nm in list(names):
                for rhs in assigned_value(func, nm):
                    names |= expand(rhs, depth + 1)
        return names

    exprs = [value] if value is not None else []
    if isinstance(value, ast.Name):
        exprs = assigned_value(func, value.id)
    for e in exprs:
        for n in ast.walk(e):
            key = None
            if isinstance(n, ast.Subscript):
                key = n.slice
            elif isinstance(n, ast.Call) and call_attr(n) in ("get", "setdefault") and n.args:
                key = n.args[0]
            if key is not None and names_param in expand(key):
                return True
    return False
