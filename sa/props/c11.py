"""C11 - sweep expressions are confined to the safe grammar.

D1 visitor completeness, D2 whitelist <= documented table, D3 validate-before-evaluate.

Every rule that looks inside a function body works on the normal form of that function (private helpers
inlined, module constants substituted, single-assignment pure locals propagated) and finds the constructs
by their role (what is tested / visited / compiled), not by the spelling of a local or of a table name.
"""
from __future__ import annotations

import ast
import re
from typing import Callable, Dict, List, Optional, Set, Tuple

from ..cfg import CFG, EXC, edges_guaranteeing, reaching_defs, returns_only_through
from ..engine import (
    MUTATORS,
    AnalysisError,
    FuncNode,
    Repo,
    ancestors,
    assigned_value,
    call_attr,
    call_name,
    calls_in,
    dotted_name,
    kwarg,
    mutation_sites,
    norm,
    parent,
    qualname_of,
    returned_values,
    slice_text,
    stmt_of,
    walk_no_nested,
)
from ..normal import nfunc
from ..report import Report

SAFE = "semantiva/utils/safe_eval.py"
SWEEP = "semantiva/data_processors/parametric_sweep_factory.py"
VISITOR = "_SafeVisitor"
EVALUATOR = "ExpressionEvaluator"
ERROR = "ExpressionError"

# The documented safe grammar (semantiva/utils/safe_eval.py as shipped, restated in
# the property): arithmetic, boolean and comparison operators, conditional
# expression, tuples, constants, names and direct calls.
DOCUMENTED_NODES = {
    "Expression", "Module", "Expr", "Load", "BinOp", "UnaryOp", "BoolOp", "Compare",
    "IfExp", "Call", "Name", "Constant", "Tuple", "Add", "Sub", "Mult", "Div",
    "FloorDiv", "Mod", "Pow", "USub", "UAdd", "And", "Or", "Eq", "NotEq", "Lt",
    "LtE", "Gt", "GtE",
}
DOCUMENTED_FUNCS = {"abs", "min", "max", "round", "float", "int", "str", "bool"}
NON_NODE_TYPES = {"identifier", "int", "string", "constant"}
# who-may-eval: (file, function) -> builtins allowed there, with reason.  Closures nested in
# ExpressionEvaluator.compile may call eval() (its arguments are decided by C11-D3-eval), private helpers that
# the normal form of compile() inlines are analysed in context by C11-D3-order / C11-D3-eval.
EVAL_SITES = {
    (SAFE, "ExpressionEvaluator.compile"): {"compile"},
}
# Any other eval/exec/compile site is decided by what flows into it (``fixed_source``): text that is a function of
# ``__file__`` and literals alone - the package's own version.txt read by the trace layer - cannot be a sweep
# expression, whatever the function that reads it is called and whichever module it lives in.
PATH_FUNCS = {"Path", "PurePath", "pathlib.Path", "pathlib.PurePath", "str", "open", "io.open", "os.fspath", "os.path.join", "os.path.dirname",
              "os.path.abspath", "os.path.realpath", "os.path.normpath"}
PATH_ATTRS = {"parent", "parents", "name", "stem"}
PATH_METHODS = {"resolve", "absolute", "joinpath", "with_name", "with_suffix", "read_text", "read_bytes", "read", "decode", "open", "strip", "as_posix"}
COMPILE_QN = "ExpressionEvaluator.compile"
# calls that may receive the validated tree between validation and compile() without altering its structure
TREE_READERS = {
    "ast.fix_missing_locations", "ast.dump", "ast.unparse", "ast.walk", "ast.iter_child_nodes", "ast.copy_location",
    "ast.increment_lineno", "ast.get_source_segment", "isinstance", "type", "id", "repr", "str", "len", "print",
}
ANYFUNC = FuncNode + (ast.Lambda,)


def asdl_fields(cls_name: str) -> List[Tuple[str, str, str]]:
    """(type, multiplicity, field) triples of ast.<cls_name> from the interpreter's grammar."""
    cls = getattr(ast, cls_name, None)
    if cls is None or not cls.__doc__:
        return []
    doc = " ".join(cls.__doc__.split())
    m = re.match(r"\w+\((.*)\)$", doc)
    if not m:
        return []
    out = []
    for part in m.group(1).split(","):
        part = part.strip()
        if not part:
            continue
        mm = re.match(r"(\w+)([*?]?)\s+(\w+)$", part)
        if mm:
            out.append((mm.group(1), mm.group(2), mm.group(3)))
    return out


def node_fields(cls_name: str) -> List[Tuple[str, str, str]]:
    return [f for f in asdl_fields(cls_name) if f[0] not in NON_NODE_TYPES and f[0] != "expr_context"]


def set_literal_names(value: ast.AST) -> Optional[Set[str]]:
    """Names in a set/frozenset/tuple/list literal of ``ast.X`` attributes or strings."""
    if isinstance(value, ast.Call) and call_attr(value) in ("set", "frozenset") and len(value.args) == 1:
        value = value.args[0]
    if not isinstance(value, (ast.Set, ast.Tuple, ast.List)):
        return None
    out: Set[str] = set()
    for e in value.elts:
        if isinstance(e, ast.Attribute) and isinstance(e.value, ast.Name) and e.value.id == "ast":
            out.add(e.attr)
        elif isinstance(e, ast.Constant) and isinstance(e.value, str):
            out.add(e.value)
        elif isinstance(e, ast.Name):
            out.add(e.id)
        else:
            return None
    return out


def class_values(cls: ast.ClassDef, name: str) -> List[ast.AST]:
    """Every value bound to *name* in the class body."""
    out: List[ast.AST] = []
    for st in cls.body:
        if isinstance(st, ast.Assign) and any(isinstance(t, ast.Name) and t.id == name for t in st.targets):
            out.append(st.value)
        if isinstance(st, ast.AnnAssign) and isinstance(st.target, ast.Name) and st.target.id == name and st.value is not None:
            out.append(st.value)
    return out


def class_attr(cls: ast.ClassDef, name: str) -> Optional[ast.AST]:
    vals = class_values(cls, name)
    return vals[0] if vals else None


def module_values(tree: ast.Module, name: str) -> List[ast.AST]:
    out: List[ast.AST] = []
    for st in tree.body:
        if isinstance(st, ast.Assign) and any(isinstance(t, ast.Name) and t.id == name for t in st.targets):
            out.append(st.value)
        if isinstance(st, ast.AnnAssign) and isinstance(st.target, ast.Name) and st.target.id == name and st.value is not None:
            out.append(st.value)
    return out


def is_class_ref(e: ast.AST, cls_name: str) -> bool:
    """``self`` / ``cls`` / ``<ClassName>`` / ``type(self)`` / ``self.__class__``."""
    if isinstance(e, ast.Name):
        return e.id in ("self", "cls", cls_name)
    if isinstance(e, ast.Call) and isinstance(e.func, ast.Name) and e.func.id == "type" and len(e.args) == 1 and not e.keywords:
        return isinstance(e.args[0], ast.Name) and e.args[0].id == "self"
    if isinstance(e, ast.Attribute) and e.attr == "__class__":
        return isinstance(e.value, ast.Name) and e.value.id == "self"
    return False


class Tables:
    """Resolves a whitelist-table expression (as written in a method of *cls* or in the class body) to the
    names of its elements: literals, ``set()/frozenset()`` wrappers, unions, ``*`` spreads, and references to
    class attributes / module-level names bound exactly once."""

    def __init__(self, mod, cls: ast.ClassDef):
        self.mod, self.cls = mod, cls
        self.attrs_used: Set[str] = set()  # class attributes / module names the tables were read from

    def names(self, e: ast.AST, depth: int = 0) -> Optional[Set[str]]:
        if depth > 6:
            return None
        if isinstance(e, ast.Call) and isinstance(e.func, ast.Name) and e.func.id in ("set", "frozenset", "tuple", "list") and not e.keywords:
            if not e.args:
                return set()
            return self.names(e.args[0], depth + 1) if len(e.args) == 1 else None
        if isinstance(e, (ast.Set, ast.Tuple, ast.List)):
            out: Set[str] = set()
            for x in e.elts:
                if isinstance(x, ast.Starred):
                    sub = self.names(x.value, depth + 1)
                    if sub is None:
                        return None
                    out |= sub
                elif isinstance(x, ast.Attribute) and isinstance(x.value, ast.Name) and x.value.id == "ast":
                    out.add(x.attr)
                elif isinstance(x, ast.Constant) and isinstance(x.value, str):
                    out.add(x.value)
                elif isinstance(x, ast.Name) and self.mod.imports.get(x.id, "").startswith("ast."):
                    out.add(self.mod.imports[x.id].split(".")[-1])
                else:
                    return None
            return out
        if isinstance(e, ast.BinOp) and isinstance(e.op, (ast.BitOr, ast.Sub)):
            l, r = self.names(e.left, depth + 1), self.names(e.right, depth + 1)
            if l is None or r is None:
                return None
            return l | r if isinstance(e.op, ast.BitOr) else l - r
        if isinstance(e, ast.Call) and isinstance(e.func, ast.Attribute) and e.func.attr == "union" and not e.keywords:
            out2 = self.names(e.func.value, depth + 1)
            for a in e.args:
                sub = self.names(a, depth + 1)
                if sub is None or out2 is None:
                    return None
                out2 = out2 | sub
            return out2
        if isinstance(e, ast.Name):
            vals = class_values(self.cls, e.id) or module_values(self.mod.tree, e.id)
            if len(vals) != 1:
                return None
            self.attrs_used.add(e.id)
            return self.names(vals[0], depth + 1)
        if isinstance(e, ast.Attribute) and is_class_ref(e.value, self.cls.name):
            vals = class_values(self.cls, e.attr)
            if len(vals) != 1:
                return None
            self.attrs_used.add(e.attr)
            return self.names(vals[0], depth + 1)
        return None


def is_self_visit(call: ast.Call, which=("visit",)) -> bool:
    f = call.func
    return isinstance(f, ast.Attribute) and f.attr in which and isinstance(f.value, ast.Name) and f.value.id == "self"


IDX = "#idx:"


def local_value(fn: Optional[ast.AST], name: str) -> Optional[ast.AST]:
    """The value of local *name* when it is bound exactly once in *fn* (a plain assignment) and the object is
    never mutated through that name: reading the name anywhere is reading that value."""
    if fn is None:
        return None
    stores = [n for n in walk_no_nested(fn) if isinstance(n, ast.Name) and n.id == name and isinstance(n.ctx, (ast.Store, ast.Del))]
    params = {a.arg for a in fn.args.posonlyargs + fn.args.args + fn.args.kwonlyargs} | {a.arg for a in (fn.args.vararg, fn.args.kwarg) if a is not None}
    if len(stores) != 1 or name in params:
        return None
    st = parent(stores[0])
    if isinstance(st, ast.Assign) and len(st.targets) == 1 and st.targets[0] is stores[0]:
        val = st.value
    elif isinstance(st, ast.AnnAssign) and st.target is stores[0] and st.value is not None:
        val = st.value
    else:
        return None
    if mutation_sites(fn, {name}):
        return None
    return val


def access_paths(expr: ast.AST, env: Dict[str, Set[str]], node_param: str, fn: Optional[ast.AST] = None, depth: int = 0) -> Optional[Set[str]]:
    """``node.args[*]`` style paths *expr* denotes (a loop variable over a concatenation denotes several);
    loop variables are resolved through *env*.  ``x[i]`` is ``x[*]`` only when ``i`` ranges over ``range(len(x))``;
    any other index is one element (``x[0]``), which covers nothing."""
    if isinstance(expr, ast.Name):
        if expr.id == node_param:
            return {"node"}
        got = env.get(expr.id)
        if got is None:
            val = local_value(fn, expr.id) if depth < 4 else None
            return access_paths(val, env, node_param, fn, depth + 1) if val is not None else None
        if any(p.startswith(IDX) for p in got):
            return None
        return set(got)
    if isinstance(expr, ast.Attribute):
        base = access_paths(expr.value, env, node_param, fn, depth)
        return {f"{b}.{expr.attr}" for b in base} if base else None
    if isinstance(expr, ast.Subscript):
        base = access_paths(expr.value, env, node_param, fn, depth)
        if not base:
            return None
        idx = expr.slice
        if isinstance(idx, ast.Name) and env.get(idx.id) == {IDX + b for b in base}:
            return {f"{b}[*]" for b in base}
        try:
            key = ast.unparse(idx)
        except Exception:  # pragma: no cover
            key = "?"
        return {f"{b}[{key}]" for b in base}
    return None


def access_path(expr: ast.AST, env: Dict[str, Set[str]], node_param: str, fn: Optional[ast.AST] = None) -> Optional[str]:
    got = access_paths(expr, env, node_param, fn)
    return next(iter(got)) if got and len(got) == 1 else None


def element_paths(it: ast.AST, env: Dict[str, Set[str]], node_param: str, fn: Optional[ast.AST] = None, depth: int = 0) -> Optional[Set[str]]:
    """Paths of the elements produced by iterating *it* completely (None: not understood)."""
    if isinstance(it, ast.Name) and it.id != node_param and it.id not in env and depth < 4:
        # a named sequence (bound once, never mutated); a one-shot iterator bound to a name may already be consumed
        val = local_value(fn, it.id)
        one_shot = isinstance(val, ast.GeneratorExp) or (isinstance(val, ast.Call) and call_name(val) in ("iter", "reversed", "map", "filter", "zip", "itertools.chain", "chain"))
        return element_paths(val, env, node_param, fn, depth + 1) if val is not None and not one_shot else None
    if isinstance(it, ast.Call) and not it.keywords:
        nm = call_name(it)
        if nm in ("list", "tuple", "iter", "reversed", "sorted") and len(it.args) == 1:
            return element_paths(it.args[0], env, node_param, fn)
        if nm in ("itertools.chain", "chain") and it.args:
            out: Set[str] = set()
            for a in it.args:
                sub = element_paths(a, env, node_param, fn)
                if sub is None:
                    return None
                out |= sub
            return out
        if nm == "range" and len(it.args) == 1 and isinstance(it.args[0], ast.Call) and call_name(it.args[0]) == "len" and len(it.args[0].args) == 1:
            base = access_paths(it.args[0].args[0], env, node_param, fn)
            return {IDX + b for b in base} if base else None
    if isinstance(it, ast.BinOp) and isinstance(it.op, ast.Add):
        l, r = element_paths(it.left, env, node_param, fn), element_paths(it.right, env, node_param, fn)
        return (l | r) if l is not None and r is not None else None
    if isinstance(it, (ast.List, ast.Tuple)):
        out2: Set[str] = set()
        for e in it.elts:
            sub = element_paths(e.value, env, node_param, fn) if isinstance(e, ast.Starred) else access_paths(e, env, node_param, fn)
            if sub is None:
                return None
            out2 |= sub
        return out2
    if isinstance(it, (ast.ListComp, ast.GeneratorExp)) and len(it.generators) == 1:
        gen = it.generators[0]
        if not gen.ifs and isinstance(gen.target, ast.Name) and not gen.is_async:
            src = element_paths(gen.iter, env, node_param, fn)
            if src is None:
                return None
            env2 = dict(env)
            env2[gen.target.id] = src
            return access_paths(it.elt, env2, node_param, fn)
        return None
    base = access_paths(it, env, node_param, fn)
    return {f"{b}[*]" for b in base} if base else None


def covering_statements(func: ast.FunctionDef, node_param: str) -> Dict[int, Set[str]]:
    """Map id(stmt) -> access paths that statement visits (on its own normal completion)."""
    out: Dict[int, Set[str]] = {}

    def visits_in_body(body: List[ast.stmt], env: Dict[str, Set[str]]) -> Set[str]:
        paths: Set[str] = set()
        for st in body:
            paths |= stmt_paths(st, env)
        return paths

    def call_paths(c: ast.AST, env: Dict[str, Set[str]]) -> Set[str]:
        """Paths visited by evaluating the expression *c* (a visit call, or an eager comprehension of them)."""
        if isinstance(c, ast.Call):
            if is_self_visit(c, ("visit",)) and len(c.args) == 1 and not c.keywords:
                return access_paths(c.args[0], env, node_param, func) or set()
            if is_self_visit(c, ("generic_visit",)) and len(c.args) == 1 and not c.keywords:
                return {p + ".*" for p in (access_paths(c.args[0], env, node_param, func) or set())}
            # list(<generator of visits>) / list(map(self.visit, xs)): the iteration is forced
            if call_name(c) in ("list", "tuple", "set") and len(c.args) == 1 and not c.keywords:
                a = c.args[0]
                if isinstance(a, ast.GeneratorExp):
                    return comp_paths(a, env)
                if isinstance(a, ast.Call) and call_name(a) == "map" and len(a.args) == 2 and dotted_name(a.args[0]) == "self.visit":
                    return element_paths(a.args[1], env, node_param, func) or set()
        if isinstance(c, (ast.ListComp, ast.SetComp)):
            return comp_paths(c, env)
        return set()

    def comp_paths(comp: ast.AST, env: Dict[str, Set[str]]) -> Set[str]:
        if len(comp.generators) != 1:
            return set()
        gen = comp.generators[0]
        if gen.ifs or not isinstance(gen.target, ast.Name) or gen.is_async:
            return set()
        src = element_paths(gen.iter, env, node_param, func)
        if not src:
            return set()
        env2 = dict(env)
        env2[gen.target.id] = src
        return call_paths(comp.elt, env2)

    def stmt_paths(st: ast.stmt, env: Dict[str, Set[str]]) -> Set[str]:
        paths: Set[str] = set()
        if isinstance(st, (ast.Expr, ast.Return)) and st.value is not None:
            paths |= call_paths(st.value, env)
        elif isinstance(st, ast.Assign) and all(isinstance(t, ast.Name) for t in st.targets):
            paths |= call_paths(st.value, env)
        if isinstance(st, ast.For) and not st.orelse:
            env2 = dict(env)
            src: Optional[Set[str]] = None
            if isinstance(st.target, ast.Name):
                src = element_paths(st.iter, env, node_param, func)
                env2[st.target.id] = src or set()
            elif (isinstance(st.target, ast.Tuple) and len(st.target.elts) == 2 and all(isinstance(t, ast.Name) for t in st.target.elts)
                  and isinstance(st.iter, ast.Call) and call_name(st.iter) == "enumerate" and len(st.iter.args) == 1 and not st.iter.keywords):
                src = element_paths(st.iter.args[0], env, node_param, func)
                env2[st.target.elts[1].id] = src or set()
            if src:
                # only unconditional top-level statements of the loop body count
                body_ok = not any(isinstance(n, (ast.Break, ast.Continue, ast.Return)) for s in st.body for n in ast.walk(s))
                if body_ok:
                    paths |= visits_in_body(st.body, env2)
        return paths

    def walk(body: List[ast.stmt]):
        for st in body:
            p = stmt_paths(st, {})
            if p:
                out[id(st)] = p
            for attr in ("body", "orelse", "finalbody"):
                sub = getattr(st, attr, None)
                if isinstance(sub, list) and not isinstance(st, (ast.For,) + FuncNode + (ast.ClassDef,)):
                    walk(sub)
            if isinstance(st, ast.Try):
                for h in st.handlers:
                    walk(h.body)

    walk(func.body)
    return out


def field_covered(kind: str, field: Tuple[str, str, str], must: Set[str], prefix: str = "node", depth: int = 0) -> bool:
    """Is *field* of node kind *kind* covered by the must-visited access paths?"""
    ftype, mult, fname = field
    p = f"{prefix}.{fname}"
    if f"{prefix}.*" in must:
        return True
    if mult == "*":
        if p + "[*]" in must:
            return True
        elem_prefix = p + "[*]"
    else:
        if p in must:
            return True
        elem_prefix = p
    # element type is a product node (keyword, comprehension, ...): all of its node children visited
    cls_name = ftype if hasattr(ast, ftype) else None
    if cls_name and depth < 2:
        sub = node_fields(cls_name)
        if sub and all(field_covered(cls_name, sf, must, elem_prefix, depth + 1) for sf in sub):
            return True
    return False


# ---------------------------------------------------------------------------------------------------------------
# grammar typing of access paths (``node.func`` is an ``expr``, ``node.keywords[*]`` a ``keyword`` ...): which
# node kinds can sit at a path, and which attributes each of them has.  Used to decide that a read ``<path>.X``
# inside the visitor cannot fail with AttributeError (the rejection would then not be the expression error).
# ---------------------------------------------------------------------------------------------------------------
def _is_node_class(c: object) -> bool:
    return isinstance(c, type) and issubclass(c, ast.AST)


def _deprecated(c: type) -> bool:
    return (c.__doc__ or "").startswith("Deprecated")


SUM_TYPES: Set[str] = {n for n in dir(ast) if _is_node_class(getattr(ast, n)) and " = " in (getattr(ast, n).__doc__ or "")}
ALWAYS_ATTRS = {"_fields", "_attributes"}
NONE_KIND = "None"


def kinds_of_type(tname: str) -> Set[str]:
    """Concrete node kinds an ASDL type denotes (``expr`` -> every expression kind, ``keyword`` -> itself)."""
    cls = getattr(ast, tname, None)
    if not _is_node_class(cls):
        return set()
    if tname in SUM_TYPES:
        return {c.__name__ for c in cls.__subclasses__() if not _deprecated(c)}
    return {tname}


def all_node_kinds() -> Set[str]:
    out: Set[str] = set()
    for c in ast.AST.__subclasses__():
        if not _deprecated(c):
            out |= kinds_of_type(c.__name__)
    return out


def kinds_below(root: str) -> Set[str]:
    """Node kinds that can occur in a tree rooted at a *root* node, by the grammar (closure over child fields)."""
    seen: Set[str] = set()
    todo = [root]
    while todo:
        k = todo.pop()
        if k in seen:
            continue
        seen.add(k)
        for t, _m, _f in asdl_fields(k):
            if t not in NON_NODE_TYPES:
                todo.extend(kinds_of_type(t) - seen)
    return seen


def kind_attrs(kind: str) -> Set[str]:
    cls = getattr(ast, kind, None)
    if kind == NONE_KIND or not _is_node_class(cls):
        return set()
    return set(cls._fields) | set(cls._attributes)


def has_attr(kind: str, attr: str) -> bool:
    return attr.startswith("__") or attr in ALWAYS_ATTRS or (kind != NONE_KIND and attr in kind_attrs(kind))


Fact = Tuple[str, Callable[[str], bool], Optional[ast.AST]]  # (path, predicate on the node kind, loop the path's [*] belongs to)


def path_type(path: str, root_kinds: Set[str], facts: List[Fact]) -> Optional[Tuple[str, Set[str]]]:
    """("nodes", kinds) / ("list", element ASDL types) / ("value", {}) for an access path rooted at the node
    parameter; None when the grammar tables do not describe it.  *facts* narrow the kinds of any prefix."""
    steps = re.findall(r"^\w+|\.\w+|\[[^\[\]]*\]", path)
    if "".join(steps) != path or not steps:
        return None
    cur: Tuple[str, Set[str]] = ("nodes", set(root_kinds))
    prefix = steps[0]

    def narrowed(t: Tuple[str, Set[str]], pfx: str) -> Tuple[str, Set[str]]:
        if t[0] != "nodes":
            return t
        preds = [p for fp, p, _l in facts if fp == pfx]
        return ("nodes", {k for k in t[1] if all(p(k) for p in preds)})

    cur = narrowed(cur, prefix)
    for step in steps[1:]:
        prefix += step
        if step.startswith("."):
            if cur[0] != "nodes":
                return None
            fname = step[1:]
            found = [(t, m) for k in cur[1] if k != NONE_KIND for t, m, f in asdl_fields(k) if f == fname]
            if not found:
                return None
            if any(m == "*" for _t, m in found):
                cur = ("list", {t for t, _m in found})
            elif any(t in NON_NODE_TYPES for t, _m in found):
                cur = ("value", set())
            else:
                kinds: Set[str] = set()
                for t, m in found:
                    kinds |= kinds_of_type(t)
                    if m == "?":
                        kinds.add(NONE_KIND)
                cur = ("nodes", kinds)
        else:
            if cur[0] != "list":
                return None
            if any(t in NON_NODE_TYPES for t in cur[1]):
                cur = ("value", set())
            else:
                cur = ("nodes", set().union(*[kinds_of_type(t) for t in cur[1]]))
        cur = narrowed(cur, prefix)
    return cur


def _neg(atom: Callable[[ast.AST], Optional[bool]]) -> Callable[[ast.AST], Optional[bool]]:
    def f(e: ast.AST) -> Optional[bool]:
        v = atom(e)
        return None if v is None else (not v)
    return f


def _type_of_arg(e: ast.AST) -> Optional[ast.AST]:
    """x for ``type(x)`` / ``x.__class__``."""
    if isinstance(e, ast.Call) and isinstance(e.func, ast.Name) and e.func.id == "type" and len(e.args) == 1 and not e.keywords:
        return e.args[0]
    if isinstance(e, ast.Attribute) and e.attr == "__class__":
        return e.value
    return None


def _is_empty_dict(e: ast.AST) -> bool:
    return (isinstance(e, ast.Dict) and not e.keys) or (isinstance(e, ast.Call) and call_name(e) == "dict" and not e.args and not e.keywords)


def _caller_funcs(e: ast.AST, p: Optional[str]) -> bool:
    """Is *e* the caller-supplied function table (parameter *p*), possibly defaulted to an empty dict / copied?"""
    if p is None:
        return False
    if isinstance(e, ast.Name):
        return e.id == p
    if isinstance(e, ast.BoolOp) and isinstance(e.op, ast.Or) and len(e.values) == 2:
        return _caller_funcs(e.values[0], p) and _is_empty_dict(e.values[1])
    if isinstance(e, ast.IfExp):
        test_names = {n.id for n in ast.walk(e.test) if isinstance(n, ast.Name)}
        arms = [e.body, e.orelse]
        return test_names <= {p} and all(_caller_funcs(a, p) or _is_empty_dict(a) for a in arms) and any(_caller_funcs(a, p) for a in arms)
    if isinstance(e, ast.Call) and call_name(e) == "dict" and len(e.args) == 1 and not e.keywords:
        return _caller_funcs(e.args[0], p)
    if isinstance(e, ast.Call) and isinstance(e.func, ast.Attribute) and e.func.attr in ("items", "copy") and not e.args and not e.keywords:
        return _caller_funcs(e.func.value, p)
    return False


def _enclosing(node: ast.AST, stop: ast.AST) -> ast.AST:
    """Innermost def/lambda around *node* (inside the detached normal form *stop*), else *stop*."""
    for a in ancestors(node):
        if a is stop:
            return stop
        if isinstance(a, ANYFUNC):
            return a
    return stop


def find_visitor(repo: Repo) -> str:
    """The validating visitor, by role: the ``ast.NodeVisitor`` subclass of the safe-eval module that the
    evaluator class (or a private helper of the module) instantiates.  Its name is not an anchor."""
    mod = repo.module(SAFE)
    classes = [st for st in mod.tree.body if isinstance(st, ast.ClassDef)]
    names = {c.name for c in classes}

    def is_visitor(c: ast.ClassDef, depth: int = 0) -> bool:
        for b in c.bases:
            d = dotted_name(b)
            if d in ("ast.NodeVisitor", "NodeVisitor"):
                return True
            if d in names and d != c.name and depth < 4 and is_visitor(next(k for k in classes if k.name == d), depth + 1):
                return True
        return False

    cands = [c for c in classes if is_visitor(c)]
    if len(cands) > 1:
        users = [st for st in mod.tree.body if (isinstance(st, ast.ClassDef) and st.name == EVALUATOR) or isinstance(st, FuncNode)]
        built = {call_attr(k) for u in users for k in ast.walk(u) if isinstance(k, ast.Call)}
        used = [c for c in cands if c.name in built]
        # a base class of the instantiated visitor is not the visitor
        used = [c for c in used if not any(dotted_name(b) == c.name for o in used for b in o.bases)] or used
        if used:
            cands = used
    if len(cands) == 1:
        return cands[0].name
    return VISITOR  # ambiguous or none: the documented name (repo.cls raises ANALYSIS-ERROR when it is gone)


def find_sweep_compiler(repo: Repo) -> str:
    """The sweep factory's expression compiler, by role: the module-level function of the factory module that
    ``ParametricSweepFactory.create`` calls and that (itself or through same-module helpers) calls ``.compile`` on
    one of its parameters."""
    default = "_compile_parametric_expressions"
    mod = repo.module(SWEEP)
    funcs = {st.name: st for st in mod.tree.body if isinstance(st, FuncNode)}

    def compiles(f: ast.AST, depth: int = 0) -> bool:
        params = _scope_params(f)
        for c in calls_in(f):
            callee = c.func
            if isinstance(callee, ast.Name):
                callee = local_value(f, callee.id) or callee
            if isinstance(callee, ast.Attribute) and callee.attr == "compile" and isinstance(callee.value, ast.Name) and callee.value.id in params:
                return True
            if isinstance(c.func, ast.Name) and c.func.id in funcs and funcs[c.func.id] is not f and depth < 2 and compiles(funcs[c.func.id], depth + 1):
                return True
        return False

    cands = {n for n, f in funcs.items() if compiles(f)}
    if not cands:
        return default
    try:
        create = nfunc(repo, SWEEP, "ParametricSweepFactory.create", keep=tuple(sorted(cands)), copyprop="all")
    except AnalysisError:
        return default
    called = {c.func.id for c in calls_in(create) if isinstance(c.func, ast.Name) and c.func.id in cands}
    return next(iter(called)) if len(called) == 1 else default


def run(repo: Repo, R: Report) -> None:
    mod = repo.module(SAFE)
    VISITOR = find_visitor(repo)
    visitor = repo.cls(SAFE, VISITOR)
    evaluator = repo.cls(SAFE, EVALUATOR)
    fn_rel = SAFE
    tables = Tables(mod, visitor)

    R.assume(
        "ast.NodeVisitor.visit dispatches on type(node).__name__ and NodeVisitor.generic_visit visits every child field (CPython stdlib)",
        "CPython resolves global names in compiled code only through Name nodes; attribute access needs an Attribute node",
        "the grammar tables (ast.<Node>.__doc__/_fields) of the running interpreter describe the trees ast.parse can produce",
    )

    # normal forms: named sub-expressions (``func = node.func``), hoisted constants and extracted helpers are seen through
    handlers: Dict[str, ast.FunctionDef] = {}
    alias_handlers: Dict[str, ast.AST] = {}
    for st in visitor.body:
        if isinstance(st, FuncNode) and st.name.startswith("visit_"):
            handlers[st.name[len("visit_"):]] = nfunc(repo, SAFE, f"{VISITOR}.{st.name}", copyprop="all")
        elif isinstance(st, (ast.Assign, ast.AnnAssign)):
            for t in (st.targets if isinstance(st, ast.Assign) else [st.target]):
                if isinstance(t, ast.Name) and t.id.startswith("visit_"):
                    alias_handlers[t.id[len("visit_"):]] = st
    gv: Optional[ast.FunctionDef] = None
    if any(isinstance(st, FuncNode) and st.name == "generic_visit" for st in visitor.body):
        gv = nfunc(repo, SAFE, f"{VISITOR}.generic_visit", copyprop="all")

    # ---------------- D1 generic_visit: the node-kind whitelist test, found by its role ---------------------
    r_gen = R.rule("C11-D1-generic", "generic_visit rejects kinds outside the whitelist before recursing and then recurses via super().generic_visit(node)", 2)
    allowed: Optional[Set[str]] = None
    allowed_line = visitor.lineno
    if gv is None:
        R.violation(r_gen, fn_rel, VISITOR, "def generic_visit", "generic_visit is not overridden: no whitelist test at all", visitor.lineno)
    else:
        node_param = gv.args.args[1].arg if len(gv.args.args) > 1 else "node"
        g = CFG(gv)
        seen_tables: List[Set[str]] = []

        def wl_atom(e: ast.AST) -> Optional[bool]:
            # type(node) in <whitelist table>  /  not in   (node.__class__ likewise)
            if isinstance(e, ast.Compare) and len(e.ops) == 1 and isinstance(e.ops[0], (ast.In, ast.NotIn)):
                subject = _type_of_arg(e.left)
                if isinstance(subject, ast.Name) and subject.id == node_param:
                    names = tables.names(e.comparators[0])
                    if names is not None:
                        seen_tables.append(names)
                        return isinstance(e.ops[0], ast.In)
            return None

        holds, path, guards = returns_only_through(g, wl_atom)
        R.check(holds and guards > 0, r_gen, fn_rel, f"{VISITOR}.generic_visit", "whitelist test dominates normal return",
                "generic_visit can return normally without `type(node) in _ALLOWED_NODES` having held", gv.lineno, path)
        if seen_tables:
            allowed = set().union(*seen_tables)

        # recursion on all accepted paths
        def is_super_generic(n) -> bool:
            if n.ast is None:
                return False
            if n.kind == "for" and isinstance(n.ast, ast.For):
                # for child in ast.iter_child_nodes(node): self.visit(child)   (what the stdlib's generic_visit does)
                it = n.ast.iter
                if (isinstance(it, ast.Call) and call_name(it) in ("ast.iter_child_nodes", "iter_child_nodes") and len(it.args) == 1
                        and isinstance(it.args[0], ast.Name) and it.args[0].id == node_param and isinstance(n.ast.target, ast.Name) and not n.ast.orelse):
                    tgt = n.ast.target.id
                    plain = not any(isinstance(x, (ast.Break, ast.Continue, ast.Return)) for s in n.ast.body for x in ast.walk(s))
                    return plain and any(
                        isinstance(s, ast.Expr) and isinstance(s.value, ast.Call) and is_self_visit(s.value) and len(s.value.args) == 1
                        and isinstance(s.value.args[0], ast.Name) and s.value.args[0].id == tgt for s in n.ast.body)
                return False
            if n.kind != "stmt" or isinstance(n.ast, FuncNode + (ast.ClassDef,)):
                return False
            for c in calls_in(n.ast):
                f = c.func
                if isinstance(f, ast.Attribute) and f.attr == "generic_visit" and c.args and isinstance(c.args[0], ast.Name) and c.args[0].id == node_param:
                    if isinstance(f.value, ast.Call) and call_attr(f.value) == "super":
                        return True
                if call_name(c) in ("ast.NodeVisitor.generic_visit", "NodeVisitor.generic_visit") and len(c.args) >= 2:
                    return True
            return False

        bad = g.must_pass([g.entry], [g.ret_exit], is_super_generic)
        R.check(not bad, r_gen, fn_rel, f"{VISITOR}.generic_visit", "super().generic_visit(node) on every accepting path",
                "an accepted node's children are not visited on some path (no super().generic_visit(node))", gv.lineno, bad[0][1] if bad else None)

    # ---------------- D2 whitelist tables ---------------------------------
    r_wl = R.rule("C11-D2-whitelist", "every node kind the visitor can accept (whitelist set + custom handlers) is in the documented safe grammar", 20)
    if allowed is None:
        # generic_visit does not test a table we understand (reported above): fall back to the attribute named in the property
        allowed_val = class_attr(visitor, "_ALLOWED_NODES")
        allowed = tables.names(allowed_val) if allowed_val is not None else None
        if allowed is None:
            if not R.violations():
                raise AnalysisError("_SafeVisitor: the node whitelist is not a table of ast classes that can be resolved")
            allowed = set()
    for a in sorted(tables.attrs_used):
        vals = class_values(visitor, a) or module_values(mod.tree, a)
        if vals:
            allowed_line = getattr(vals[0], "lineno", allowed_line)
            break
    for name in sorted(allowed):
        R.check(name in DOCUMENTED_NODES, r_wl, fn_rel, VISITOR, f"_ALLOWED_NODES: ast.{name}",
                f"ast.{name} is accepted but is not in the documented safe grammar", allowed_line)
    for name, h in sorted(handlers.items()):
        if hasattr(ast, name):
            R.check(name in DOCUMENTED_NODES, r_wl, fn_rel, f"{VISITOR}.visit_{name}", f"def visit_{name}",
                    f"a custom handler bypasses generic_visit's whitelist test, so ast.{name} is accepted; it is not in the documented safe grammar", h.lineno)
    for name, st in sorted(alias_handlers.items()):
        if hasattr(ast, name) and name not in handlers:
            # visit_<Kind> = <some callable>: the kind no longer reaches generic_visit's whitelist test / its children are not checked
            R.violation(r_wl, fn_rel, VISITOR, norm(st), f"visit_{name} is bound in the class body: ast.{name} bypasses the whitelist test and no field obligations can be decided for it", st.lineno)
    # dispatch must be the stdlib's
    r_disp = R.rule("C11-D1-dispatch", "_SafeVisitor inherits ast.NodeVisitor.visit unchanged (completeness argument relies on stdlib dispatch)", 1)
    base_names = {dotted_name(b) for b in visitor.bases}
    own = {st.name for st in visitor.body if isinstance(st, FuncNode)}
    R.check("ast.NodeVisitor" in base_names or "NodeVisitor" in base_names, r_disp, fn_rel, VISITOR, "class _SafeVisitor(bases)",
            "not a subclass of ast.NodeVisitor", visitor.lineno)
    if "visit" in own:
        R.violation(r_disp, fn_rel, f"{VISITOR}.visit", "def visit", "visit() is overridden: per-kind dispatch is no longer the stdlib's", visitor.lineno)

    # ---------------- normal form of compile(): the attribute used as eval() globals, by role ---------------
    ncomp = nfunc(repo, SAFE, COMPILE_QN, copyprop="all")
    evals = [c for c in ast.walk(ncomp) if isinstance(c, ast.Call) and isinstance(c.func, ast.Name) and c.func.id == "eval"]
    env_attr = "env"
    for c in evals:
        if len(c.args) >= 2 and isinstance(c.args[1], ast.Attribute) and isinstance(c.args[1].value, ast.Name) and c.args[1].value.id == "self":
            env_attr = c.args[1].attr

    # ---------------- D1 fields + the function-name table, by role -------------------------------------------
    r_funcs = R.rule("C11-D2-functions", "callable whitelist and evaluation environment are the documented eight builtins, bound to themselves", 9)
    r_cov = R.rule("C11-D1-fields", "every custom visit_<Kind> handler visits, or constrains to a checked leaf, every child field of <Kind> on every normally-returning path", 2)
    funcs: Optional[Set[str]] = None
    name_attrs: Set[str] = set()
    for kind, h in sorted(handlers.items()):
        if not hasattr(ast, kind):
            continue
        node_param = h.args.args[1].arg if len(h.args.args) > 1 else "node"
        g = CFG(h)
        cover = covering_statements(h, node_param)
        # a field is covered when every normally-returning path passes a statement (or, for product nodes such as
        # keyword, a set of statements) that visits it; a path that skips the loop because the sequence is known
        # to be empty there has nothing to visit
        def empty_edges(seq: str, g=g, node_param=node_param, h=h) -> Set[Tuple[int, str]]:
            def nonempty(e: ast.AST) -> Optional[bool]:
                if access_paths(e, {}, node_param, h) == {seq}:
                    return True
                if isinstance(e, ast.Call) and call_name(e) == "len" and len(e.args) == 1 and access_paths(e.args[0], {}, node_param, h) == {seq}:
                    return True
                if isinstance(e, ast.Compare) and len(e.ops) == 1 and isinstance(e.left, ast.Call) and nonempty(e.left) and isinstance(e.comparators[0], ast.Constant) and e.comparators[0].value == 0:
                    if isinstance(e.ops[0], (ast.Gt, ast.NotEq)):
                        return True
                    if isinstance(e.ops[0], ast.Eq):
                        return False
                return None

            out: Set[Tuple[int, str]] = set()
            for n in g.nodes:
                if n.kind == "if" and n.part is not None:
                    for lab in edges_guaranteeing(n.part, _neg(nonempty)):
                        out.add((n.id, lab))
            return out

        def always_passes(stmts: Set[int], blocked_edges: Set[Tuple[int, str]], g=g) -> bool:
            return bool(stmts) and not g.must_pass([g.entry], [g.ret_exit], lambda n: n.ast is not None and id(n.ast) in stmts, blocked_edges=blocked_edges)

        all_paths: Set[str] = set().union(*cover.values()) if cover else set()
        must: Set[str] = set()
        for p in all_paths:
            stmts = {sid for sid, ps in cover.items() if p in ps}
            if always_passes(stmts, empty_edges(p.split("[*]")[0]) if "[*]" in p else set()):
                must.add(p)
        for field in node_fields(kind):
            ftype, mult, fname = field
            stmt = f"visit_{kind}: field {fname} ({ftype}{mult})"
            whole = {sid for sid, ps in cover.items() if field_covered(kind, field, ps)}  # statements that cover the field on their own
            if always_passes(whole, empty_edges(f"node.{fname}") if mult == "*" else set()) or field_covered(kind, field, must):
                R.ok(r_cov, fn_rel, f"{VISITOR}.visit_{kind}", stmt, "visited on every accepting path", h.lineno)
                continue
            # constrained to a checked leaf?
            if ftype in ("operator", "unaryop", "boolop", "cmpop") and mult == "":
                # an operator position holds a field-less node: on a path where it is known to be one of the
                # whitelisted operator kinds there is nothing below it to visit
                def leaf_kind(e: ast.AST, fname=fname) -> Optional[bool]:
                    subject = kinds_arg = None
                    if isinstance(e, ast.Call) and isinstance(e.func, ast.Name) and e.func.id == "isinstance" and len(e.args) == 2:
                        subject, kinds_arg = e.args
                    elif isinstance(e, ast.Compare) and len(e.ops) == 1 and isinstance(e.ops[0], (ast.Is, ast.Eq)) and _type_of_arg(e.left) is not None:
                        subject, kinds_arg = _type_of_arg(e.left), e.comparators[0]
                    if subject is None or access_path(subject, {}, node_param, h) != f"node.{fname}":
                        return None
                    ks = kinds_arg.elts if isinstance(kinds_arg, ast.Tuple) else [kinds_arg]
                    names = {(dotted_name(k) or "?").split(".")[-1] for k in ks}
                    return True if names <= (DOCUMENTED_NODES & (allowed or set())) else None

                leaf_edges = {(n.id, lab) for n in g.nodes if n.kind == "if" and n.part is not None for lab in edges_guaranteeing(n.part, leaf_kind)}
                if leaf_edges and not g.must_pass([g.entry], [g.ret_exit], lambda n: n.ast is not None and id(n.ast) in whole, blocked_edges=leaf_edges):
                    R.ok(r_cov, fn_rel, f"{VISITOR}.visit_{kind}", stmt, "visited, or known to be a whitelisted operator, on every accepting path", h.lineno)
                    continue
            if kind == "Call" and fname == "func":
                func_tables: List[Set[str]] = []

                def func_is_name(e: ast.AST) -> Optional[bool]:
                    if isinstance(e, ast.Call) and call_attr(e) == "isinstance" and len(e.args) == 2 and isinstance(e.func, ast.Name):
                        cls_arg = e.args[1]
                        if isinstance(cls_arg, ast.Tuple) and len(cls_arg.elts) == 1:
                            cls_arg = cls_arg.elts[0]
                        if access_path(e.args[0], {}, node_param, h) == "node.func" and dotted_name(cls_arg) in ("ast.Name", "Name"):
                            return True
                    if isinstance(e, ast.Compare) and len(e.ops) == 1 and isinstance(e.ops[0], (ast.Is, ast.IsNot, ast.Eq, ast.NotEq)):
                        subject = _type_of_arg(e.left)
                        if subject is not None and access_path(subject, {}, node_param, h) == "node.func" and dotted_name(e.comparators[0]) in ("ast.Name", "Name"):
                            return isinstance(e.ops[0], (ast.Is, ast.Eq))
                    return None

                def func_in_funcs(e: ast.AST) -> Optional[bool]:
                    if isinstance(e, ast.Compare) and len(e.ops) == 1 and isinstance(e.ops[0], (ast.In, ast.NotIn)):
                        if access_path(e.left, {}, node_param, h) == "node.func.id":
                            names = tables.names(e.comparators[0])
                            if names is not None:
                                func_tables.append(names)
                                return isinstance(e.ops[0], ast.In)
                    return None

                h1, p1, g1 = returns_only_through(g, func_is_name)
                h2, p2, g2 = returns_only_through(g, func_in_funcs)
                R.check(bool(h1 and h2 and g1 and g2), r_cov, fn_rel, f"{VISITOR}.visit_Call", stmt,
                        "visit_Call can return normally for a call whose target is not a plain Name in _ALLOWED_FUNCS", h.lineno, p1 or p2)
                if func_tables:
                    funcs = set().union(*func_tables)
                continue
            if kind == "Name":
                continue
            R.violation(r_cov, fn_rel, f"{VISITOR}.visit_{kind}", stmt,
                        f"child position {kind}.{fname} is neither visited nor constrained: any expression there bypasses the whitelist", h.lineno)
        if kind == "Name":
            def name_allowed(e: ast.AST) -> Optional[bool]:
                if isinstance(e, ast.Compare) and len(e.ops) == 1 and isinstance(e.ops[0], (ast.In, ast.NotIn)):
                    right = e.comparators[0]
                    if (access_path(e.left, {}, node_param, h) == "node.id" and isinstance(right, ast.Attribute)
                            and isinstance(right.value, ast.Name) and right.value.id == "self" and not class_values(visitor, right.attr)):
                        name_attrs.add(right.attr)
                        return isinstance(e.ops[0], ast.In)
                return None

            holds, path, guards = returns_only_through(g, name_allowed)
            R.check(holds and guards > 0, r_cov, fn_rel, f"{VISITOR}.visit_Name", "visit_Name: id in self.allowed_names dominates normal return",
                    "visit_Name can accept a name that is not a declared sweep variable", h.lineno, path)

    # ---------------- D1 reject: a rejection leaves the visitor / compile() as the expression error ----------
    # "anything else is rejected with the expression error": (a) every raise statement of the visitor's
    # handlers and of compile() raises ExpressionError (or re-raises), (b) no attribute read on the tree being
    # validated can fail with AttributeError - the attribute exists on every node kind that can sit at that
    # access path there (kinds from the interpreter's grammar, narrowed by dominating isinstance / type() /
    # hasattr / whitelist tests).  generic_visit receives every node kind without a custom handler, operator
    # and context tokens included, and those carry no position attributes.
    r_rej = R.rule("C11-D1-reject", "every raise statement of the visitor's handlers and of compile() raises the expression error (ExpressionError or a subclass; bare re-raise allowed)", 3)
    r_attr = R.rule("C11-D1-node-attrs", "every attribute read on the tree under validation exists on every node kind that can be at that position (else the rejection is an AttributeError, not the expression error)", 3)
    err_classes: Set[str] = {ERROR}
    if not any(isinstance(st, ast.ClassDef) and st.name == ERROR for st in mod.tree.body):
        raise AnalysisError(f"{SAFE}: class {ERROR} vanished")
    grew = True
    while grew:
        grew = False
        for st in mod.tree.body:
            if isinstance(st, ast.ClassDef) and st.name not in err_classes and any((dotted_name(b) or "") in err_classes for b in st.bases):
                err_classes.add(st.name)
                grew = True

    def is_error_class(e: Optional[ast.AST]) -> bool:
        return e is not None and (dotted_name(e) or "?").split(".")[-1] in err_classes

    def check_raises(fn: ast.AST, qn: str) -> None:
        for r in walk_no_nested(fn):
            if not isinstance(r, ast.Raise):
                continue
            exc = r.exc
            ok = exc is None
            if isinstance(exc, ast.Call):
                ok = is_error_class(exc.func)
            elif isinstance(exc, ast.Name):
                h = next((a for a in ancestors(r) if isinstance(a, ast.ExceptHandler) and a.name == exc.id), None)
                if h is not None:
                    tys = [] if h.type is None else (list(h.type.elts) if isinstance(h.type, ast.Tuple) else [h.type])
                    ok = bool(tys) and all(is_error_class(t) for t in tys)
                else:
                    vals = assigned_value(fn, exc.id)
                    ok = is_error_class(exc) or (bool(vals) and all(isinstance(v, ast.Call) and is_error_class(v.func) for v in vals))
            elif exc is not None:
                ok = is_error_class(exc)
            R.check(ok, r_rej, fn_rel, qn, norm(r), f"an expression is rejected with `{norm(exc) if exc is not None else 'raise'}`, which is not the expression error ({ERROR})", getattr(r, "lineno", 0))

    universe = kinds_below("Expression")  # what ast.parse(mode="eval") can hand to the visitor
    handled_kinds = {k for k in list(handlers) + list(alias_handlers) if hasattr(ast, k)}

    def check_node_attrs(fn: ast.FunctionDef, qn: str, root_kinds: Set[str]) -> None:
        node_param = fn.args.args[1].arg if len(fn.args.args) > 1 else "node"
        if any(isinstance(x, ast.Name) and x.id == node_param and isinstance(x.ctx, (ast.Store, ast.Del)) for x in walk_no_nested(fn)):
            return  # the parameter is rebound: paths rooted at it are not the visited node any more (not decided)
        g = CFG(fn)
        COMPS = (ast.ListComp, ast.SetComp, ast.GeneratorExp, ast.DictComp)

        def chain_of(n: ast.AST) -> List[ast.AST]:
            out = [n]
            for a in ancestors(n):
                out.append(a)
                if a is fn:
                    break
            return out

        def env_for(n: ast.AST) -> Dict[str, Set[str]]:
            ch = chain_of(n)
            binders: List[Tuple[ast.AST, ast.AST]] = []  # (target, iterable), innermost first
            for j, a in enumerate(ch):
                child = ch[j - 1] if j > 0 else None
                if isinstance(a, ast.For) and child is not None and any(child is s for s in a.body):
                    if isinstance(a.target, ast.Name):
                        binders.append((a.target, a.iter))
                    elif (isinstance(a.target, ast.Tuple) and len(a.target.elts) == 2 and isinstance(a.target.elts[1], ast.Name) and isinstance(a.iter, ast.Call)
                          and call_name(a.iter) == "enumerate" and len(a.iter.args) == 1 and not a.iter.keywords):
                        binders.append((a.target.elts[1], a.iter.args[0]))
                elif isinstance(a, COMPS) and child is not None:
                    gens = list(a.generators)
                    if isinstance(child, ast.comprehension):
                        i = next(k for k, gen in enumerate(gens) if gen is child)
                        grand = ch[j - 2] if j > 1 else None
                        gens = gens[:i + 1] if any(grand is t for t in child.ifs) else gens[:i]
                    for gen in reversed(gens):
                        if isinstance(gen.target, ast.Name):
                            binders.append((gen.target, gen.iter))
            env: Dict[str, Set[str]] = {}
            for tgt, it in reversed(binders):
                env[tgt.id] = element_paths(it, env, node_param, fn) or set()
            return env

        def pathsof(e: ast.AST) -> Set[str]:
            got = access_paths(e, env_for(e), node_param, fn)
            return {p for p in (got or set()) if not p.startswith(IDX)}

        def loop_of(n: ast.AST) -> Optional[ast.AST]:
            return next((a for a in chain_of(n)[1:] if isinstance(a, (ast.For,) + COMPS)), None)

        def loops_of(n: ast.AST) -> Set[int]:
            return {id(a) for a in chain_of(n)[1:] if isinstance(a, (ast.For,) + COMPS)}

        def cls_kinds(c: ast.AST) -> Optional[Set[str]]:
            out: Set[str] = set()
            for x in (c.elts if isinstance(c, ast.Tuple) else [c]):
                dn = dotted_name(x) or ""
                full = dn if dn.startswith("ast.") else mod.imports.get(dn, "")
                nm = full[4:] if full.startswith("ast.") else ""
                if not nm or not _is_node_class(getattr(ast, nm, None)):
                    return None
                out |= kinds_of_type(nm)
            return out

        def guard_facts(e: ast.AST, pol: bool) -> List[Fact]:
            """What is known about the kinds at access paths when *e* evaluates to *pol*."""
            if isinstance(e, ast.UnaryOp) and isinstance(e.op, ast.Not):
                return guard_facts(e.operand, not pol)
            if isinstance(e, ast.BoolOp):
                if isinstance(e.op, ast.And) == pol:  # ``and`` true: every conjunct true; ``or`` false: every disjunct false
                    return [f for v in e.values for f in guard_facts(v, pol)]
                return []
            lp = loop_of(e)

            def facts_for(subject: ast.AST, pred: Callable[[str], bool]) -> List[Fact]:
                ps = pathsof(subject)
                return [(next(iter(ps)), pred, lp)] if len(ps) == 1 else []

            if isinstance(e, ast.Call) and isinstance(e.func, ast.Name) and not e.keywords and len(e.args) == 2:
                if e.func.id == "isinstance":
                    ks = cls_kinds(e.args[1])
                    if ks is not None:
                        return facts_for(e.args[0], (lambda k, ks=ks: k in ks) if pol else (lambda k, ks=ks: k not in ks))
                if e.func.id == "hasattr" and isinstance(e.args[1], ast.Constant) and isinstance(e.args[1].value, str):
                    a = e.args[1].value
                    return facts_for(e.args[0], (lambda k, a=a: has_attr(k, a)) if pol else (lambda k, a=a: not has_attr(k, a)))
            if isinstance(e, ast.Compare) and len(e.ops) == 1:
                op, right = e.ops[0], e.comparators[0]
                subject = _type_of_arg(e.left)
                if subject is not None:
                    ks2: Optional[Set[str]] = None
                    if isinstance(op, (ast.Is, ast.Eq, ast.IsNot, ast.NotEq)):
                        one = cls_kinds(right) if not isinstance(right, ast.Tuple) else None
                        # ``type(x) is ast.expr`` never holds for a parsed node: only concrete kinds are exact types
                        ks2 = one if one is not None and len(one) == 1 else None
                        positive = isinstance(op, (ast.Is, ast.Eq))
                    elif isinstance(op, (ast.In, ast.NotIn)):
                        ks2 = cls_kinds(right) if isinstance(right, ast.Tuple) else tables.names(right)
                        positive = isinstance(op, ast.In)
                    if ks2 is not None:
                        return facts_for(subject, (lambda k, ks=ks2: k in ks) if positive == pol else (lambda k, ks=ks2: k not in ks))
                if isinstance(op, (ast.Is, ast.IsNot)) and isinstance(right, ast.Constant) and right.value is None:
                    is_none = isinstance(op, ast.Is) == pol
                    return facts_for(e.left, (lambda k: k == NONE_KIND) if is_none else (lambda k: k != NONE_KIND))
            if isinstance(e, (ast.Name, ast.Attribute, ast.Subscript)):
                # truthiness of a node position: a node is true, None is false
                return facts_for(e, (lambda k: k != NONE_KIND) if pol else (lambda k: k == NONE_KIND))
            return []

        def protected(n: ast.AST) -> bool:
            ch = chain_of(n)
            for j, a in enumerate(ch):
                if isinstance(a, ast.Try) and j > 0 and any(ch[j - 1] is s for s in a.body):
                    for h in a.handlers:
                        tys = [] if h.type is None else (list(h.type.elts) if isinstance(h.type, ast.Tuple) else [h.type])
                        if h.type is None or any((dotted_name(t) or "").split(".")[-1] in ("AttributeError", "Exception", "BaseException") for t in tys):
                            return True
            return False

        done: Set[Tuple[int, str]] = set()

        def check_read(site: ast.AST, base: ast.AST, attr: str, facts: List[Fact]) -> None:
            if (id(site), attr) in done:
                return
            done.add((id(site), attr))
            paths = pathsof(base)
            if not paths or protected(site):
                return
            inside = loops_of(site)
            live = [f for f in facts if "[*]" not in f[0] or f[2] is None or id(f[2]) in inside]
            for p in sorted(paths):
                t = path_type(p, root_kinds, live)
                if t is None or t[0] != "nodes":
                    continue
                missing = sorted(k for k in t[1] if not has_attr(k, attr))
                shown = ", ".join(missing[:6]) + (f", ... ({len(missing)} kinds)" if len(missing) > 6 else "")
                st = stmt_of(site)
                text = norm(st.test if isinstance(st, (ast.If, ast.While)) else st.iter if isinstance(st, ast.For) else st)
                R.check(not missing, r_attr, fn_rel, qn, f"{p}.{attr} in `{text}`",
                        f"`{norm(site)}` is evaluated for a node that may be {shown}, which has no attribute `{attr}`: the expression is refused with "
                        f"AttributeError instead of {ERROR} (or an accepted expression fails to compile)", getattr(site, "lineno", fn.lineno))

        def scan(e: ast.AST, facts: List[Fact]) -> None:
            if isinstance(e, ANYFUNC + (ast.ClassDef,)):
                return  # evaluated later, if at all
            if isinstance(e, ast.BoolOp):
                cur = list(facts)
                for v in e.values:
                    scan(v, cur)
                    cur = cur + guard_facts(v, isinstance(e.op, ast.And))
                return
            if isinstance(e, ast.IfExp):
                scan(e.test, facts)
                scan(e.body, facts + guard_facts(e.test, True))
                scan(e.orelse, facts + guard_facts(e.test, False))
                return
            if isinstance(e, COMPS):
                cur = list(facts)
                for gen in e.generators:
                    scan(gen.iter, cur)
                    for t in gen.ifs:
                        scan(t, cur)
                        cur = cur + guard_facts(t, True)
                for part in ([e.key, e.value] if isinstance(e, ast.DictComp) else [e.elt]):
                    scan(part, cur)
                return
            if isinstance(e, ast.Attribute) and isinstance(e.ctx, ast.Load):
                check_read(e, e.value, e.attr, facts)
            if (isinstance(e, ast.Call) and isinstance(e.func, ast.Name) and e.func.id == "getattr" and len(e.args) == 2 and not e.keywords
                    and isinstance(e.args[1], ast.Constant) and isinstance(e.args[1].value, str)):
                check_read(e, e.args[0], e.args[1].value, facts)
            for c in ast.iter_child_nodes(e):
                scan(c, facts)

        guards = [(gn, lab, guard_facts(gn.part, pol)) for gn in g.nodes if gn.kind in ("if", "while") and gn.part is not None for lab, pol in (("T", True), ("F", False))]
        guards = [x for x in guards if x[2]]
        for n in g.nodes:
            if n.part is None or n.ast is None or isinstance(n.ast, FuncNode + (ast.ClassDef,)):
                continue
            base: List[Fact] = []
            for gn, lab, fs in guards:
                if gn.id != n.id and g.dominated_by_edge(n.id, gn.id, lab):
                    base += fs
            scan(n.part, base)

    for kind, h in sorted(handlers.items()):
        if hasattr(ast, kind):
            check_raises(h, f"{VISITOR}.visit_{kind}")
            check_node_attrs(h, f"{VISITOR}.visit_{kind}", {kind})
    if gv is not None:
        check_raises(gv, f"{VISITOR}.generic_visit")
        check_node_attrs(gv, f"{VISITOR}.generic_visit", universe - handled_kinds)
    check_raises(ncomp, COMPILE_QN)

    # ---------------- D2 functions: the call-target table and the evaluation environment ----------------------
    funcs_line = visitor.lineno
    if funcs is None:
        funcs_val = class_attr(visitor, "_ALLOWED_FUNCS")
        funcs = tables.names(funcs_val) if funcs_val is not None else None
        if funcs is None:
            if not R.violations():
                raise AnalysisError("_SafeVisitor: the call-target whitelist is not a table of strings that can be resolved")
            funcs = set()
    fv = class_attr(visitor, "_ALLOWED_FUNCS")
    if fv is not None:
        funcs_line = getattr(fv, "lineno", funcs_line)
    for f in sorted(funcs):
        R.check(f in DOCUMENTED_FUNCS, r_funcs, fn_rel, VISITOR, f"_ALLOWED_FUNCS: {f!r}",
                f"call target {f!r} is whitelisted but is not one of the documented functions", funcs_line)

    ev_init = nfunc(repo, SAFE, f"{EVALUATOR}.__init__", copyprop="all")
    ev_params = [a.arg for a in ev_init.args.posonlyargs + ev_init.args.args + ev_init.args.kwonlyargs]
    funcs_param = ev_params[1] if len(ev_params) > 1 else None
    env_keys: Set[str] = set()
    ev_tables = Tables(mod, evaluator)
    INIT = f"{EVALUATOR}.__init__"

    def binding(k: str, v: ast.AST, line: int) -> None:
        env_keys.add(k)
        good = k in DOCUMENTED_FUNCS and ((isinstance(v, ast.Name) and v.id == k) or (dotted_name(v) == f"builtins.{k}" and mod.imports.get("builtins") == "builtins"))
        R.check(good, r_funcs, fn_rel, INIT, f"env[{k!r}] = {norm(v)}",
                "evaluation environment binds a name outside the documented function table (or to a different object)", line)

    def class_level_dict(e: ast.AST) -> Optional[ast.AST]:
        """The dict literal a class attribute / module name of the evaluator is bound to (exactly once)."""
        vals: List[ast.AST] = []
        if isinstance(e, ast.Attribute) and is_class_ref(e.value, EVALUATOR):
            vals = class_values(evaluator, e.attr)
            nm = e.attr
        elif isinstance(e, ast.Name) and e.id not in ev_params and not assigned_value(ev_init, e.id):
            vals = module_values(mod.tree, e.id)
            nm = e.id
        if len(vals) == 1 and (isinstance(vals[0], ast.Dict) or (isinstance(vals[0], ast.Call) and call_name(vals[0]) == "dict")):
            ev_tables.attrs_used.add(nm)
            return vals[0]
        return None

    checked: Set[int] = set()

    def env_source(e: ast.AST, depth: int = 0) -> bool:
        """*e* evaluates to a mapping made only of checked dict literals and the caller's table; the literals
        met on the way are checked binding by binding."""
        if depth > 6:
            return False
        if _caller_funcs(e, funcs_param):
            return True
        if isinstance(e, ast.Dict):
            if id(e) in checked:
                return True
            checked.add(id(e))
            ok = True
            for k, v in zip(e.keys, e.values):
                if k is None:
                    if not env_source(v, depth + 1):
                        R.violation(r_funcs, fn_rel, INIT, norm(e), f"environment spreads `{norm(v)}`, which is neither the documented table nor the caller's allowed_funcs", e.lineno)
                        ok = False
                elif isinstance(k, ast.Constant) and isinstance(k.value, str):
                    binding(k.value, v, k.lineno)
                else:
                    R.violation(r_funcs, fn_rel, INIT, norm(e), "environment built from a non-literal key / ** expansion", e.lineno)
                    ok = False
            return ok
        if isinstance(e, ast.Call) and call_name(e) == "dict":
            if id(e) in checked:
                return True
            checked.add(id(e))
            ok = True
            for a in e.args:
                if not env_source(a, depth + 1):
                    R.violation(r_funcs, fn_rel, INIT, norm(e), f"environment copied from `{norm(a)}`, which is neither the documented table nor the caller's allowed_funcs", e.lineno)
                    ok = False
            for kw in e.keywords:
                if kw.arg is None:
                    if not env_source(kw.value, depth + 1):
                        R.violation(r_funcs, fn_rel, INIT, norm(e), f"environment spreads `{norm(kw.value)}`, which is neither the documented table nor the caller's allowed_funcs", e.lineno)
                        ok = False
                else:
                    binding(kw.arg, kw.value, e.lineno)
            return ok
        if isinstance(e, ast.Call) and isinstance(e.func, ast.Attribute) and e.func.attr == "copy" and not e.args and not e.keywords:
            return env_source(e.func.value, depth + 1)
        if isinstance(e, ast.Call) and call_name(e) in ("copy.copy", "copy.deepcopy") and len(e.args) == 1:
            return env_source(e.args[0], depth + 1)
        if isinstance(e, ast.BinOp) and isinstance(e.op, ast.BitOr):
            return env_source(e.left, depth + 1) and env_source(e.right, depth + 1)
        if isinstance(e, ast.IfExp):
            return env_source(e.body, depth + 1) and env_source(e.orelse, depth + 1)
        cd = class_level_dict(e)
        if cd is not None:
            return env_source(cd, depth + 1)
        if isinstance(e, ast.Name):
            vals = assigned_value(ev_init, e.id)
            return bool(vals) and all(env_source(v, depth + 1) for v in vals)
        return False

    env_stores = [n for n in walk_no_nested(ev_init) if isinstance(n, (ast.Assign, ast.AnnAssign)) and n.value is not None
                  and any(dotted_name(t) == f"self.{env_attr}" for t in (n.targets if isinstance(n, ast.Assign) else [n.target]))]
    if not env_stores:
        raise AnalysisError(f"ExpressionEvaluator.__init__: the evaluation environment (self.{env_attr}) is never stored")
    env_roots: Set[str] = {f"self.{env_attr}"}
    for s in env_stores:
        if isinstance(s.value, ast.Name):
            env_roots.add(s.value.id)
        if not env_source(s.value):
            R.violation(r_funcs, fn_rel, INIT, norm(s), "the evaluation environment is not built from the documented function table plus the caller's allowed_funcs", s.lineno)
    # every other dict literal / dict(k=v) of __init__ is held to the same table (it may reach the environment through an alias)
    for n in walk_no_nested(ev_init):
        if isinstance(n, ast.Dict) or (isinstance(n, ast.Call) and call_name(n) == "dict" and (n.keywords or n.args)):
            env_source(n)
    if not env_keys:
        raise AnalysisError("ExpressionEvaluator.__init__: environment dict literal not found")
    # visitor-accepted call targets must be bound in env (else they fall through to __builtins__)
    for f in sorted(funcs - env_keys):
        R.violation(r_funcs, fn_rel, VISITOR, f"_ALLOWED_FUNCS: {f!r}", "whitelisted call target is not bound in the evaluator environment, so it resolves through __builtins__", funcs_line)

    def loop_pair(site: ast.AST, k: ast.AST, v: ast.AST) -> bool:
        """``for K, V in <caller funcs>.items(): env[K] = V``"""
        for a in ancestors(site):
            if isinstance(a, ast.For) and isinstance(a.target, ast.Tuple) and len(a.target.elts) == 2 and all(isinstance(t, ast.Name) for t in a.target.elts):
                if (isinstance(k, ast.Name) and isinstance(v, ast.Name) and [t.id for t in a.target.elts] == [k.id, v.id]
                        and isinstance(a.iter, ast.Call) and isinstance(a.iter.func, ast.Attribute) and a.iter.func.attr == "items" and _caller_funcs(a.iter, funcs_param)):
                    return True
            if a is ev_init:
                break
        return False

    def store_item(site: ast.AST, k: ast.AST, v: ast.AST) -> None:
        if loop_pair(site, k, v):
            R.ok(r_funcs, fn_rel, INIT, norm(site), "caller-supplied functions copied one by one", site.lineno)
        elif isinstance(k, ast.Constant) and isinstance(k.value, str):
            binding(k.value, v, site.lineno)
        else:
            R.violation(r_funcs, fn_rel, INIT, norm(site), "environment extended from something other than the caller-supplied allowed_funcs", site.lineno)

    # any other mutation of env in __init__ must come from the allowed_funcs parameter only
    for c in calls_in(ev_init):
        if isinstance(c.func, ast.Attribute) and dotted_name(c.func.value) in env_roots:
            if c.func.attr == "update":
                ok = all(env_source(a) for a in c.args)
                for kw in c.keywords:
                    if kw.arg is None:
                        ok = ok and env_source(kw.value)
                    else:
                        binding(kw.arg, kw.value, c.lineno)
                R.check(ok, r_funcs, fn_rel, INIT, norm(c), "environment extended from something other than the caller-supplied allowed_funcs", c.lineno)
            elif c.func.attr in ("setdefault", "__setitem__") and len(c.args) == 2:
                store_item(c, c.args[0], c.args[1])
    for n in walk_no_nested(ev_init):
        if isinstance(n, (ast.Assign, ast.AugAssign, ast.AnnAssign)):
            for t in (n.targets if isinstance(n, ast.Assign) else [n.target]):
                if isinstance(t, ast.Subscript) and dotted_name(t.value) in env_roots:
                    if isinstance(n, ast.Assign):
                        store_item(n, t.slice, n.value)
                    else:
                        R.violation(r_funcs, fn_rel, INIT, norm(n), "environment entry rewritten in place", n.lineno)
                elif isinstance(n, ast.AugAssign) and dotted_name(t) in env_roots:
                    R.check(env_source(n.value), r_funcs, fn_rel, INIT, norm(n), "environment extended from something other than the caller-supplied allowed_funcs", n.lineno)
    # the environment is written by the constructor only
    for st in evaluator.body:
        if isinstance(st, FuncNode) and st.name != "__init__":
            for n in ast.walk(st):
                hit = False
                if isinstance(n, ast.Attribute) and n.attr == env_attr and isinstance(n.value, ast.Name) and n.value.id == "self":
                    p = parent(n)
                    if isinstance(n.ctx, (ast.Store, ast.Del)):
                        hit = True
                    elif isinstance(p, ast.Subscript) and p.value is n and isinstance(p.ctx, (ast.Store, ast.Del)):
                        hit = True
                    elif isinstance(p, ast.Attribute) and p.attr in MUTATORS and isinstance(parent(p), ast.Call) and parent(p).func is p and p.attr not in ("pop", "popitem", "clear", "remove", "discard"):
                        hit = True
                if hit:
                    R.violation(r_funcs, fn_rel, qualname_of(st), norm(stmt_of(n)), "the evaluation environment is rewritten outside the constructor", n.lineno)

    # the tables the verdicts above were read from are constants: nobody rebinds or grows them
    table_attrs = set(tables.attrs_used) | set(ev_tables.attrs_used) | {"_ALLOWED_NODES", "_ALLOWED_FUNCS"}
    for m in repo.modules.values():
        for n in ast.walk(m.tree):
            nm = n.attr if isinstance(n, ast.Attribute) else n.id if isinstance(n, ast.Name) and m is mod else None
            if nm not in table_attrs:
                continue
            p = parent(n)
            hit = False
            if isinstance(n, ast.Attribute) and isinstance(n.ctx, (ast.Store, ast.Del)):
                hit = True
            elif isinstance(p, ast.Attribute) and p.value is n and p.attr in MUTATORS and isinstance(parent(p), ast.Call) and parent(p).func is p:
                hit = True
            elif isinstance(p, ast.Subscript) and p.value is n and isinstance(p.ctx, (ast.Store, ast.Del)):
                hit = True
            elif isinstance(p, ast.AugAssign) and p.target is n:
                hit = True
            if hit:
                repo.consulted.add(m.rel)
                fn = next((a for a in ancestors(n) if isinstance(a, FuncNode)), None)
                R.violation(r_wl if nm not in ev_tables.attrs_used else r_funcs, m.rel, qualname_of(fn) if fn is not None else "<module>", norm(stmt_of(n)),
                            f"the whitelist table {nm} is rebound / mutated at run time, so the accepted grammar is not the literal table", n.lineno)

    # nobody in the package passes extra functions / a custom evaluator on the YAML path
    r_callers = R.rule("C11-D2-callers", "no package call site widens the evaluator (ExpressionEvaluator(...) with arguments, or create(expression_evaluator=...))", 1)
    for m in repo.modules.values():
        for c in (n for n in ast.walk(m.tree) if isinstance(n, ast.Call)):
            if call_attr(c) == EVALUATOR:
                repo.consulted.add(m.rel)
                fn = qualname_of(next((a for a in [c] + list(_anc(c)) if isinstance(a, FuncNode)), m.tree))
                R.check(not c.args and not c.keywords, r_callers, m.rel, fn, norm(c), "evaluator constructed with extra callables", c.lineno)
            if kwarg(c, "expression_evaluator") is not None:
                repo.consulted.add(m.rel)
                R.violation(r_callers, m.rel, "", norm(c), "custom expression evaluator passed inside the package", c.lineno)

    # ---------------- D2 names: the attribute visit_Name tests is exactly the constructor argument -------------
    r_names = R.rule("C11-D2-names", "the visitor's name whitelist is exactly the caller's set of sweep variables", 1)
    if not any(isinstance(st, FuncNode) and st.name == "__init__" for st in visitor.body):
        raise AnalysisError("_SafeVisitor.__init__ vanished")
    vinit = nfunc(repo, SAFE, f"{VISITOR}.__init__", copyprop="all")
    vparams = [a.arg for a in vinit.args.posonlyargs + vinit.args.args]
    ctor_param = vparams[1] if len(vparams) > 1 else "allowed_names"
    if not name_attrs:
        name_attrs = {"allowed_names"}

    def param_intact(fn: ast.AST, param: str) -> bool:
        """The parameter still holds the caller's object: never rebound, never mutated in *fn*."""
        rebound = any(isinstance(x, ast.Name) and x.id == param and isinstance(x.ctx, (ast.Store, ast.Del)) for x in walk_no_nested(fn))
        return not rebound and not mutation_sites(fn, {param})

    def names_unchanged(v: ast.AST, param: str, fn: ast.AST, depth: int = 0) -> bool:
        """*v* is the parameter *param* of *fn* (or a set/frozenset copy of it), possibly through a local bound once."""
        if isinstance(v, ast.Name):
            if v.id == param:
                return param_intact(fn, param)
            val = local_value(fn, v.id) if depth < 3 else None
            return val is not None and names_unchanged(val, param, fn, depth + 1)
        if isinstance(v, ast.Call) and call_name(v) in ("set", "frozenset") and len(v.args) == 1 and not v.keywords:
            return names_unchanged(v.args[0], param, fn, depth + 1)
        return False

    for attr in sorted(name_attrs):
        stores = [n for n in walk_no_nested(vinit) if isinstance(n, (ast.Assign, ast.AnnAssign)) and n.value is not None
                  and any(dotted_name(t) == f"self.{attr}" for t in (n.targets if isinstance(n, ast.Assign) else [n.target]))]
        for s in stores:
            R.check(names_unchanged(s.value, ctor_param, vinit), r_names, fn_rel, f"{VISITOR}.__init__", norm(s), "name whitelist is not the constructor argument unchanged", s.lineno)
        if not stores:
            R.violation(r_names, fn_rel, f"{VISITOR}.__init__", f"self.{attr} = ...", "allowed_names never stored", vinit.lineno)
        # other writers of the name whitelist anywhere in the class
        for st in visitor.body:
            if isinstance(st, FuncNode) and st.name != "__init__":
                for n in ast.walk(st):
                    if isinstance(n, (ast.Assign, ast.AugAssign, ast.AnnAssign)):
                        tg = n.targets if isinstance(n, ast.Assign) else [n.target]
                        if any(dotted_name(t) == f"self.{attr}" for t in tg):
                            R.violation(r_names, fn_rel, f"{VISITOR}.{st.name}", norm(n), "name whitelist rewritten outside __init__", n.lineno)
                    if isinstance(n, ast.Call) and isinstance(n.func, ast.Attribute) and dotted_name(n.func.value) == f"self.{attr}" and n.func.attr in ("add", "update"):
                        R.violation(r_names, fn_rel, f"{VISITOR}.{st.name}", norm(n), "name whitelist widened during traversal", n.lineno)
        for n in walk_no_nested(vinit):
            if isinstance(n, ast.Call) and isinstance(n.func, ast.Attribute) and dotted_name(n.func.value) in (f"self.{attr}", ctor_param) and n.func.attr in ("add", "update"):
                R.violation(r_names, fn_rel, f"{VISITOR}.__init__", norm(n), "name whitelist widened in the constructor", n.lineno)

    # ---------------- D3 validate before evaluate ---------------------------
    r_ord = R.rule("C11-D3-order", "compile()/eval() are dominated by _SafeVisitor(allowed_names).visit(tree) on the very tree that is compiled, and a rejection cannot be swallowed", 5)
    comp = ncomp
    g = CFG(comp)
    params = [a.arg for a in comp.args.args]
    if len(params) < 3:
        raise AnalysisError("ExpressionEvaluator.compile signature changed")
    names_param = params[2]

    def simple_stmt(n) -> bool:
        return n.ast is not None and n.kind == "stmt" and not isinstance(n.ast, FuncNode + (ast.ClassDef,))

    def visitor_ctor(e: ast.AST) -> Optional[ast.Call]:
        if isinstance(e, ast.Call) and call_attr(e) == VISITOR:
            return e
        if isinstance(e, ast.Name):
            vals = assigned_value(comp, e.id)
            if len(vals) == 1 and isinstance(vals[0], ast.Call) and call_attr(vals[0]) == VISITOR:
                return vals[0]
        return None

    # (cfg node, the .visit(tree) call, the constructor call)
    visit_sites: List[Tuple[object, ast.Call, ast.Call]] = []
    for n in g.nodes:
        if simple_stmt(n):
            for c in calls_in(n.ast):
                f = c.func
                if isinstance(f, ast.Attribute) and f.attr == "visit":
                    ctor = visitor_ctor(f.value)
                    if ctor is not None:
                        visit_sites.append((n, c, ctor))
    compile_nodes = []
    for n in g.nodes:
        if simple_stmt(n):
            for c in calls_in(n.ast):
                if isinstance(c.func, ast.Name) and c.func.id == "compile":
                    compile_nodes.append((n, c))

    def bind_call(h: ast.AST, call: ast.Call, recv: bool) -> Dict[str, ast.AST]:
        pos = [a.arg for a in h.args.posonlyargs + h.args.args]
        if recv and pos:
            pos = pos[1:]
        out: Dict[str, ast.AST] = {}
        defaults = h.args.defaults
        allpos = [a.arg for a in h.args.posonlyargs + h.args.args]
        for nm, d in zip(allpos[len(allpos) - len(defaults):], defaults):
            out[nm] = d
        for a, d in zip(h.args.kwonlyargs, h.args.kw_defaults):
            if d is not None:
                out[a.arg] = d
        for nm, v in zip(pos, call.args):
            out[nm] = v
        for kw in call.keywords:
            if kw.arg is not None:
                out[kw.arg] = kw.value
        return out

    def parse_origins(fmod, fn: ast.AST, e: ast.AST, bind: Dict[str, ast.AST], depth: int = 0) -> Optional[List[Tuple[ast.Call, Dict[str, ast.AST]]]]:
        """The ``ast.parse`` calls *e* (an expression of *fn*) can evaluate to, followed through locals,
        conditional expressions and the returned values of repo functions; None when some origin is something else."""
        if depth > 5:
            return None
        if isinstance(e, ast.IfExp):
            a, b = parse_origins(fmod, fn, e.body, bind, depth + 1), parse_origins(fmod, fn, e.orelse, bind, depth + 1)
            return a + b if a is not None and b is not None else None
        if isinstance(e, ast.Call):
            nm = call_name(e)
            if nm == "ast.parse" or (nm is not None and fmod.imports.get(nm) == "ast.parse"):
                return [(e, bind)]
            try:
                targets = repo.resolve_call(fmod, e)
            except Exception:
                targets = []
            if len(targets) != 1 or not isinstance(targets[0][1], FuncNode):
                return None
            hm, h = targets[0]
            if any(isinstance(x, (ast.Yield, ast.YieldFrom)) for x in ast.walk(h)) or isinstance(h, ast.AsyncFunctionDef) or h.decorator_list and any(dotted_name(d) != "staticmethod" for d in h.decorator_list):
                return None
            repo.consulted.add(hm.rel)
            hn = nfunc(repo, hm.rel, qualname_of(h), copyprop="all")
            rvs = returned_values(hn)
            if not rvs:
                return None
            is_method = isinstance(parent(h), ast.ClassDef) and not any(dotted_name(d) == "staticmethod" for d in h.decorator_list)
            hb = bind_call(hn, e, is_method)
            out: List[Tuple[ast.Call, Dict[str, ast.AST]]] = []
            for rv in rvs:
                sub = parse_origins(hm, hn, rv, hb, depth + 1)
                if sub is None:
                    return None
                out += sub
            return out
        if isinstance(e, ast.Name):
            vals = assigned_value(fn, e.id)
            if not vals:
                return None
            out2: List[Tuple[ast.Call, Dict[str, ast.AST]]] = []
            for v in vals:
                sub = parse_origins(fmod, fn, v, bind, depth + 1)
                if sub is None:
                    return None
                out2 += sub
            return out2
        return None

    if not visit_sites:
        # a visitor kept on the evaluator (``self.X = _SafeVisitor(...)`` in the constructor, ``self.X.visit(tree)`` here)
        # outlives one compile() call: its name whitelist is state shared by every call on that evaluator
        shared = None
        for c in calls_in(comp):
            f = c.func
            if isinstance(f, ast.Attribute) and f.attr == "visit" and isinstance(f.value, ast.Attribute) and isinstance(f.value.value, ast.Name) and f.value.value.id == "self":
                made = [n for st in evaluator.body if isinstance(st, FuncNode) for n in ast.walk(st) if isinstance(n, (ast.Assign, ast.AnnAssign)) and n.value is not None
                        and any(dotted_name(t) == f"self.{f.value.attr}" for t in (n.targets if isinstance(n, ast.Assign) else [n.target]))
                        and any(isinstance(k, ast.Call) and call_attr(k) == VISITOR for k in ast.walk(n.value))]
                if made:
                    shared = (c, f.value.attr, made[0])
        if shared is not None:
            c, attr, made = shared
            R.violation(r_ord, fn_rel, COMPILE_QN, norm(c),
                        f"the validating visitor is the evaluator attribute self.{attr} (`{norm(made)}`, line {made.lineno}), not one built from this call's allowed_names: "
                        "its name whitelist is per-evaluator state shared by all compile() calls, so an overlapping / later call validates against another call's variables", c.lineno)
        else:
            R.violation(r_ord, fn_rel, COMPILE_QN, "_SafeVisitor(...).visit(tree)", "the expression tree is never validated", comp.lineno)
    else:
        vparam_name = ctor_param
        for vn, vcall, ctor in visit_sites:
            # constructor argument is the allowed_names parameter unchanged
            a0 = ctor.args[0] if ctor.args else kwarg(ctor, vparam_name)
            extra = len(ctor.args) + len(ctor.keywords) > 1
            R.check(a0 is not None and names_unchanged(a0, names_param, comp) and not extra, r_ord, fn_rel, COMPILE_QN, norm(vcall),
                    "visitor is not constructed from the allowed_names parameter unchanged", vcall.lineno)
            visited_tree = vcall.args[0] if vcall.args else None
            tree_name = visited_tree.id if isinstance(visited_tree, ast.Name) else None
            # every binding of the tree that reaches the validation is a result of ast.parse(..., mode="eval")
            origins: Optional[List[Tuple[ast.Call, Dict[str, ast.AST]]]] = None
            if tree_name is not None:
                defs = reaching_defs(g, tree_name, vn.id)
                origins = [] if defs else None
                for d in defs:
                    a = d.ast
                    val = a.value if isinstance(a, (ast.Assign, ast.AnnAssign)) and d.kind == "stmt" else None
                    tg = (a.targets if isinstance(a, ast.Assign) else [a.target]) if val is not None else []
                    sub = parse_origins(mod, comp, val, {}) if val is not None and all(isinstance(t, ast.Name) for t in tg) else None
                    if sub is None or origins is None:
                        origins = None
                    else:
                        origins += sub
            elif isinstance(visited_tree, ast.Call):
                origins = parse_origins(mod, comp, visited_tree, {})
            R.check(origins is not None, r_ord, fn_rel, COMPILE_QN, f"{tree_name} = ast.parse(...)", "the validated tree is not the single result of ast.parse", comp.lineno)
            for pc, bind in origins or []:
                mode = kwarg(pc, "mode") or (pc.args[2] if len(pc.args) > 2 else None)
                hops = 0
                while isinstance(mode, ast.Name) and mode.id in bind and hops < 4:
                    mode = bind[mode.id]
                    hops += 1
                R.check(isinstance(mode, ast.Constant) and mode.value == "eval", r_ord, fn_rel, COMPILE_QN, norm(stmt_of(pc)) if parent(pc) is not None else norm(pc),
                        "expression is not parsed in eval mode (statements would be parsed)", pc.lineno)
            # a rejection must leave the function exceptionally
            exc_succ = [t for t, lab in g.succ[vn.id] if lab == EXC]
            seen = g.reach(exc_succ)
            escaped = [t for t in [g.ret_exit] + [cn.id for cn, _ in compile_nodes] if t in seen]
            R.check(not escaped, r_ord, fn_rel, COMPILE_QN, "rejection propagates",
                    "an ExpressionError raised by the visitor can be swallowed and compilation/return still reached", vn.line,
                    g.path_to(seen, escaped[0]) if escaped else None)
        # builtin compile() dominated by the validation of the very object it compiles
        if not compile_nodes:
            raise AnalysisError("ExpressionEvaluator.compile: builtin compile() call not found")
        for n, c in compile_nodes:
            tname = c.args[0].id if c.args and isinstance(c.args[0], ast.Name) else None
            v_all = {v.id for v, _c, _k in visit_sites}
            v_same = {v.id for v, vc, _k in visit_sites if tname is not None and vc.args and isinstance(vc.args[0], ast.Name) and vc.args[0].id == tname}
            dom = n.id not in v_all and n.id not in g.reach([g.entry], blocked=v_all)
            R.check(dom, r_ord, fn_rel, COMPILE_QN, norm(c), "compile() is reachable without the validation having run", c.lineno)
            same = bool(v_same) and n.id not in v_same and n.id not in g.reach([g.entry], blocked=v_same)
            why = "the compiled object is not the validated tree (re-parse or different source)"
            path = None
            if same:
                # no binding of the name can reach compile() without a validation after it
                for d in reaching_defs(g, tname, n.id):
                    seen = g.reach([t for t, _l in g.succ[d.id] if t not in v_same], blocked=v_same)
                    if n.id in seen:
                        same = False
                        why = "the tree is (re)bound after its validation: the compiled object is not the validated one"
                        path = [f"L{d.line}: {d.text()}"] + g.path_to(seen, n.id)
                        break
            R.check(same, r_ord, fn_rel, COMPILE_QN, norm(c) + " [same tree]", why, c.lineno, path)
            # the validated tree is not altered between validation and compile()
            altered = None
            if same and tname is not None:
                after_visit = g.reach([t for v in v_same for t, lab in g.succ[v] if lab != EXC])
                def between(st: ast.AST) -> bool:
                    return any(i in after_visit and n.id in g.reach([i]) and i != n.id for i in g.nodes_for(st))
                for site, _root in mutation_sites(comp, {tname}):
                    if between(stmt_of(site)):
                        altered = site
                for cn in g.nodes:
                    if altered is None and simple_stmt(cn) and cn.id in after_visit and cn.id != n.id and cn.id not in v_same and n.id in g.reach([cn.id]):
                        for k in calls_in(cn.ast):
                            args = list(k.args) + [kw.value for kw in k.keywords]
                            if any(isinstance(a, ast.Name) and a.id == tname for a in args) and call_name(k) not in TREE_READERS:
                                altered = k
            R.check(altered is None, r_ord, fn_rel, COMPILE_QN, norm(c) + " [tree unchanged since validation]",
                    f"the validated tree is altered / handed to `{norm(altered) if altered is not None else ''}` between validation and compile()", getattr(altered, "lineno", c.lineno))
    # every normal return is preceded by the validation (a memoised result may be returned
    # early only when the memo key includes the allowed names, i.e. it was validated for them)
    if visit_sites:
        vset = {v.id for v, _c, _k in visit_sites}
        bad = g.must_pass([g.entry], [g.ret_exit], lambda n: n.id in vset)
        ok_ret = True
        why_path = None
        if bad:
            seen = g.reach([g.entry], blocked=vset)
            for n in g.nodes:
                if n.id in seen and n.kind == "stmt" and isinstance(n.ast, ast.Return) and n.id not in vset:
                    if not _keyed_by(comp, n.ast.value, names_param):
                        ok_ret = False
                        why_path = g.path_to(seen, n.id)
        R.check(ok_ret, r_ord, fn_rel, COMPILE_QN, "every return is preceded by validation for these allowed names",
                "compile() can return a callable without validating the expression against this call's allowed names (e.g. a memo keyed by the text alone)", comp.lineno, why_path)
    # eval call: globals is self.env, code from compile
    r_eval = R.rule("C11-D3-eval", "eval() receives the compiled validated code, the fixed environment as globals and only the sweep variables as locals", 1)
    if not evals:
        raise AnalysisError("ExpressionEvaluator.compile: eval() call not found")
    code_names = set()
    for n, c in compile_nodes:
        st = n.ast
        if isinstance(st, (ast.Assign, ast.AnnAssign)) and st.value is c:
            code_names |= {t.id for t in (st.targets if isinstance(st, ast.Assign) else [st.target]) if isinstance(t, ast.Name)}
    for c in evals:
        fn = _enclosing(c, comp)
        kwname = fn.args.kwarg.arg if fn.args.kwarg else None
        code_ok = len(c.args) >= 1 and isinstance(c.args[0], ast.Name) and c.args[0].id in code_names and all(
            isinstance(v, ast.Call) and isinstance(v.func, ast.Name) and v.func.id == "compile" for v in assigned_value(comp, c.args[0].id))
        ok = (
            len(c.args) == 3 and not c.keywords and code_ok
            and dotted_name(c.args[1]) == f"self.{env_attr}"
            and isinstance(c.args[2], ast.Name) and c.args[2].id == kwname and kwname is not None
        )
        R.check(ok, r_eval, fn_rel, qualname_of(fn), norm(c), "eval() arguments are not (validated code, self.env, **kwargs of the call)", c.lineno)

    # ---------------- who may eval ------------------------------------------
    r_who = R.rule("C11-D3-who-may-eval", "eval/exec/compile builtins occur only at the frozen sites", 3)
    inlined = set(getattr(ncomp, "_inlined", []) or [])

    def only_used_by_compile(name: str) -> bool:
        """Every reference to the private helper *name* sits in compile() or in another helper inlined into it."""
        for m in repo.modules.values():
            for x in ast.walk(m.tree):
                ref = (isinstance(x, ast.Name) and x.id == name) or (isinstance(x, ast.Attribute) and x.attr == name) or (isinstance(x, ast.alias) and x.name.split(".")[-1] == name)
                if not ref:
                    continue
                if m is not mod:
                    return False
                f = next((a for a in ancestors(x) if isinstance(a, FuncNode)), None)
                if f is None or not (qualname_of(f).startswith(COMPILE_QN) or f.name in inlined):
                    return False
        return True

    for m in repo.modules.values():
        for c in (n for n in ast.walk(m.tree) if isinstance(n, ast.Call)):
            if isinstance(c.func, ast.Name) and c.func.id in ("eval", "exec", "compile"):
                fn = next((a for a in _anc(c) if isinstance(a, ANYFUNC)), None)
                qn = qualname_of(fn) if fn is not None else "<module>"
                repo.consulted.add(m.rel)
                allowed_here = set(EVAL_SITES.get((m.rel, qn), set()))
                if m.rel == SAFE and qn.startswith(COMPILE_QN + "."):
                    allowed_here |= {"eval"}  # a closure / lambda of compile(): arguments decided by C11-D3-eval
                if m.rel == SAFE and isinstance(fn, FuncNode) and fn.name in inlined and c.func.id == "compile" and only_used_by_compile(fn.name):
                    allowed_here |= {"compile"}  # analysed in context (inlined into the normal form of compile())
                if c.func.id not in allowed_here:
                    # decided by what flows in, not by where the call lives or what its function is called: text that
                    # is a function of __file__ and literals alone (the package's version.txt) is no sweep expression
                    src = c.args[0] if c.args and not isinstance(c.args[0], ast.Starred) else kwarg(c, "source")
                    scopes = [a for a in _anc(c) if isinstance(a, ANYFUNC)]
                    if src is not None and not any(isinstance(a, ast.Starred) for a in c.args) and not any(k.arg is None for k in c.keywords) \
                            and fixed_source(src, scopes, m.tree):
                        R.ok(r_who, m.rel, qn, norm(c))
                        continue
                R.check(c.func.id in allowed_here, r_who, m.rel, qn, norm(c), f"{c.func.id}() outside the frozen who-may-eval table on text that is not a fixed file of the package", c.lineno)

    # ---------------- sweep factory passes exactly the variables --------------
    r_sw = R.rule("C11-D3-sweep-names", "the sweep factory compiles expressions with exactly the declared variable names, and nothing else evaluates them", 2)
    CPE = find_sweep_compiler(repo)
    create = nfunc(repo, SWEEP, "ParametricSweepFactory.create", keep=(CPE,), copyprop="all")
    cpe = nfunc(repo, SWEEP, CPE, copyprop="all")
    cpe_params = [a.arg for a in cpe.args.posonlyargs + cpe.args.args]
    if len(cpe_params) < 2:
        raise AnalysisError("_compile_parametric_expressions signature changed")
    names_p = cpe_params[1]

    def is_var_names(e: ast.AST, depth: int = 0) -> bool:
        """*e* is exactly the collection of declared variable names (the keys of the ``vars`` argument)."""
        if depth > 4:
            return False
        if isinstance(e, ast.Name):
            if e.id == "vars":
                # the parameter itself, provided create() never rebinds it
                return not any(isinstance(x, ast.Name) and x.id == "vars" and isinstance(x.ctx, (ast.Store, ast.Del)) for x in walk_no_nested(create))
            val = local_value(create, e.id)  # a named collection, bound once and never mutated
            return val is not None and is_var_names(val, depth + 1)
        if isinstance(e, ast.Call) and isinstance(e.func, ast.Attribute) and e.func.attr == "keys" and not e.args and not e.keywords:
            return isinstance(e.func.value, ast.Name) and e.func.value.id == "vars"
        if isinstance(e, ast.Call) and call_name(e) in ("set", "frozenset", "list", "tuple", "sorted") and len(e.args) == 1 and not e.keywords:
            return is_var_names(e.args[0], depth + 1)
        if isinstance(e, (ast.Set, ast.List, ast.Tuple)) and len(e.elts) == 1 and isinstance(e.elts[0], ast.Starred):
            return is_var_names(e.elts[0].value, depth + 1)
        if isinstance(e, (ast.SetComp, ast.ListComp, ast.GeneratorExp)) and len(e.generators) == 1:
            gen = e.generators[0]
            return (not gen.ifs and isinstance(gen.target, ast.Name) and isinstance(e.elt, ast.Name) and e.elt.id == gen.target.id
                    and is_var_names(gen.iter, depth + 1))
        return False

    found = False
    for c in calls_in(create):
        if call_attr(c) == CPE:
            found = True
            a1 = c.args[1] if len(c.args) > 1 else kwarg(c, names_p)
            ok = a1 is not None and is_var_names(a1)
            R.check(ok, r_sw, SWEEP, "ParametricSweepFactory.create", norm(c), "allowed names passed to the expression compiler are not exactly set(vars)", c.lineno)
    if not found:
        raise AnalysisError("create(): call of _compile_parametric_expressions not found")
    ok_any = False

    def compile_sites(fn: ast.AST, qn: str, names_in_fn: Optional[str], depth: int = 0) -> None:
        """evaluator.compile(...) calls of *fn* and of the same-module helpers it hands the names to."""
        nonlocal ok_any
        for c in calls_in(fn):
            callee = c.func
            if isinstance(callee, ast.Name):
                callee = local_value(fn, callee.id) or callee  # ``build = evaluator.compile``
            if isinstance(callee, ast.Attribute) and callee.attr == "compile":
                a = c.args[1] if len(c.args) > 1 else kwarg(c, names_param)
                ok = a is not None and names_in_fn is not None and names_unchanged(a, names_in_fn, fn)
                ok_any = True
                R.check(ok, r_sw, SWEEP, qn, norm(c), "allowed names widened between create() and the evaluator", c.lineno)
            elif depth < 2:
                try:
                    targets = repo.resolve_call(repo.module(SWEEP), c)
                except Exception:
                    targets = []
                if len(targets) == 1 and isinstance(targets[0][1], FuncNode) and targets[0][0].rel == SWEEP and not targets[0][1].decorator_list and parent(targets[0][1]) is targets[0][0].tree:
                    h = targets[0][1]
                    if not any(isinstance(k, ast.Call) and isinstance(k.func, ast.Attribute) and k.func.attr == "compile" for k in ast.walk(h)):
                        continue
                    hn = nfunc(repo, SWEEP, qualname_of(h), copyprop="all")
                    hb = bind_call(hn, c, False)
                    passed = [p for p, v in hb.items() if names_in_fn is not None and names_unchanged(v, names_in_fn, fn)]
                    compile_sites(hn, qualname_of(h), passed[0] if len(passed) == 1 else None, depth + 1)

    compile_sites(cpe, CPE, names_p)
    if not ok_any:
        raise AnalysisError("_compile_parametric_expressions: evaluator.compile call not found")

    # every callable the factory keeps for a parametric expression is what evaluator.compile() returned for it:
    # an expression that gets its callable any other way (a literal fast path, a second parser, a fallback
    # lambda) was accepted without the whitelist having seen it
    r_sc = R.rule("C11-D3-sweep-compiled", "every value the sweep factory stores for a parametric expression is the result of evaluator.compile(expr, allowed_names); the table is not altered afterwards", 2)
    ev_p = cpe_params[2] if len(cpe_params) > 2 else "evaluator"
    ev_intact = not any(isinstance(x, ast.Name) and x.id == ev_p and isinstance(x.ctx, (ast.Store, ast.Del)) for x in walk_no_nested(cpe))
    cpe_mod = repo.module(SWEEP)

    def compile_on(callee: ast.AST, fn: ast.AST, recv_names: Set[str]) -> bool:
        if isinstance(callee, ast.Name):
            callee = local_value(fn, callee.id) or callee  # ``build = evaluator.compile``
        return isinstance(callee, ast.Attribute) and callee.attr == "compile" and isinstance(callee.value, ast.Name) and callee.value.id in recv_names

    def only_plain_bindings(fn: ast.AST, name: str) -> bool:
        stores = [x for x in walk_no_nested(fn) if isinstance(x, ast.Name) and x.id == name and isinstance(x.ctx, (ast.Store, ast.Del))]
        return len(stores) == len(assigned_value(fn, name)) and all(isinstance(parent(x), (ast.Assign, ast.AnnAssign)) for x in stores)

    def compile_result(v: ast.AST, fn: ast.AST, recv_names: Set[str], depth: int = 0) -> bool:
        """*v* evaluates to what ``<evaluator>.compile(...)`` returned (directly, through a local, or through a
        repo helper that returns exactly that)."""
        if depth > 4:
            return False
        if isinstance(v, ast.IfExp):
            return compile_result(v.body, fn, recv_names, depth + 1) and compile_result(v.orelse, fn, recv_names, depth + 1)
        if isinstance(v, ast.Name):
            vals = assigned_value(fn, v.id)
            return bool(vals) and only_plain_bindings(fn, v.id) and all(compile_result(x, fn, recv_names, depth + 1) for x in vals)
        if isinstance(v, ast.Call):
            if compile_on(v.func, fn, recv_names):
                return True
            try:
                targets = repo.resolve_call(cpe_mod, v)
            except Exception:
                targets = []
            if len(targets) == 1 and isinstance(targets[0][1], FuncNode) and targets[0][0].rel == SWEEP and not targets[0][1].decorator_list:
                h = targets[0][1]
                if any(isinstance(x, (ast.Yield, ast.YieldFrom)) for x in ast.walk(h)):
                    return False
                hn = nfunc(repo, SWEEP, qualname_of(h), copyprop="all")
                hb = bind_call(hn, v, False)
                recv2 = {p for p, a in hb.items() if isinstance(a, ast.Name) and a.id in recv_names
                         and not any(isinstance(x, ast.Name) and x.id == p and isinstance(x.ctx, (ast.Store, ast.Del)) for x in walk_no_nested(hn))}
                rets = [r.value for r in walk_no_nested(hn) if isinstance(r, ast.Return)]
                return bool(rets) and all(r is not None and compile_result(r, hn, recv2, depth + 1) for r in rets)
        return False

    recv = {ev_p} if ev_intact else set()
    seen_vals: Set[int] = set()

    def stored_value(v: ast.AST, site: ast.AST) -> None:
        if id(v) in seen_vals:
            return
        seen_vals.add(id(v))
        R.check(compile_result(v, cpe, recv), r_sc, SWEEP, CPE, norm(stmt_of(site)),
                f"`{slice_text(cpe, v, 2)}` is stored as the callable of a parametric expression but is not the result of {ev_p}.compile(...): that expression is accepted "
                "(or refused with some other error) without the safe-grammar whitelist having seen it", getattr(v, "lineno", cpe.lineno))

    def table_literal(e: ast.AST) -> bool:
        """*e* builds the table: checks the values it is built with; False when the shape is not understood."""
        if isinstance(e, ast.Dict):
            for k, v in zip(e.keys, e.values):
                if k is None:
                    if not table_literal(v):
                        return False
                else:
                    stored_value(v, e)
            return True
        if isinstance(e, ast.DictComp):
            stored_value(e.value, e)
            return True
        if isinstance(e, ast.Call) and call_name(e) == "dict" and not e.keywords and len(e.args) <= 1:
            return not e.args or table_literal(e.args[0])
        return False

    table_names: Set[str] = set()
    for r in walk_no_nested(cpe):
        if not isinstance(r, ast.Return):
            continue
        if isinstance(r.value, ast.Name) and r.value.id not in cpe_params:
            nm = r.value.id
            table_names.add(nm)
            vals = assigned_value(cpe, nm)
            if not vals or not only_plain_bindings(cpe, nm) or not all(table_literal(v) for v in vals):
                raise AnalysisError(f"{CPE}: the returned table `{nm}` is not built from dict literals / comprehensions in this function")
        elif r.value is None or not table_literal(r.value):
            raise AnalysisError(f"{CPE}: returns something other than a table built in this function")
    if not table_names and not seen_vals:
        raise AnalysisError(f"{CPE}: no returned table found")
    for n in walk_no_nested(cpe):
        if isinstance(n, (ast.Assign, ast.AugAssign, ast.AnnAssign)):
            for t in (n.targets if isinstance(n, ast.Assign) else [n.target]):
                if isinstance(t, ast.Subscript) and isinstance(t.value, ast.Name) and t.value.id in table_names:
                    if isinstance(n, ast.AugAssign) or n.value is None:
                        R.violation(r_sc, SWEEP, CPE, norm(n), "a stored expression callable is rewritten in place", n.lineno)
                    else:
                        stored_value(n.value, n)
                elif isinstance(n, ast.AugAssign) and isinstance(t, ast.Name) and t.id in table_names:
                    R.check(table_literal(n.value), r_sc, SWEEP, CPE, norm(n), "the table of expression callables is extended from something that is not a table of evaluator.compile results", n.lineno)
        if isinstance(n, ast.Call) and isinstance(n.func, ast.Attribute) and isinstance(n.func.value, ast.Name) and n.func.value.id in table_names:
            if n.func.attr in ("setdefault", "__setitem__") and len(n.args) == 2:
                stored_value(n.args[1], n)
            elif n.func.attr == "update":
                for kw in n.keywords:
                    if kw.arg is not None:
                        stored_value(kw.value, n)
                R.check(all(table_literal(a) for a in n.args) and all(kw.arg is not None or table_literal(kw.value) for kw in n.keywords), r_sc, SWEEP, CPE, norm(n),
                        "the table of expression callables is extended from something that is not a table of evaluator.compile results", n.lineno)
    # ... and create() keeps that table as returned
    for c in calls_in(create):
        if call_attr(c) == CPE:
            st = stmt_of(c)
            if isinstance(st, (ast.Assign, ast.AnnAssign)) and st.value is c:
                for t in (st.targets if isinstance(st, ast.Assign) else [st.target]):
                    if isinstance(t, ast.Name):
                        sites = mutation_sites(create, {t.id}, include_nested=True)
                        rebound = len([x for x in ast.walk(create) if isinstance(x, ast.Name) and x.id == t.id and isinstance(x.ctx, (ast.Store, ast.Del))]) != 1
                        R.check(not sites and not rebound, r_sc, SWEEP, "ParametricSweepFactory.create", norm(st),
                                f"the table of compiled expressions `{t.id}` is rebound / altered after {CPE} returned it" + (f" (`{norm(sites[0][0])}`)" if sites else ""),
                                sites[0][0].lineno if sites else st.lineno)

    if R.tier == "thorough":
        # explicit (kind, field) obligations over the whole expression grammar
        r_gram = R.rule("C11-D1-grammar", "for every expression node kind of the running grammar: rejected at every position, or accepted with all child fields covered", 25)
        effective = allowed | {k for k in handlers if hasattr(ast, k)}
        kinds = sorted(c.__name__ for c in ast.expr.__subclasses__())
        for k in kinds:
            if k not in effective:
                R.ok(r_gram, fn_rel, f"{VISITOR}.generic_visit", f"{k}: rejected (not in whitelist, no handler)")
            else:
                for ftype, mult, fname in node_fields(k):
                    R.check(k in DOCUMENTED_NODES, r_gram, fn_rel, VISITOR, f"{k}.{fname}: accepted kind, field {'custom handler' if k in handlers else 'generic_visit'}",
                            f"{k} accepted but undocumented")
        R.extra["grammar_expr_kinds"] = len(kinds)

    R.undecided("resource exhaustion by accepted expressions (e.g. 9**9**9) - not part of the statement")


def _anc(node):
    return ancestors(node)


def _scope_params(fn: ast.AST) -> Set[str]:
    a = fn.args
    return {x.arg for x in a.posonlyargs + a.args + a.kwonlyargs} | {x.arg for x in (a.vararg, a.kwarg) if x is not None}


def _scope_nodes(scope: ast.AST):
    """nodes executed in *scope* itself: a function body without nested functions, or the module's top level
    (``def`` / ``class`` statements of the module are yielded, their bodies are not)."""
    if isinstance(scope, ANYFUNC):
        yield from walk_no_nested(scope)
        return
    for st in scope.body:
        if isinstance(st, FuncNode + (ast.ClassDef,)):
            yield st
        else:
            yield from walk_no_nested(st)


def _import_origins(scope: ast.AST) -> Dict[str, str]:
    """local name -> dotted origin for the import statements executed in *scope* itself (not in nested functions)."""
    out: Dict[str, str] = {}
    for n in _scope_nodes(scope):
        if isinstance(n, ast.Import):
            for al in n.names:
                if al.asname:
                    out[al.asname] = al.name
                else:
                    out[al.name.split(".")[0]] = al.name.split(".")[0]
        elif isinstance(n, ast.ImportFrom) and n.module and not n.level:
            for al in n.names:
                out[al.asname or al.name] = f"{n.module}.{al.name}"
    return out


def _bindings(scope: ast.AST, name: str) -> Optional[List[ast.AST]]:
    """Values bound to *name* in *scope*: [] = not bound there, None = bound in a way that is not a plain value
    (def / class / import / global / loop or unpacking target / del)."""
    vals: List[ast.AST] = []
    for n in _scope_nodes(scope):
        if isinstance(n, FuncNode + (ast.ClassDef,)) and n is not scope and n.name == name:
            return None
        if isinstance(n, (ast.Global, ast.Nonlocal)) and name in n.names:
            return None
        if isinstance(n, (ast.Import, ast.ImportFrom)) and any((al.asname or al.name.split(".")[0]) == name for al in n.names):
            return None
        if not (isinstance(n, ast.Name) and n.id == name and isinstance(n.ctx, (ast.Store, ast.Del))):
            continue
        p = parent(n)
        if isinstance(p, ast.Assign) and all(isinstance(t, ast.Name) for t in p.targets):
            vals.append(p.value)
        elif isinstance(p, ast.AnnAssign) and p.target is n:
            if p.value is not None:
                vals.append(p.value)  # a bare annotation binds nothing
        elif isinstance(p, ast.withitem) and p.optional_vars is n:
            vals.append(p.context_expr)
        elif isinstance(p, ast.NamedExpr) and p.target is n:
            vals.append(p.value)
        else:
            return None
    return vals


def fixed_source(e: ast.AST, scopes: List[ast.AST], tree: ast.Module, depth: int = 0) -> bool:
    """The value of *e* is a function of ``__file__`` and literals alone (path arithmetic and reading the file
    included): no parameter, attribute, global state or environment flows into it.  *scopes* are the enclosing
    functions, innermost first; names are resolved flow-insensitively through **every** binding they have."""
    if depth > 12:
        return False

    def rec(x: ast.AST) -> bool:
        return fixed_source(x, scopes, tree, depth + 1)

    def callee(f: ast.AST) -> Optional[str]:
        """canonical dotted name of a module-level callable reached through imports / builtins."""
        d = dotted_name(f)
        if not d:
            return None
        root, _, rest = d.partition(".")
        for sc in list(scopes) + [tree]:
            if isinstance(sc, ANYFUNC) and root in _scope_params(sc):
                return None
            org = _import_origins(sc).get(root)
            stored = any(isinstance(n, ast.Name) and n.id == root and isinstance(n.ctx, (ast.Store, ast.Del)) for n in _scope_nodes(sc))
            if org is not None:
                return None if stored else org + ("." + rest if rest else "")
            if stored or _bindings(sc, root) is None:
                return None
        return d if not rest else None  # an unshadowed builtin (str, open)

    if isinstance(e, ast.Constant):
        return True
    if isinstance(e, ast.Name):
        if not isinstance(e.ctx, ast.Load):
            return False
        for sc in list(scopes) + [tree]:
            if isinstance(sc, ANYFUNC) and e.id in _scope_params(sc):
                return False
            b = _bindings(sc, e.id)
            if b is None:
                return False
            if b:
                if isinstance(sc, ANYFUNC) and mutation_sites(sc, {e.id}):
                    return False
                if sc is tree and any(isinstance(n, ast.Global) and e.id in n.names for n in ast.walk(tree)):
                    return False
                if sc is tree and mutation_sites(tree, {e.id}, include_nested=True):
                    return False
                inner = scopes[scopes.index(sc):] if sc in scopes else []
                return all(fixed_source(v, inner, tree, depth + 1) for v in b)
        return e.id == "__file__"
    if isinstance(e, ast.Attribute):
        return e.attr in PATH_ATTRS and rec(e.value)
    if isinstance(e, ast.Subscript):
        return rec(e.value) and rec(e.slice)
    if isinstance(e, ast.Slice):
        return all(rec(x) for x in (e.lower, e.upper, e.step) if x is not None)
    if isinstance(e, ast.UnaryOp):
        return rec(e.operand)
    if isinstance(e, ast.BinOp):
        return isinstance(e.op, (ast.Div, ast.Add)) and rec(e.left) and rec(e.right)
    if isinstance(e, ast.JoinedStr):
        return all(rec(v) for v in e.values)
    if isinstance(e, ast.FormattedValue):
        return rec(e.value) and (e.format_spec is None or rec(e.format_spec))
    if isinstance(e, (ast.Tuple, ast.List)):
        return all(rec(x) for x in e.elts)
    if isinstance(e, ast.Call):
        if any(isinstance(a, ast.Starred) and not rec(a.value) for a in e.args):
            return False
        if not all(rec(a.value if isinstance(a, ast.Starred) else a) for a in e.args) or not all(rec(k.value) for k in e.keywords):
            return False
        if callee(e.func) in PATH_FUNCS:
            return True
        if isinstance(e.func, ast.Name) and not e.args and not e.keywords:
            # a parameterless function of the same module (extract-helper of the path / the read): every value it returns
            nm = e.func.id
            shadowed = any((isinstance(sc, ANYFUNC) and nm in _scope_params(sc)) or _bindings(sc, nm) != [] for sc in scopes)
            defs = [st for st in _scope_nodes(tree) if isinstance(st, FuncNode + (ast.ClassDef,)) and st.name == nm]
            stored = any(isinstance(n, ast.Name) and n.id == nm and isinstance(n.ctx, (ast.Store, ast.Del)) for n in ast.walk(tree))
            if not shadowed and not stored and len(defs) == 1 and isinstance(defs[0], ast.FunctionDef) and not defs[0].decorator_list and not _scope_params(defs[0]):
                rets = [n for n in walk_no_nested(defs[0]) if isinstance(n, ast.Return)]
                gen = any(isinstance(n, (ast.Yield, ast.YieldFrom)) for n in walk_no_nested(defs[0]))
                return bool(rets) and not gen and all(r.value is not None and fixed_source(r.value, [defs[0]], tree, depth + 1) for r in rets)
            return False
        return isinstance(e.func, ast.Attribute) and e.func.attr in PATH_METHODS and rec(e.func.value)
    return False


def _keyed_by(func, value, names_param: str) -> bool:
    """Is *value* (a returned expression) a lookup whose key mentions *names_param*?"""

    def expand(e, depth=0):
        names = {n.id for n in ast.walk(e) if isinstance(n, ast.Name)}
        if depth < 2:
            for nm in list(names):
                for rhs in assigned_value(func, nm):
                    names |= expand(rhs, depth + 1)
        return names

    exprs = [value] if value is not None else []
    if isinstance(value, ast.Name):
        exprs = assigned_value(func, value.id)
    for e in exprs:
        for n in ast.walk(e):
            key = None
            if isinstance(n, ast.Subscript):
                key = n.slice
            elif isinstance(n, ast.Call) and call_attr(n) in ("get", "setdefault") and n.args:
                key = n.args[0]
            if key is not None and names_param in expand(key):
                return True
    return False
