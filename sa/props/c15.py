"""C15 - every queued job's future completes once, with that job's own result.

D1 every picked-up job publishes a status (must-pass-through on worker_loop),
D2 the master resolves each pending future exactly once with a failure path whose
   marker agrees with what the worker writes,
D3 register-before-publish in enqueue,
D4 correlation keys / channel templates agree between master and worker, and the
   per-job values come from this job's message,
D5 the transport's hand-over rules (C14) re-applied,
D6 the scan the master/worker message loops drive cannot be killed by a concurrent publisher.

All function bodies are analysed in their normal form (sa/normal.py: private helpers inlined,
named sub-expressions substituted), and the constructs are found by role (what they read /
write / call), never by the spelling of a local.
"""
from __future__ import annotations

import ast
from fnmatch import fnmatch
from typing import Dict, List, Optional, Set, Tuple

from ..cfg import CFG, EXC, BASE, edges_guaranteeing
from ..engine import (
    AnalysisError,
    FuncNode,
    Repo,
    ancestors,
    assigned_value,
    call_attr,
    call_name,
    calls_in,
    dotted_name,
    kwarg,
    mutation_sites,
    norm,
    qualname_of,
    stmt_of,
    walk_no_nested,
)
from ..normal import nfunc
from ..report import Report

W = "semantiva/execution/job_queue/worker.py"
Q = "semantiva/execution/job_queue/queue_orchestrator.py"
T = "semantiva/execution/transport/in_memory.py"
LOG_METHODS = {"debug", "info", "warning", "warn", "error", "exception", "critical", "log"}
SNAPSHOT_FUNCS = {"list", "tuple", "sorted", "dict", "set", "frozenset"}
DICT_CTORS = {"dict", "defaultdict", "OrderedDict"}


def _deref(fn: Optional[ast.AST], e: Optional[ast.AST]) -> Optional[ast.AST]:
    """The expression a local stands for: a name bound exactly once in *fn* (plain assignment) is replaced
    by its right-hand side; anything else is returned unchanged."""
    for _ in range(3):
        if fn is None or not isinstance(e, ast.Name):
            return e
        stores = [n for n in walk_no_nested(fn) if isinstance(n, ast.Name) and n.id == e.id and isinstance(n.ctx, (ast.Store, ast.Del))]
        vals = assigned_value(fn, e.id)
        if len(stores) != 1 or len(vals) != 1:
            return e
        if not isinstance(vals[0], (ast.Constant, ast.JoinedStr, ast.Name)) and mutation_sites(fn, {e.id}):
            return e  # the object is changed after it was built: the literal is not its final value
        e = vals[0]
    return e


def logger_receivers(repo: Repo, mod, fn: ast.AST) -> Set[str]:
    """Names that denote a logger inside *fn*, by role: a parameter / local annotated with a Logger type, or a
    local all of whose values are built (or / if-else) from such names and calls of functions returning a Logger."""
    out: Set[str] = set()
    a = fn.args
    for p in a.posonlyargs + a.args + a.kwonlyargs:
        if p.annotation is not None and "Logger" in ast.unparse(p.annotation):
            out.add(p.arg)

    def loggerish(e: ast.AST) -> bool:
        if isinstance(e, ast.Name):
            return e.id in out
        if isinstance(e, ast.BoolOp):
            return all(loggerish(v) for v in e.values)
        if isinstance(e, ast.IfExp):
            return loggerish(e.body) and loggerish(e.orelse)
        if isinstance(e, ast.Call):
            for _m, t in repo.resolve_call(mod, e):
                if isinstance(t, FuncNode) and t.returns is not None and "Logger" in ast.unparse(t.returns):
                    return True
            return (call_name(e) or "").split(".")[-1] in ("getLogger", "Logger")
        return False

    for _ in range(3):
        for n in walk_no_nested(fn):
            if isinstance(n, ast.AnnAssign) and isinstance(n.target, ast.Name) and "Logger" in ast.unparse(n.annotation):
                out.add(n.target.id)
        stored = {n.id for n in walk_no_nested(fn) if isinstance(n, ast.Name) and isinstance(n.ctx, ast.Store)}
        for nm in stored - out:
            vals = assigned_value(fn, nm)
            n_st = sum(1 for n in walk_no_nested(fn) if isinstance(n, ast.Name) and n.id == nm and isinstance(n.ctx, ast.Store))
            if vals and len(vals) == n_st and all(loggerish(v) for v in vals):
                out.add(nm)
    return out


def fstring_template(e: Optional[ast.AST]) -> Optional[Tuple[str, List[str]]]:
    """('jobs.{}.status', ['job_id']) for an f-string / constant channel expression."""
    if isinstance(e, ast.Constant) and isinstance(e.value, str):
        return e.value, []
    if isinstance(e, ast.JoinedStr):
        txt = ""
        names: List[str] = []
        for v in e.values:
            if isinstance(v, ast.Constant):
                txt += str(v.value)
            elif isinstance(v, ast.FormattedValue):
                txt += "{}"
                names.append(dotted_name(v.value) or "?")
        return txt, names
    return None


def channel_template(call: ast.Call, fn: Optional[ast.AST] = None) -> Optional[Tuple[str, List[str]]]:
    """Template of the channel argument of a publish call (a local naming the f-string is looked through)."""
    if not call.args:
        return None
    return fstring_template(_deref(fn, call.args[0]))


def is_status_publish(call: ast.Call, job_var: Optional[str] = None, fn: Optional[ast.AST] = None) -> bool:
    if call_attr(call) != "publish" or not call.args:
        return False
    t = channel_template(call, fn)
    if t is None:
        return False
    tmpl, names = t
    if not (tmpl.startswith("jobs.") and tmpl.endswith(".status") and len(names) == 1):
        return False
    return job_var is None or names[0] == job_var


def helper_always_publishes(repo: Repo, mod, call: ast.Call) -> Optional[Tuple[ast.FunctionDef, int]]:
    """If *call* resolves to a repo function all of whose normally-returning paths publish a
    status whose job id is one of its parameters, return (function, index of that parameter).
    (Only needed for helpers the normaliser does not inline, e.g. public ones.)"""
    targets = repo.resolve_call(mod, call)
    if len(targets) != 1:
        return None
    tm, fn = targets[0]
    if not isinstance(fn, FuncNode):
        return None
    try:
        fn = nfunc(repo, tm.rel, qualname_of(fn), copyprop="all")
    except Exception:
        pass
    params = [a.arg for a in fn.args.args]
    pubs = [c for c in calls_in(fn) if is_status_publish(c, fn=fn)]
    if not pubs:
        return None
    t = channel_template(pubs[0], fn)
    assert t is not None
    jp = t[1][0]
    if jp not in params or any(isinstance(n, ast.Name) and n.id == jp and isinstance(n.ctx, ast.Store) for n in walk_no_nested(fn)):
        return None
    g = CFG(fn)
    bad = g.must_pass([g.entry], [g.ret_exit], lambda n: n.ast is not None and n.kind == "stmt" and any(is_status_publish(c, jp, fn) for c in calls_in(n.ast)))
    if bad:
        return None
    return fn, params.index(jp)


def metadata_keys(call: ast.Call, fn: Optional[ast.AST] = None) -> Optional[Dict[str, ast.AST]]:
    md = _deref(fn, kwarg(call, "metadata"))
    if md is None:
        return {}
    if isinstance(md, ast.Dict) and all(isinstance(k, ast.Constant) for k in md.keys):
        return {k.value: v for k, v in zip(md.keys, md.values)}  # type: ignore[union-attr]
    return None


def _flag_names(fn: ast.AST) -> Set[str]:
    """Locals of *fn* that only ever hold the constants True / False (status flags)."""
    params = {a.arg for a in fn.args.posonlyargs + fn.args.args + fn.args.kwonlyargs}
    stores: Dict[str, int] = {}
    for n in walk_no_nested(fn):
        if isinstance(n, ast.Name) and isinstance(n.ctx, (ast.Store, ast.Del)):
            stores[n.id] = stores.get(n.id, 0) + 1
        elif isinstance(n, ast.ExceptHandler) and n.name:
            stores[n.name] = stores.get(n.name, 0) + 99
    out = set()
    for nm, cnt in stores.items():
        vals = assigned_value(fn, nm)
        if nm not in params and len(vals) == cnt and all(isinstance(v, ast.Constant) and isinstance(v.value, bool) for v in vals):
            single = [n for n in walk_no_nested(fn) if isinstance(n, ast.Assign) and any(isinstance(t, ast.Name) and t.id == nm for t in n.targets)]
            if all(len(n.targets) == 1 for n in single):
                out.add(nm)
    return out


def _eval_flags(test: ast.AST, env: Dict[str, Optional[bool]]) -> Optional[bool]:
    """Three-valued value of a branch test built from status flags, not/and/or; None = not known."""
    if isinstance(test, ast.Name) and test.id in env:
        return env[test.id]
    if isinstance(test, ast.Constant) and isinstance(test.value, bool):
        return test.value
    if isinstance(test, ast.UnaryOp) and isinstance(test.op, ast.Not):
        v = _eval_flags(test.operand, env)
        return None if v is None else not v
    if isinstance(test, ast.BoolOp):
        vals = [_eval_flags(v, env) for v in test.values]
        if isinstance(test.op, ast.And):
            return False if any(v is False for v in vals) else (True if all(v is True for v in vals) else None)
        return True if any(v is True for v in vals) else (False if all(v is False for v in vals) else None)
    if isinstance(test, ast.Compare) and len(test.ops) == 1 and isinstance(test.ops[0], (ast.Is, ast.IsNot, ast.Eq, ast.NotEq)):
        l, r = _eval_flags(test.left, env), _eval_flags(test.comparators[0], env)
        if l is None or r is None or not (isinstance(test.left, ast.Constant) or isinstance(test.comparators[0], ast.Constant)):
            return None
        return (l == r) if isinstance(test.ops[0], (ast.Is, ast.Eq)) else (l != r)
    return None


def reach_with_flags(g: CFG, starts: List[int], blocked: Set[int], flags: Set[str], skip_labels: Set[str]):
    """Reachability that keeps the value of constant-only boolean locals along each path, so that a branch on
    such a flag is followed only in the direction the path's own assignments allow (no infeasible paths
    through `done = True ... if not done:`).  Returns {node: (path as list of node ids)} for the first visit."""
    order = sorted(flags)
    init = tuple(None for _ in order)
    seen: Dict[Tuple[int, tuple], Optional[Tuple[Tuple[int, tuple], str]]] = {(s, init): None for s in starts}
    todo = [(s, init) for s in starts]
    first: Dict[int, Tuple[int, tuple]] = {s: (s, init) for s in starts}
    while todo:
        state = todo.pop(0)
        nid, envt = state
        node = g.nodes[nid]
        env = dict(zip(order, envt))
        allowed: Optional[str] = None
        if node.kind in ("if", "while") and node.part is not None and order:
            v = _eval_flags(node.part, env)
            if v is not None:
                allowed = "T" if v else "F"
        new_env = envt
        a = node.ast
        if node.kind == "stmt" and isinstance(a, ast.Assign) and len(a.targets) == 1 and isinstance(a.targets[0], ast.Name) and a.targets[0].id in flags and isinstance(a.value, ast.Constant):
            e2 = dict(env)
            e2[a.targets[0].id] = bool(a.value.value)
            new_env = tuple(e2[k] for k in order)
        for t, lab in g.succ[nid]:
            if lab in skip_labels:
                continue
            if allowed is not None and lab in ("T", "F") and lab != allowed:
                continue
            if t in blocked:
                continue
            nxt = (t, new_env if lab not in (EXC, BASE) else envt)
            if nxt in seen:
                continue
            seen[nxt] = (state, lab)
            first.setdefault(t, nxt)
            todo.append(nxt)

    def path_to(target: int) -> List[str]:
        out: List[str] = []
        cur: Optional[Tuple[int, tuple]] = first.get(target)
        while cur is not None and len(out) < 10000:
            prev = seen.get(cur)
            node = g.nodes[cur[0]]
            out.append(f"L{node.line}: {node.text()}" + (f" <-{prev[1]}-" if prev else ""))
            cur = prev[0] if prev else None
        return list(reversed(out))

    return first, path_to


def run(repo: Repo, R: Report) -> None:
    wmod = repo.module(W)
    qmod = repo.module(Q)
    repo.func(W, "worker_loop")  # anchor
    wl = nfunc(repo, W, "worker_loop", copyprop="all")
    # every function of the worker module in normal form (status publishes are looked for in all of them)
    wfuncs: List[ast.AST] = []
    for qn, node in wmod.defs.items():
        if isinstance(node, FuncNode):
            wfuncs.append(wl if qn == "worker_loop" else nfunc(repo, W, qn, copyprop="all"))
    R.assume(
        "logger calls, dict.get on message metadata, isinstance/all and the statements of the worker's failure handler up to its publish do not raise",
        "exactly-once hand-over of each message is the in-memory transport's contract (property C14)",
        "uuid4 job ids are unique",
        "only Exception-class failures of a job are modelled; an interrupt of the worker thread is a shutdown, not a job outcome",
    )
    R.undecided("equality of the delivered (data, context) with a direct run of the pipeline (needs execution)")

    # ------------------------------------------------------------------ D1
    r_pub = R.rule("C15-D1-status-on-every-exit", "from picking up a job message to every way of leaving that iteration (next message, loop exit, escaping exception) at least one jobs.<job_id>.status publish for this message's job id is on the path", 1)
    job_loops = [n for n in walk_no_nested(wl) if isinstance(n, ast.For) and isinstance(n.target, ast.Name)
                 and any(isinstance(c, ast.Call) and call_attr(c) == "get" and dotted_name(c.func.value) == f"{n.target.id}.metadata" for c in ast.walk(n))]
    if not job_loops:
        raise AnalysisError("worker_loop: message loop (`for msg in sub`) not found")
    loop = job_loops[0]
    msg = loop.target.id
    # job id variable: X = msg.metadata.get("job_id") [or default]
    job_var = None
    job_key = None
    for st in loop.body:
        if isinstance(st, ast.Assign) and len(st.targets) == 1 and isinstance(st.targets[0], ast.Name):
            for c in ast.walk(st.value):
                if isinstance(c, ast.Call) and call_attr(c) == "get" and dotted_name(c.func.value) == f"{msg}.metadata" and c.args and isinstance(c.args[0], ast.Constant) and "job" in str(c.args[0].value):
                    job_var = st.targets[0].id
                    job_key = c.args[0].value
        if job_var:
            break
    if job_var is None:
        raise AnalysisError("worker_loop: job id extraction from msg.metadata not found")
    redefs = [n for n in ast.walk(loop) if isinstance(n, ast.Name) and n.id == job_var and isinstance(n.ctx, ast.Store)]
    r_corr = R.rule("C15-D4-correlation", "job id, channel templates, metadata/context keys and per-job values agree hop by hop between enqueue, run_forever and worker_loop, each a single definition taken from this job's message", 8)
    R.check(len(redefs) == 1, r_corr, W, "worker_loop", f"job id = {msg}.metadata.get({job_key!r})", "job id variable is redefined inside the job body (status could be published for another job)", loop.lineno)

    loggers = logger_receivers(repo, wmod, wl)

    handler_stmts = {id(x) for h in ast.walk(loop) if isinstance(h, ast.ExceptHandler) for st in h.body for x in ast.walk(st)}

    def may_raise(part: ast.AST) -> Set[str]:
        if id(part) in handler_stmts and not isinstance(part, ast.Raise):
            return set()  # assumption: the failure handlers themselves do not raise before publishing
        for n in walk_no_nested(part):
            if isinstance(n, (ast.Raise,)):
                return {EXC}
            if isinstance(n, ast.Call):
                d = call_name(n) or ""
                if isinstance(n.func, ast.Attribute) and n.func.attr in LOG_METHODS and dotted_name(n.func.value) in loggers:
                    continue
                if d in ("isinstance", "all", "any", "str", "type", "bool", "len") or d == f"{msg}.metadata.get":
                    continue
                return {EXC}
        return set()

    g = CFG(wl, may_raise=may_raise)

    def publishes(n) -> bool:
        if n.ast is None or n.kind != "stmt":
            return False
        for c in calls_in(n.ast):
            if is_status_publish(c, job_var, wl):
                return True
            h = helper_always_publishes(repo, wmod, c)
            if h is not None:
                fn, idx = h
                a = c.args[idx] if idx < len(c.args) else kwarg(c, fn.args.args[idx].arg)
                if isinstance(a, ast.Name) and a.id == job_var:
                    return True
        return False

    heads = g.nodes_for(loop)
    if not heads:
        raise AnalysisError("worker_loop: loop header not in CFG")
    pub_nodes = {n.id for n in g.nodes if publishes(n)}
    n_pub_nodes = len(pub_nodes)
    flags = _flag_names(wl)
    total_bad = 0
    for h in heads:
        starts = [t for t, lab in g.succ[h] if lab == "T"]
        seen, path_to = reach_with_flags(g, starts, pub_nodes, flags, {BASE})
        for target, label in ((h, "next message"), (g.ret_exit, "worker returns"), (g.exc_exit, "exception escapes the worker")):
            if target in seen:
                total_bad += 1
                path = path_to(target)
                R.violation(r_pub, W, "worker_loop", f"job body -> {label} without status publish via `{_last_stmt(path)}`",
                            "a picked-up job can leave its iteration without any jobs.<id>.status message: the caller's Future never completes", loop.lineno, path)
    if total_bad == 0:
        R.ok(r_pub, W, "worker_loop", f"{n_pub_nodes} publishing statement(s) cover all exits of the job body", "", loop.lineno)
    if n_pub_nodes == 0:
        raise AnalysisError("worker_loop: no status publish recognised")

    # ------------------------------------------------------------------ D2
    repo.func(Q, "QueueSemantivaOrchestrator.run_forever")  # anchor
    rf = nfunc(repo, Q, "QueueSemantivaOrchestrator.run_forever", copyprop="all")
    r_res = R.rule("C15-D2-resolve-once", "for a status message of a pending job the master completes the future exactly once (set_result xor set_exception) under the pending-membership guard and then removes the entry; a failure path exists and its marker test is true for every value a worker failure can write", 5)
    gq = CFG(rf, may_raise=lambda part: set())
    pend = "self.pending_futures"

    def is_set(n, names=("set_result", "set_exception")) -> bool:
        if n.ast is None or n.kind != "stmt":
            return False
        return any(isinstance(c.func, ast.Attribute) and c.func.attr in names and isinstance(c.func.value, ast.Subscript) and dotted_name(c.func.value.value) == pend for c in calls_in(n.ast))

    def is_remove(n) -> bool:
        if n.ast is None or n.kind != "stmt":
            return False
        if isinstance(n.ast, ast.Delete) and any(isinstance(t, ast.Subscript) and dotted_name(t.value) == pend for t in n.ast.targets):
            return True
        return any(call_attr(c) == "pop" and isinstance(c.func, ast.Attribute) and dotted_name(c.func.value) == pend for c in calls_in(n.ast))

    guards = [n for n in gq.nodes if n.kind == "if" and isinstance(n.part, ast.Compare) and len(n.part.ops) == 1 and isinstance(n.part.ops[0], ast.In) and dotted_name(n.part.comparators[0]) == pend]
    set_nodes = [n for n in gq.nodes if is_set(n)]
    if not set_nodes:
        raise AnalysisError("run_forever: no set_result/set_exception on pending futures found")
    if not guards:
        R.violation(r_res, Q, "QueueSemantivaOrchestrator.run_forever", "if jid in self.pending_futures", "future completion is not guarded by membership in pending_futures (a duplicate or unknown status raises / completes the wrong future)", rf.lineno)
    for gd in guards:
        jid = dotted_name(gd.part.left)
        starts = [t for t, lab in gq.succ[gd.id] if lab == "T"]
        join = [t for t, lab in gq.succ[gd.id] if lab == "F"]
        saved = {j: gq.succ[j] for j in join}
        for j in join:
            gq.succ[j] = []
        try:
            c_set = gq.counts(starts, is_set, count_start=True)
            c_rm = gq.counts(starts, is_remove, count_start=True)
        finally:
            for j, v in saved.items():
                gq.succ[j] = v
        got_set = set().union(*[c_set.get(j, set()) for j in join]) if join else set()
        got_rm = set().union(*[c_rm.get(j, set()) for j in join]) if join else set()
        R.check(got_set == {1}, r_res, Q, "QueueSemantivaOrchestrator.run_forever", norm(gd.ast) + " -> set_result/set_exception",
                f"a pending future is completed {sorted(got_set)} time(s) on some path of the status block (0 = caller waits forever, 2 = InvalidStateError)", gd.line)
        R.check(got_rm == {1}, r_res, Q, "QueueSemantivaOrchestrator.run_forever", norm(gd.ast) + " -> remove entry",
                f"the pending entry is removed {sorted(got_rm)} time(s) after completion (0 = a duplicate status completes it again)", gd.line)
        # keys used agree with the guard variable
        for n in set_nodes:
            for c in calls_in(n.ast):
                if isinstance(c.func, ast.Attribute) and c.func.attr in ("set_result", "set_exception") and isinstance(c.func.value, ast.Subscript):
                    k = dotted_name(c.func.value.slice)
                    R.check(k == jid, r_res, Q, "QueueSemantivaOrchestrator.run_forever", norm(c)[:80] + " [key]", "the completed future is not the one looked up by the guard's job id", c.lineno)
        # all set_* nodes are dominated by the guard
        for n in set_nodes:
            R.check(gq.dominated_by_edge(n.id, gd.id, "T"), r_res, Q, "QueueSemantivaOrchestrator.run_forever", norm(n.ast)[:80] + " [guarded]",
                    "future completion reachable without the pending-membership guard", n.line)
    # failure path and marker agreement
    exc_nodes = [n for n in gq.nodes if is_set(n, ("set_exception",))]
    res_nodes = [n for n in gq.nodes if is_set(n, ("set_result",))]
    if not exc_nodes:
        R.violation(r_res, Q, "QueueSemantivaOrchestrator.run_forever", "set_exception", "the master has no exceptional completion: a failing job leaves the caller waiting forever", rf.lineno)
    else:
        # marker: name tested on the branch selecting set_exception, read from msg.metadata[<key>]
        marker_key = None
        marker_var = None
        test_kind = None
        for n in gq.nodes:
            if n.kind == "if" and n.part is not None and any(gq.dominated_by_edge(e.id, n.id, "T") for e in exc_nodes) and n not in guards:
                def marker_read(e: ast.AST):
                    for c in ast.walk(e):
                        if isinstance(c, ast.Call) and call_attr(c) == "get" and c.args and isinstance(c.args[0], ast.Constant) and "metadata" in ast.unparse(c.func):
                            return c.args[0].value, c
                        if isinstance(c, ast.Subscript) and "metadata" in ast.unparse(c.value) and isinstance(c.slice, ast.Constant):
                            return c.slice.value, c
                    return None

                hit = marker_read(n.part)
                if hit is not None:
                    marker_key, marker_var = hit[0], ast.unparse(hit[1])
                else:
                    for nm in sorted({x.id for x in ast.walk(n.part) if isinstance(x, ast.Name)}):
                        for rhs in assigned_value(rf, nm):
                            hit = marker_read(rhs)
                            if hit is not None:
                                marker_key, marker_var = hit[0], nm
                if marker_var:
                    t = n.part
                    if isinstance(t, ast.Compare) and len(t.ops) == 1 and isinstance(t.ops[0], ast.IsNot) and isinstance(t.comparators[0], ast.Constant) and t.comparators[0].value is None and ast.unparse(t.left) == marker_var:
                        test_kind = "presence"
                    elif ast.unparse(t) == marker_var:
                        test_kind = "truthiness"
                    elif isinstance(t, ast.Compare) and len(t.ops) == 1 and isinstance(t.ops[0], (ast.Eq, ast.In)):
                        test_kind = "equality"
                    else:
                        test_kind = "other"
                    break
        if marker_key is None:
            R.violation(r_res, Q, "QueueSemantivaOrchestrator.run_forever", "failure marker", "the branch selecting set_exception does not test a marker read from the status message's metadata", rf.lineno)
        else:
            # worker side: failure publishes write the marker, success publishes do not
            fail_values: List[Tuple[ast.AST, ast.AST, str]] = []
            succ_has_marker = False
            n_fail = n_succ = 0
            for fn in wfuncs:
                for c in calls_in(fn):
                    if is_status_publish(c, fn=fn):
                        mk = metadata_keys(c, fn)
                        if mk is None:
                            raise AnalysisError(f"{W}: status publish with non-literal metadata")
                        if marker_key in mk:
                            n_fail += 1
                            fail_values.append((fn, mk[marker_key], qualname_of(fn)))
                        else:
                            n_succ += 1
            R.check(n_fail > 0, r_res, W, "worker", f"failure status writes metadata[{marker_key!r}]", f"no worker status publish writes the marker {marker_key!r} the master tests: failures are reported as successes", 0)
            R.check(n_succ > 0, r_res, W, "worker_loop", f"success status omits metadata[{marker_key!r}]", "every status carries the failure marker: successful jobs complete exceptionally", 0)
            # polarity: can a written failure value make the master's test false?
            for fn, val, qn in fail_values:
                truthy = _provably_truthy(repo, wmod, wfuncs, fn, val)
                not_none = truthy or _provably_not_none(fn, val)
                if test_kind == "presence":
                    ok = not_none
                elif test_kind == "truthiness":
                    ok = truthy
                else:
                    ok = False
                R.check(ok, r_res, W, qn, f"metadata[{marker_key!r}] = {norm(val)} vs master test ({test_kind})",
                        f"a worker failure can write a value for which the master's {test_kind} test is false (e.g. an empty message): the failing job completes as a success", getattr(val, "lineno", 0))
    # result delivered = (msg.data, msg.context) of the same message
    status_loops = [n for n in walk_no_nested(rf) if isinstance(n, ast.For) and isinstance(n.target, ast.Name) and any(is_set(x) for x in gq.nodes if x.ast is not None and any(y is x.ast for y in ast.walk(n)))]
    for n in res_nodes:
        for c in calls_in(n.ast):
            if call_attr(c) == "set_result" and c.args:
                a = c.args[0]
                m = status_loops[0].target.id if status_loops else "msg"
                ok = isinstance(a, ast.Tuple) and [dotted_name(e) for e in a.elts] == [f"{m}.data", f"{m}.context"]
                R.check(ok, r_corr, Q, "QueueSemantivaOrchestrator.run_forever", norm(c)[:90], "the future's result is not (data, context) of the status message that was matched", c.lineno)

    # ------------------------------------------------------------------ D3
    repo.func(Q, "QueueSemantivaOrchestrator.enqueue")  # anchor
    enq = nfunc(repo, Q, "QueueSemantivaOrchestrator.enqueue", copyprop="all")
    r_ord = R.rule("C15-D3-register-before-publish", "the pending future is registered before the job is put on the queue", 1)
    ge = CFG(enq, may_raise=lambda part: set())
    store = [n for n in ge.nodes if n.ast is not None and isinstance(n.ast, ast.Assign) and any(isinstance(t, ast.Subscript) and dotted_name(t.value) == pend for t in n.ast.targets)]
    put = [n for n in ge.nodes if n.ast is not None and n.kind == "stmt" and any(call_attr(c) == "put" and "job_queue" in (call_name(c) or "") for c in calls_in(n.ast))]
    if not store or not put:
        raise AnalysisError("enqueue: pending store or queue put not found")
    after_put = ge.reach([p.id for p in put])
    late = [s for s in store if s.id in after_put]
    R.check(not late, r_ord, Q, "QueueSemantivaOrchestrator.enqueue", norm(store[0].ast), "the future is registered after the job became visible to the master loop: a fast worker's status finds no pending entry and is dropped", store[0].line, ge.path_to(after_put, late[0].id) if late else None)
    # the key stored and the id put on the queue are the same variable
    skey = dotted_name(store[0].ast.targets[0].slice)
    put_call = next(c for c in calls_in(put[0].ast) if call_attr(c) == "put")
    tup = _deref(enq, put_call.args[0]) if put_call.args else None
    first = dotted_name(tup.elts[0]) if isinstance(tup, ast.Tuple) and tup.elts else None
    R.check(skey is not None and skey == first, r_corr, Q, "QueueSemantivaOrchestrator.enqueue", norm(put_call)[:90], "the queued job id is not the key under which the future was registered", put_call.lineno)
    # stored value is the returned future
    sval = dotted_name(store[0].ast.value)
    rets = [dotted_name(n.value) for n in walk_no_nested(enq) if isinstance(n, ast.Return) and n.value is not None and not (isinstance(n.value, ast.Constant) and n.value.value is None)]
    R.check(sval is not None and all(r == sval for r in rets) and bool(rets), r_corr, Q, "QueueSemantivaOrchestrator.enqueue", f"return {sval}", "the returned Future is not the one registered as pending", enq.lineno)

    # ------------------------------------------------------------------ D4 (remaining hops)
    # run_forever: tuple unpack from job_queue.get, publish cfg with the same id and values
    unpack = None
    for n in walk_no_nested(rf):
        if isinstance(n, ast.Assign) and isinstance(n.targets[0], ast.Tuple) and isinstance(n.value, ast.Call) and call_attr(n.value) == "get" and "job_queue" in (call_name(n.value) or ""):
            unpack = n
    if unpack is None:
        raise AnalysisError("run_forever: unpacking of job_queue.get(...) not found")
    names = [e.id if isinstance(e, ast.Name) else None for e in unpack.targets[0].elts]
    cfg_pubs = [c for c in calls_in(rf) if call_attr(c) == "publish" and c.args and (channel_template(c, rf) or ("", []))[0].endswith(".cfg")]
    if len(cfg_pubs) != 1:
        raise AnalysisError("run_forever: exactly one jobs.<id>.cfg publish expected")
    cp = cfg_pubs[0]
    tmpl, tnames = channel_template(cp, rf)  # type: ignore[misc]
    R.check(tnames == [names[0]], r_corr, Q, "QueueSemantivaOrchestrator.run_forever", norm(cp.args[0]), "cfg channel is not named after the dequeued job id", cp.lineno)
    mk = metadata_keys(cp, rf) or {}
    R.check(job_key in mk and dotted_name(mk[job_key]) == names[0], r_corr, Q, "QueueSemantivaOrchestrator.run_forever", f"metadata[{job_key!r}] = {names[0]}",
            f"the cfg message does not carry the dequeued job id under {job_key!r}, the key the worker reads", cp.lineno)
    R.check("pipeline" in mk and dotted_name(mk["pipeline"]) == names[1] and dotted_name(kwarg(cp, "data")) == names[2] and dotted_name(kwarg(cp, "context")) == names[3],
            r_corr, Q, "QueueSemantivaOrchestrator.run_forever", "cfg publish carries pipeline/data/context of the same dequeued tuple", "the cfg message mixes values of different jobs", cp.lineno)
    # worker subscription pattern matches the master's cfg template, and vice versa for status
    wsubs = [c for c in calls_in(wl) if call_attr(c) == "subscribe" and c.args and isinstance(_deref(wl, c.args[0]), ast.Constant)]
    msubs = [c for c in calls_in(rf) if call_attr(c) == "subscribe" and c.args and isinstance(_deref(rf, c.args[0]), ast.Constant)]
    if not wsubs or not msubs:
        raise AnalysisError("subscribe patterns not found")
    R.check(fnmatch(tmpl.replace("{}", "00000000-0000"), _deref(wl, wsubs[0].args[0]).value) and not fnmatch("jobs.0000.status", _deref(wl, wsubs[0].args[0]).value), r_corr, W, "worker_loop", norm(wsubs[0]),
            "worker subscription pattern does not match exactly the master's cfg channel template", wsubs[0].lineno)
    status_templates = set()
    for fn in wfuncs:
        for c in calls_in(fn):
            if is_status_publish(c, fn=fn):
                status_templates.add(channel_template(c, fn)[0])  # type: ignore[index]
    for st_t in sorted(status_templates):
        R.check(fnmatch(st_t.replace("{}", "00000000-0000"), _deref(rf, msubs[0].args[0]).value) and not fnmatch("jobs.0000.cfg", _deref(rf, msubs[0].args[0]).value), r_corr, Q, "QueueSemantivaOrchestrator.run_forever", norm(msubs[0]) + f" ~ {st_t}",
                "master subscription pattern does not match the worker's status channel template", msubs[0].lineno)
    # context key written by worker (both outcomes) = key read by master
    read_keys = [c.args[0].value for c in calls_in(rf) if call_attr(c) == "get_value" and c.args and isinstance(c.args[0], ast.Constant)]
    ctx_key = read_keys[0] if read_keys else None
    if ctx_key is None:
        raise AnalysisError("run_forever: job id lookup in the status context not found")
    for fn in wfuncs:
        for c in calls_in(fn):
            if is_status_publish(c, fn=fn):
                ctx = kwarg(c, "context") or (c.args[2] if len(c.args) > 2 else None)
                cname = dotted_name(ctx) if ctx is not None else None
                t = channel_template(c, fn)
                jv = t[1][0] if t else None
                writes = [w for w in calls_in(fn) if call_attr(w) == "set_value" and isinstance(w.func, ast.Attribute) and dotted_name(w.func.value) == cname and w.args and isinstance(w.args[0], ast.Constant) and w.args[0].value == ctx_key and len(w.args) > 1 and dotted_name(w.args[1]) == jv]
                R.check(bool(writes), r_corr, W, qualname_of(fn), norm(c)[:70] + f" [context[{ctx_key!r}]]",
                        f"a status message is published whose context does not carry this job's id under {ctx_key!r}: the master cannot find the pending future", c.lineno)
    # payload of the job is built from this message
    for c in calls_in(loop):
        if call_attr(c) == "Payload" and len(c.args) == 2:
            ok = True
            for a in c.args:
                if isinstance(a, ast.Name):
                    defs = [v for v in assigned_value(wl, a.id)]
                    inside = [st for st in ast.walk(loop) if isinstance(st, ast.Assign) and any(isinstance(t, ast.Name) and t.id == a.id for t in st.targets)]
                    ok = ok and bool(defs) and len(inside) == len(defs) and all(msg in {x.id for x in ast.walk(v) if isinstance(x, ast.Name)} and not _free_names(v, msg) for v in defs)
                else:
                    ok = ok and msg in {x.id for x in ast.walk(a) if isinstance(x, ast.Name)}
            R.check(ok, r_corr, W, "worker_loop", norm(c), "the job's payload is not built, inside the job body, from this message's data and context (state shared between jobs)", c.lineno)
        if call_attr(c) == "Pipeline" and c.args:
            a = c.args[0]
            ok = False
            if isinstance(a, ast.Name):
                defs = assigned_value(wl, a.id)
                ok = bool(defs) and any("metadata" in ast.unparse(v) and msg in ast.unparse(v) for v in defs)
            R.check(ok, r_corr, W, "worker_loop", norm(c), "the executed pipeline is not the one configured in this message", c.lineno)

    # ------------------------------------------------------------------ D5 transport hand-over
    # The property's anchors name the in-memory transport's pop-under-lock hand-over as the
    # mechanism that makes delivery of cfg/status messages exactly-once; its rules are re-applied here.
    from . import c14

    R.rule_prefix = "C15-D5/"
    try:
        c14.run(repo, R)
    finally:
        R.rule_prefix = ""


def _free_names(expr: ast.AST, msg: str) -> Set[str]:
    """Names read by *expr* other than the message and constructors called on the spot."""
    called = {id(c.func) for c in ast.walk(expr) if isinstance(c, ast.Call)}
    return {n.id for n in ast.walk(expr) if isinstance(n, ast.Name) and isinstance(n.ctx, ast.Load) and n.id != msg and id(n) not in called}


def _last_stmt(path: List[str]) -> str:
    for p in reversed(path[:-1]):
        if ": <" not in p:
            return p.split(": ", 1)[-1].split(" <-")[0][:90]
    return "?"


def _provably_truthy(repo: Repo, mod, funcs: List[ast.AST], fn: ast.AST, val: ast.AST, depth: int = 0) -> bool:
    """Value written by a failure publish is truthy for every failure (non-empty constant, exception object)."""
    if isinstance(val, ast.Constant):
        return bool(val.value)
    if isinstance(val, ast.JoinedStr):
        return any(isinstance(v, ast.Constant) and v.value for v in val.values)
    if isinstance(val, ast.Name) and depth < 2:
        params = [a.arg for a in fn.args.args] if isinstance(fn, FuncNode) else []
        if val.id in params:
            idx = params.index(val.id)
            # every call site passes a truthy thing: exception caught `as e`, or non-empty constant
            sites = []
            for f2 in [n for n in mod.defs.values() if isinstance(n, FuncNode)]:
                for c in calls_in(f2):
                    if call_attr(c) == fn.name and isinstance(c.func, ast.Name):
                        a = c.args[idx] if idx < len(c.args) else kwarg(c, val.id)
                        sites.append((f2, c, a))
            if not sites:
                return False
            for f2, c, a in sites:
                if isinstance(a, ast.Constant):
                    if not a.value:
                        return False
                elif isinstance(a, ast.Name):
                    caught = any(isinstance(h, ast.ExceptHandler) and h.name == a.id for h in ancestors(c))
                    if not caught:
                        return False
                else:
                    return False
            return True
        # local bound by `except ... as name`
        return any(isinstance(h, ast.ExceptHandler) and h.name == val.id for h in ast.walk(fn))
    if isinstance(val, ast.Call) and call_attr(val) in ("repr",):
        return True
    return False


def _provably_not_none(fn: ast.AST, val: ast.AST) -> bool:
    if isinstance(val, ast.Constant):
        return val.value is not None
    if isinstance(val, (ast.JoinedStr, ast.Dict, ast.List, ast.Tuple)):
        return True
    if isinstance(val, ast.Call) and call_attr(val) in ("str", "repr", "format", "format_exc", "type"):
        return True
    return False
