"""C15 - every queued job's future completes once, with that job's own result.

D1 every picked-up job publishes a status (must-pass-through on worker_loop); the failure paths (exception
   handlers of the job body) may themselves raise at every call that is not a logger call, a total builtin,
   the building of the status context or the publish - a failure path that fails publishes nothing,
D2 the master resolves each pending future exactly once with a failure path whose
   marker agrees with what the worker writes,
D3 register-before-publish in enqueue,
D4 correlation keys / channel templates agree between master and worker, and the
   per-job values come from this job's message; the job-id annotation of the published context is the last
   write of that key on every path to the status publish,
D5 the transport's hand-over rules (C14) re-applied,
D6 the scan the master/worker message loops drive cannot be killed by a concurrent publisher,
D7 the pending-futures map (written by enqueue on the callers' threads, read by the master loop) is never
   traversed live: a for statement / comprehension / callback walk over it is over a one-call snapshot or
   under a lock every mutation holds,
D8 the pending map owns its entries (a plain strong mapping, not a weak-value map or a self-evicting cache).
Round 5: D2-outcome-from-this-message / D4-job-values-from-this-message (per-message freshness: every local behind
   the completion of a future - resp. behind running a job and publishing its status - is assigned on every path
   from the binding of that message to its use, so nothing of an earlier job is carried over);
   D4-default-only-for-none on the enqueue and transport hops (a stand-in for data / context only where it is None);
   the worker's status publishes are collected through the call graph of worker_loop, whatever module they live in.
Round 6: D4-payload-handed-on-intact on the same hops and on the way back (result -> status publish): a payload field
   travels as the object itself or as a copy that keeps its class and all of its state.  A copy method is resolved in the
   class hierarchy of the field's declared type (annotation at the hop / of the Payload constructor) and checked for every
   class that runs it: a reconstruction `type(self)(..)` must read every attribute the constructors of that class and of
   the classes down to the declared root store (interface condition between a base-class copy and the subclasses that
   inherit it); a fixed class, a conversion or a wrapper is not the payload.  Provenance: `typing.cast(T, x)` is x and the
   module a function is looked up in (`copy.deepcopy(x)`) is not per-job state.
Round 7: D9-status-consumed-for-good: in the handling of a status message no pending Future awaits, the master (callees
   included, a channel handed to a callee bound at the call) publishes nothing on a channel its own status subscription
   matches (shell patterns intersected) - such a message comes back on every turn and starves the status channels
   created after it; an echo that runs only for an awaited status is harmless (the entry is removed in the same step).
   D6 finds the master's message loop by role (run_forever or the function the listen phase was moved to).
Round 8: D2-taken-status-is-looked-up (from the binding of a status message - taking it removed it from the transport -
   every way of ending its handling passes the pending-membership test or the call of the helper that holds it; exception
   edges and the no-message edges of a `next(it, None)` binding excepted); D4-result-published (data and context of a
   success status are computed on every path from the value of the call this job's Payload / the pipeline's `process` is
   handed to - the context that went in is not the result); D4-status-context-per-job (interface condition between the
   worker's status publish and the constructor of the context class: the published context is not a module-level object
   and no constructor argument is a module-level mutable the constructor keeps by reference; decided on the normal form
   built with consts=False, because substituting a module-level dict display into its uses hides exactly this sharing).

All function bodies are analysed in their normal form (sa/normal.py: private helpers inlined,
named sub-expressions substituted), and the constructs are found by role (what they read /
write / call), never by the spelling of a local.
"""
from __future__ import annotations

import ast
from fnmatch import fnmatch
from typing import Dict, List, Optional, Set, Tuple

from ..cfg import CFG, EXC, BASE, edges_guaranteeing, reaching_defs
from ..engine import (
    AnalysisError,
    FuncNode,
    Repo,
    ancestors,
    assigned_value,
    call_attr,
    call_name,
    calls_in,
    dotted_name,
    kwarg,
    mutation_sites,
    norm,
    parent,
    qualname_of,
    stmt_of,
    walk_no_nested,
)
from ..normal import nfunc
from ..report import Report

W = "semantiva/execution/job_queue/worker.py"
Q = "semantiva/execution/job_queue/queue_orchestrator.py"
T = "semantiva/execution/transport/in_memory.py"
LOG_METHODS = {"debug", "info", "warning", "warn", "error", "exception", "critical", "log"}
SNAPSHOT_FUNCS = {"list", "tuple", "sorted", "dict", "set", "frozenset"}
DICT_CTORS = {"dict", "defaultdict", "OrderedDict"}


def _deref(fn: Optional[ast.AST], e: Optional[ast.AST]) -> Optional[ast.AST]:
    """The expression a local stands for: a name bound exactly once in *fn* (plain assignment, or one position of
    a tuple assignment from a displayed tuple) is replaced by its right-hand side; anything else is returned unchanged."""
    for _ in range(3):
        if fn is None or not isinstance(e, ast.Name):
            return e
        stores = [n for n in walk_no_nested(fn) if isinstance(n, ast.Name) and n.id == e.id and isinstance(n.ctx, (ast.Store, ast.Del))]
        paired = [v for st in walk_no_nested(fn) for nm, v in _bindings(st) if nm == e.id]  # `a, b = x, y` binds a to x
        vals = paired if paired else assigned_value(fn, e.id)
        if len(stores) != 1 or len(vals) != 1 or vals[0] is None:
            return e
        if not isinstance(vals[0], (ast.Constant, ast.JoinedStr, ast.Name)) and mutation_sites(fn, {e.id}):
            return e  # the object is changed after it was built: the literal is not its final value
        e = vals[0]
    return e


def _bindings(st: ast.AST) -> List[Tuple[str, Optional[ast.AST]]]:
    """(local, value bound to it) for every plain name an assignment statement binds; a tuple target is paired
    with a tuple value element by element; the value is None where it cannot be separated (unpacking of
    something that is not a displayed tuple, augmented assignment)."""
    out: List[Tuple[str, Optional[ast.AST]]] = []

    def pair(t: ast.AST, v: Optional[ast.AST]) -> None:
        if isinstance(t, ast.Name):
            out.append((t.id, v))
        elif isinstance(t, ast.Starred):
            pair(t.value, None)
        elif isinstance(t, (ast.Tuple, ast.List)):
            if isinstance(v, (ast.Tuple, ast.List)) and len(v.elts) == len(t.elts) and not any(isinstance(x, ast.Starred) for x in list(t.elts) + list(v.elts)):
                for a, b in zip(t.elts, v.elts):
                    pair(a, b)
            else:
                for x in t.elts:
                    pair(x, None)

    if isinstance(st, ast.Assign):
        for t in st.targets:
            pair(t, st.value)
    elif isinstance(st, ast.AnnAssign) and st.value is not None:
        pair(st.target, st.value)
    elif isinstance(st, ast.AugAssign):
        pair(st.target, None)
    return out


# ---------------------------------------------------------------------------
# what a mapping holds at a use (literal / dict(...) / ** spread / successive stores / update / setdefault / |=)
# ---------------------------------------------------------------------------
MapState = Dict[object, List[Optional[ast.AST]]]  # constant key -> the expressions it can hold (None: may be absent), in insertion order
_UNKNOWN = "?"  # the mapping escaped / was changed in a way that is not understood
_READ_ONLY_METHODS = {"get", "keys", "items", "values", "copy", "__contains__", "__len__", "__getitem__"}
_READ_ONLY_FUNCS = {"len", "dict", "str", "repr", "bool", "list", "tuple", "sorted", "set", "frozenset", "isinstance", "type", "id"}
_CFG_CACHE: Dict[int, Tuple[ast.AST, CFG]] = {}


def _plain_cfg(fn: ast.AST) -> CFG:
    hit = _CFG_CACHE.get(id(fn))
    if hit is None or hit[0] is not fn:
        hit = (fn, CFG(fn))
        _CFG_CACHE[id(fn)] = hit
    return hit[1]


def _node_of(g: CFG, expr: ast.AST) -> Optional[int]:
    """The CFG node at which *expr* is evaluated."""
    for n in g.nodes:
        scope = n.ast if n.kind == "stmt" else n.part
        if scope is not None and any(x is expr for x in ast.walk(scope)):
            return n.id
    return None


def _overlay(base: MapState, top: MapState) -> MapState:
    """*base* after the entries of *top* were written over it (an entry of *top* that may be absent keeps what was there)."""
    out: MapState = {k: list(v) for k, v in base.items()}
    for k, vs in top.items():
        if None in vs:
            old = out.get(k, [None])
            out[k] = [v for v in vs if v is not None] + [v for v in old if not any(v is x for x in vs if x is not None)]
        else:
            out[k] = list(vs)
    return out


def _join_maps(a, b):
    if a is None:
        return b
    if b is None:
        return a
    if a == _UNKNOWN or b == _UNKNOWN:
        return _UNKNOWN
    out: MapState = {}
    for k in list(a) + [k for k in b if k not in a]:
        va, vb = a.get(k, [None]), b.get(k, [None])
        out[k] = list(va) + [v for v in vb if not any(v is x for x in va)]
    return out


def _same_state(a, b) -> bool:
    if a is None or b is None or a == _UNKNOWN or b == _UNKNOWN:
        return (a is None and b is None) or (a == _UNKNOWN and b == _UNKNOWN)
    return list(a) == list(b) and all(len(a[k]) == len(b[k]) and all(x is y for x, y in zip(a[k], b[k])) for k in a)


def mapping_of(fn: ast.AST, g: CFG, e: Optional[ast.AST], at: int, depth: int = 0) -> Optional[MapState]:
    """{constant key: possible value expressions} of the mapping *e* evaluates to at CFG node *at*, however it was
    assembled: a dict display (with ** spreads), `dict(..)`, `a | b`, a conditional expression of those, or a local
    built by any of them and then filled by `m[k] = v` / `m.update(..)` / `m.setdefault(..)` / `m |= ..` on the way to
    *at* (decided on the CFG: a store that only some paths pass leaves the key possibly absent).  None: not understood."""
    if e is None or depth > 5:
        return None
    if isinstance(e, ast.Dict):
        out: MapState = {}
        for k, v in zip(e.keys, e.values):
            if k is None:
                sub = mapping_of(fn, g, v, at, depth + 1)
                if sub is None:
                    return None
                out = _overlay(out, sub)
            elif isinstance(k, ast.Constant):
                out[k.value] = [v]
            else:
                return None
        return out
    if isinstance(e, ast.Call) and isinstance(e.func, ast.Name) and e.func.id == "dict" and len(e.args) <= 1:
        out = {}
        if e.args:
            a0 = e.args[0]
            if isinstance(a0, (ast.List, ast.Tuple)) and all(isinstance(p, (ast.Tuple, ast.List)) and len(p.elts) == 2 and isinstance(p.elts[0], ast.Constant) for p in a0.elts):
                out = {p.elts[0].value: [p.elts[1]] for p in a0.elts}  # type: ignore[union-attr]
            else:
                sub = mapping_of(fn, g, a0, at, depth + 1)
                if sub is None:
                    return None
                out = _overlay(out, sub)
        for kw in e.keywords:
            if kw.arg is None:
                sub = mapping_of(fn, g, kw.value, at, depth + 1)
                if sub is None:
                    return None
                out = _overlay(out, sub)
            else:
                out[kw.arg] = [kw.value]
        return out
    if isinstance(e, ast.Call) and call_attr(e) == "copy" and not e.args and isinstance(e.func, ast.Attribute):
        return mapping_of(fn, g, e.func.value, at, depth + 1)
    if isinstance(e, ast.IfExp):
        a, b = mapping_of(fn, g, e.body, at, depth + 1), mapping_of(fn, g, e.orelse, at, depth + 1)
        return _join_maps(a, b) if a is not None and b is not None else None
    if isinstance(e, ast.BinOp) and isinstance(e.op, ast.BitOr):
        a, b = mapping_of(fn, g, e.left, at, depth + 1), mapping_of(fn, g, e.right, at, depth + 1)
        return _overlay(a, b) if a is not None and b is not None else None
    if isinstance(e, ast.Name):
        return _mapping_of_local(fn, g, e.id, at, depth + 1)
    return None


def _mapping_of_local(fn: ast.AST, g: CFG, nm: str, at: int, depth: int) -> Optional[MapState]:
    """Forward data flow over the CFG: the state of the mapping local *nm* on entry of node *at*."""

    def occurrences(part: ast.AST) -> List[ast.Name]:
        return [x for x in walk_no_nested(part) if isinstance(x, ast.Name) and x.id == nm]

    def read_only(x: ast.Name, node_id: int) -> bool:
        p = parent(x)
        if isinstance(p, ast.Attribute) and p.value is x:
            return p.attr in _READ_ONLY_METHODS
        if isinstance(p, ast.Subscript) and p.value is x:
            return isinstance(p.ctx, ast.Load)
        if isinstance(p, (ast.Compare, ast.FormattedValue, ast.BoolOp, ast.UnaryOp, ast.If, ast.While, ast.IfExp, ast.Return)):
            return not (isinstance(p, (ast.BoolOp, ast.IfExp, ast.Return)) and isinstance(parent(p), (ast.Assign, ast.AnnAssign, ast.Call)))
        if isinstance(p, ast.keyword):
            p = parent(p)
        if isinstance(p, ast.Call):
            if node_id == at:
                return True  # the use itself: whatever the callee does happens after the hand-over
            return isinstance(p.func, ast.Name) and p.func.id in _READ_ONLY_FUNCS
        return False

    def transfer(node, st):
        a = node.ast
        if a is None or node.kind in ("entry", "join", "ret_exit", "exc_exit", "base_exit"):
            return st
        if node.kind == "stmt" and isinstance(a, (ast.Assign, ast.AnnAssign, ast.AugAssign)):
            binds = _bindings(a)
            if any(n2 == nm for n2, _v in binds):
                if isinstance(a, ast.AugAssign):
                    top = mapping_of(fn, g, a.value, node.id, depth + 1) if isinstance(a.op, ast.BitOr) else None
                    return _overlay(st, top) if top is not None and st is not None and st != _UNKNOWN else _UNKNOWN
                vals = [v for n2, v in binds if n2 == nm]
                if len(vals) != 1 or vals[0] is None or (isinstance(a, ast.Assign) and len(a.targets) > 1):
                    return _UNKNOWN
                m = mapping_of(fn, g, vals[0], node.id, depth + 1)
                return m if m is not None else _UNKNOWN
            if isinstance(a, ast.AnnAssign) and a.value is None:
                return st
        if node.kind in ("for", "with", "except"):
            tgt = a.target if isinstance(a, (ast.For, ast.AsyncFor)) else None
            names = {x.id for x in ast.walk(tgt) if isinstance(x, ast.Name)} if tgt is not None else set()
            if isinstance(a, (ast.With, ast.AsyncWith)):
                names |= {x.id for it in a.items if it.optional_vars is not None for x in ast.walk(it.optional_vars) if isinstance(x, ast.Name)}
            if isinstance(a, ast.ExceptHandler) and a.name:
                names.add(a.name)
            if nm in names:
                return _UNKNOWN
        if st is None or st == _UNKNOWN:
            return st
        part = a if node.kind == "stmt" else node.part
        if part is None or isinstance(part, FuncNode + (ast.ClassDef,)):
            return st
        occ = occurrences(part)
        if not occ:
            return st
        # the statement forms that fill a mapping
        if isinstance(a, ast.Assign) and node.kind == "stmt" and len(a.targets) == 1 and isinstance(a.targets[0], ast.Subscript) \
                and isinstance(a.targets[0].value, ast.Name) and a.targets[0].value.id == nm and len(occ) == 1:
            if not isinstance(a.targets[0].slice, ast.Constant):
                return _UNKNOWN
            out = {k: list(v) for k, v in st.items()}
            out[a.targets[0].slice.value] = [a.value]
            return out
        if isinstance(a, ast.Expr) and isinstance(a.value, ast.Call) and isinstance(a.value.func, ast.Attribute) \
                and isinstance(a.value.func.value, ast.Name) and a.value.func.value.id == nm and len(occ) == 1:
            c = a.value
            meth = c.func.attr  # type: ignore[attr-defined]
            if meth == "update" and len(c.args) <= 1:
                out = {k: list(v) for k, v in st.items()}
                if c.args:
                    top = mapping_of(fn, g, c.args[0], node.id, depth + 1)
                    if top is None:
                        return _UNKNOWN
                    out = _overlay(out, top)
                for kw in c.keywords:
                    if kw.arg is None:
                        top = mapping_of(fn, g, kw.value, node.id, depth + 1)
                        if top is None:
                            return _UNKNOWN
                        out = _overlay(out, top)
                    else:
                        out[kw.arg] = [kw.value]
                return out
            if meth == "setdefault" and len(c.args) == 2 and isinstance(c.args[0], ast.Constant) and not c.keywords:
                out = {k: list(v) for k, v in st.items()}
                old = out.get(c.args[0].value, [None])
                out[c.args[0].value] = [v for v in old if v is not None] + ([c.args[1]] if None in old else [])
                return out
            if meth in _READ_ONLY_METHODS:
                return st
            return _UNKNOWN
        return st if all(read_only(x, node.id) for x in occ) else _UNKNOWN

    state: Dict[int, object] = {g.entry: None}
    reached = {g.entry}
    todo = [g.entry]
    steps = 0
    while todo and steps < 20000:
        steps += 1
        n = todo.pop(0)
        out = transfer(g.nodes[n], state.get(n))
        for t, _lab in g.succ[n]:
            new = _join_maps(state.get(t), out) if t in reached else out
            if t not in reached or not _same_state(new, state.get(t)):
                reached.add(t)
                state[t] = new
                todo.append(t)
    res = state.get(at) if at in reached else None
    return res if isinstance(res, dict) else None


def role_function(repo: Repo, rel: str, entry: str, has, what: str, **opts) -> Tuple[str, str, ast.AST]:
    """(file, qualified name, normal form) of the function that plays a role below a stable entry point (a public
    name callers use): the entry point itself when, with its private helpers inlined, it contains the construct
    *has* recognises; otherwise the nearest function of its call graph that does (the code was moved into a
    helper the normaliser does not inline: public, returning from inside try/except, in another module)."""
    fn = repo.func(rel, entry)
    nf0 = nfunc(repo, rel, entry, **opts)
    if has(nf0):
        return rel, entry, nf0
    mod = repo.module(rel)
    clo = repo.call_graph_closure([(mod, fn)])
    for m, n, path in sorted(clo.values(), key=lambda v: (len(v[2]), v[2])):
        if n is fn or not isinstance(n, FuncNode):
            continue
        qn = qualname_of(n)
        try:
            nf = nfunc(repo, m.rel, qn, **opts)
        except Exception:
            continue
        if has(nf):
            return m.rel, qn, nf
    raise AnalysisError(f"{entry}: {what} not found in it or in the functions it calls")


def _unwrap_iter(e: ast.AST) -> ast.AST:
    """The iterable under lazy traversal wrappers: enumerate(x) / iter(x) / zip(x, ..) (first operand)."""
    while isinstance(e, ast.Call) and isinstance(e.func, ast.Name) and e.func.id in ("enumerate", "iter", "zip") and e.args:
        e = e.args[0]
    return e


def metadata_aliases(fn: ast.AST) -> Dict[str, str]:
    """{local: message} for locals of *fn* every value of which is `<message>.metadata`, possibly with an empty
    mapping standing in for a missing one (`<message>.metadata or {}` in any spelling, or a separate `local = {}`
    where the metadata was None / falsy: the stand-in holds nothing, a read of it finds nothing)."""
    vals: Dict[str, List[Optional[ast.AST]]] = {}
    for st in walk_no_nested(fn):
        for nm, v in _bindings(st):
            vals.setdefault(nm, []).append(v)
    out: Dict[str, str] = {}
    for nm, vs in vals.items():
        roots = set()
        for v in vs:
            if _is_empty_dict(v):
                continue
            v = _or_empty(v) if v is not None else v
            roots.add(v.value.id if isinstance(v, ast.Attribute) and v.attr == "metadata" and isinstance(v.value, ast.Name) else None)
        if len(roots) == 1 and None not in roots:
            out[nm] = roots.pop()  # type: ignore[assignment]
    return out


def _reads_metadata(e: ast.AST, msg: str, aliases: Optional[Dict[str, str]] = None) -> List[Tuple[object, ast.AST]]:
    """[(constant key, node)] for every `<msg>.metadata.get(K ..)` / `<msg>.metadata[K]` inside *e* (the metadata
    mapping may be named by a local first)."""
    recv = {f"{msg}.metadata"} | {a for a, m in (aliases or {}).items() if m == msg}
    out: List[Tuple[object, ast.AST]] = []
    for c in ast.walk(e):
        if isinstance(c, ast.Call) and call_attr(c) == "get" and dotted_name(_or_empty(c.func.value)) in recv and c.args and isinstance(c.args[0], ast.Constant):  # type: ignore[attr-defined]
            out.append((c.args[0].value, c))
        elif isinstance(c, ast.Subscript) and dotted_name(_or_empty(c.value)) in recv and isinstance(c.slice, ast.Constant):
            out.append((c.slice.value, c))
    return out


def _or_empty(e: ast.AST) -> ast.AST:
    """`x` for a mapping with an empty stand-in for a missing one, in any spelling: `x or {}` / `x or dict()`,
    `x if x else {}`, `x if x is not None else {}`, `{} if not x else x`, `{} if x is None else x`; else *e* itself.
    (For reading keys the truthiness and the None test agree: an empty mapping and its stand-in hold the same.)"""
    if isinstance(e, ast.BoolOp) and isinstance(e.op, ast.Or) and len(e.values) == 2 and _is_empty_dict(e.values[1]):
        return e.values[0]
    if isinstance(e, ast.IfExp):
        test, there, missing = e.test, e.body, e.orelse
        if isinstance(test, ast.UnaryOp) and isinstance(test.op, ast.Not):
            test, there, missing = test.operand, missing, there
        if isinstance(test, ast.Compare) and len(test.ops) == 1 and isinstance(test.comparators[0], ast.Constant) and test.comparators[0].value is None:
            if isinstance(test.ops[0], (ast.Is, ast.Eq)):
                there, missing = missing, there
            elif not isinstance(test.ops[0], (ast.IsNot, ast.NotEq)):
                return e
            test = test.left
        if _is_empty_dict(missing) and norm(test) == norm(there):
            return there
    return e


def _is_empty_dict(v: Optional[ast.AST]) -> bool:
    return (isinstance(v, ast.Dict) and not v.keys) or (isinstance(v, ast.Call) and isinstance(v.func, ast.Name) and v.func.id == "dict" and not v.args and not v.keywords)


def _strip_cast(e: ast.AST) -> ast.AST:
    """`typing.cast(T, x)` is `x`."""
    while isinstance(e, ast.Call) and (call_name(e) or "").rsplit(".", 1)[-1] == "cast" and len(e.args) == 2 and not e.keywords:
        e = e.args[1]
    return e


def module_aliases(mod) -> Set[str]:
    """Names a module binds to modules at its top level (`import x`, `import x.y as z`)."""
    out: Set[str] = set()
    for st in mod.tree.body:
        if isinstance(st, ast.Import):
            out |= {(a.asname or a.name.split(".")[0]) for a in st.names}
    return out


class Leaf:
    """One value a local can hold at a use: *kind* is 'message' (computed from this message), 'fresh' (a
    constant / an object built on the spot from nothing that outlives the job), 'outside' (bound outside the job
    body: shared between jobs) or 'unknown'; *conds* are the (test, polarity, node) choices of conditional
    expressions that select it, *site* the CFG node of the assignment that binds it."""

    def __init__(self, expr: ast.AST, at: int, site: Optional[int], conds: tuple, kind: str):
        self.expr, self.at, self.site, self.conds, self.kind = expr, at, site, conds, kind


class Provenance:
    """Where the value of a local of the job body comes from, decided on the CFG with reaching definitions (not on
    the position or the number of assignments): every definition that can reach the use is followed through
    locals, tuple unpacking, conditional expressions and `a or b` down to the expressions that produce the value."""

    def __init__(self, g: CFG, loop: ast.AST, msg: str):
        self.g, self.loop, self.msg = g, loop, msg
        self.inside = {id(x) for x in ast.walk(loop)}
        self.meta_keys: List[object] = []
        self.aliases = metadata_aliases(g.func)

    pure_names: Set[str] = set()  # module-level `import x [as y]` aliases of the analysed module: a module is not per-job state

    def _is_module_alias(self, nm: str) -> bool:
        if nm not in self.pure_names:
            return False
        fn = self.g.func
        params = {a.arg for a in fn.args.posonlyargs + fn.args.args + fn.args.kwonlyargs} | {a.arg for a in (fn.args.vararg, fn.args.kwarg) if a is not None}  # type: ignore[attr-defined]
        return nm not in params and not any(isinstance(n, ast.Name) and n.id == nm and isinstance(n.ctx, (ast.Store, ast.Del)) for n in ast.walk(fn))

    def alts(self, e: ast.AST, at: int, conds: tuple = (), site: Optional[int] = None, depth: int = 0) -> List[Leaf]:
        if depth > 8:
            return [Leaf(e, at, site, conds, "unknown")]
        e = _strip_cast(e)
        if isinstance(e, ast.Name) and e.id != self.msg:
            defs = reaching_defs(self.g, e.id, at)
            if not defs:
                return [Leaf(e, at, site, conds, "outside")]  # parameter / global: lives longer than one job
            out: List[Leaf] = []
            for d in defs:
                if id(d.ast) not in self.inside or d.ast is self.loop:
                    out.append(Leaf(e, at, d.id, conds, "outside"))
                    continue
                if d.kind != "stmt":
                    out.append(Leaf(e, at, d.id, conds, "unknown"))
                    continue
                for nm, v in _bindings(d.ast):
                    if nm != e.id:
                        continue
                    if v is None:
                        rhs = getattr(d.ast, "value", None)
                        out.append(Leaf(rhs or e, d.id, d.id, conds, self.kind(rhs, d.id, depth + 1) if rhs is not None else "unknown"))
                    else:
                        out.extend(self.alts(v, d.id, conds, d.id, depth + 1))
            return out
        if isinstance(e, ast.IfExp):
            return (self.alts(e.body, at, conds + ((e.test, True, at),), site, depth + 1)
                    + self.alts(e.orelse, at, conds + ((e.test, False, at),), site, depth + 1))
        if isinstance(e, ast.BoolOp) and isinstance(e.op, ast.Or):
            out = self.alts(e.values[0], at, conds, site, depth + 1)
            for i in range(1, len(e.values)):
                out.extend(self.alts(e.values[i], at, conds + ((e.values[i - 1], "falsy", at),), site, depth + 1))
            return out
        return [Leaf(e, at, site, conds, self.kind(e, at, depth))]

    def kind(self, e: ast.AST, at: int, depth: int = 0) -> str:
        reads = any(isinstance(x, ast.Name) and x.id == self.msg for x in ast.walk(e))
        self.meta_keys.extend(k for k, _n in _reads_metadata(e, self.msg, self.aliases))
        for nm in sorted(_free_names(e, self.msg)):
            if self._is_module_alias(nm):
                continue  # `copy.deepcopy(x)`, `np.asarray(x)`: the module a function is looked up in
            sub = self.alts(ast.Name(id=nm, ctx=ast.Load()), at, depth=depth + 1)
            if any(l.kind in ("outside", "unknown") for l in sub):
                return "outside" if any(l.kind == "outside" for l in sub) else "unknown"
            if any(l.kind == "message" for l in sub):
                reads = True
        if reads:
            return "message"
        if isinstance(e, (ast.Constant, ast.Call, ast.Dict, ast.List, ast.Tuple, ast.Set, ast.JoinedStr)):
            return "fresh"
        return "unknown"

    def field_of(self, x: ast.AST, at: int) -> Optional[str]:
        """The attribute of this message *x* denotes at node *at*: `<msg>.<attr>` or a local every reaching
        definition of which is exactly that read."""
        if isinstance(x, ast.Attribute) and isinstance(x.value, ast.Name) and x.value.id == self.msg:
            return x.attr
        if isinstance(x, ast.Name) and x.id != self.msg:
            attrs = set()
            for d in reaching_defs(self.g, x.id, at):
                vals = [v for nm, v in _bindings(d.ast) if nm == x.id] if d.kind == "stmt" and id(d.ast) in self.inside else [None]
                for v in vals:
                    attrs.add(self.field_of(v, d.id) if isinstance(v, ast.Attribute) else None)
            if len(attrs) == 1:
                return attrs.pop()
        return None

    def fields_read(self, leaves: List[Leaf]) -> Set[str]:
        return {x.attr for l in leaves if l.kind == "message" for x in ast.walk(l.expr)
                if isinstance(x, ast.Attribute) and isinstance(x.value, ast.Name) and x.value.id == self.msg}

    def none_guarded(self, leaf: Leaf, fields: Set[str]) -> bool:
        """The leaf (a default) is selected only where one of the message *fields* is known to be None: by the
        conditional expression that chooses it, or by a branch edge that dominates the assignment binding it."""
        def atom_at(at: int):
            def atom(x: ast.AST) -> Optional[bool]:
                if isinstance(x, ast.Compare) and len(x.ops) == 1 and isinstance(x.ops[0], (ast.Is, ast.IsNot, ast.Eq, ast.NotEq)):
                    l, r = x.left, x.comparators[0]
                    if isinstance(l, ast.Constant) and l.value is None:
                        l, r = r, l
                    if isinstance(r, ast.Constant) and r.value is None and self.field_of(l, at) in fields:
                        return isinstance(x.ops[0], (ast.Is, ast.Eq))
                return None
            return atom

        for test, pol, at in leaf.conds:
            if pol != "falsy" and ("T" if pol else "F") in edges_guaranteeing(test, atom_at(at)):
                return True
        if leaf.site is not None:
            for n in self.g.nodes:
                if n.kind in ("if", "while") and n.part is not None:
                    for lab in edges_guaranteeing(n.part, atom_at(n.id)):
                        if self.g.dominated_by_edge(leaf.site, n.id, lab):
                            return True
        return False


class ParamProvenance(Provenance):
    """Provenance inside a function that hands a job's fields on (enqueue, a transport's publish): the role of the
    message is played by the function's own parameters - the *entry value* of a parameter is the caller's value
    ('message'), whatever else can reach a use is a stand-in."""

    def __init__(self, g: CFG, fn: ast.AST, params: Set[str]):
        self.g, self.loop, self.msg = g, fn, "<no message local>"
        self.inside = {id(x) for x in ast.walk(fn)}
        self.meta_keys = []
        self.aliases = {}
        self.params = set(params)

    def entry_value_reaches(self, name: str, at: int) -> bool:
        dn = {n.id for n in self.g.nodes if _node_defines(n, name)} - {at}
        return at in self.g.reach([self.g.entry], blocked=dn, skip_labels={EXC, BASE}) or at == self.g.entry

    def alts(self, e: ast.AST, at: int, conds: tuple = (), site: Optional[int] = None, depth: int = 0) -> List[Leaf]:
        e = _strip_cast(e)
        if isinstance(e, ast.Name) and e.id in self.params:
            out: List[Leaf] = []
            if self.entry_value_reaches(e.id, at):
                out.append(Leaf(e, at, site, conds, "message"))
            if reaching_defs(self.g, e.id, at):
                out += super().alts(e, at, conds, site, depth)
            return out
        return super().alts(e, at, conds, site, depth)

    def field_of(self, x: ast.AST, at: int) -> Optional[str]:
        if not isinstance(x, ast.Name):
            return None
        defs = reaching_defs(self.g, x.id, at)
        if x.id in self.params:
            return x.id if not defs else None
        attrs = set()
        for d in defs:
            vals = [v for nm, v in _bindings(d.ast) if nm == x.id] if d.kind == "stmt" else [None]
            for v in vals:
                attrs.add(self.field_of(v, d.id) if isinstance(v, ast.Name) else None)
        return attrs.pop() if len(attrs) == 1 else None

    def fields_read(self, leaves: List[Leaf]) -> Set[str]:
        return {x.id for l in leaves if l.kind == "message" for x in ast.walk(l.expr) if isinstance(x, ast.Name) and x.id in self.params}


def stand_in_not_for_none(prov: Provenance, e: ast.AST, at: int, fields: Optional[Set[str]] = None) -> Tuple[Optional[Leaf], Set[str]]:
    """The first value *e* can have at node *at* that is not the job's own field (not computed from it) and is chosen
    where that field is not known to be None - by a truthiness test (`x or Default()`, `if not x:`), by a test of
    something else, or unconditionally on some path; None when every stand-in is for a missing (None) field only.
    Also returns the fields the own values read."""
    leaves = prov.alts(e, at)
    own = prov.fields_read(leaves) if fields is None else fields
    return next((l for l in leaves if l.kind != "message" and not prov.none_guarded(l, own)), None), own


def job_loops_of(fn: ast.AST) -> List[Tuple[ast.AST, str, List[ast.AST]]]:
    """(loop statement, message local, binding statements) for every loop of *fn* that takes messages one by one
    and reads their metadata: `for <.. msg ..> in <iterable>` (the for statement binds the message) or a while
    loop whose body binds `msg = next(<iterator>)`."""
    out: List[Tuple[ast.AST, str, List[ast.AST]]] = []

    def reads_md(scope: ast.AST, nm: str) -> bool:
        return any(isinstance(x, ast.Attribute) and x.attr == "metadata" and isinstance(x.value, ast.Name) and x.value.id == nm for x in ast.walk(scope))

    for n in walk_no_nested(fn):
        if isinstance(n, ast.For):
            for t in ast.walk(n.target):
                if isinstance(t, ast.Name) and reads_md(n, t.id):
                    out.append((n, t.id, [n]))
        elif isinstance(n, ast.While):
            by_name: Dict[str, List[ast.AST]] = {}
            for st in ast.walk(n):
                if isinstance(st, ast.Assign) and isinstance(st.value, ast.Call) and isinstance(st.value.func, ast.Name) and st.value.func.id == "next":
                    for nm, _v in _bindings(st):
                        if reads_md(n, nm) and not any(isinstance(a, (ast.For, ast.While)) and a is not n and any(a is x for x in ast.walk(n)) for a in ancestors(st) if a is not n and a is not fn):
                            by_name.setdefault(nm, []).append(st)
            for nm, sts in by_name.items():
                out.append((n, nm, sts))
    return out


def logger_receivers(repo: Repo, mod, fn: ast.AST) -> Set[str]:
    """Names that denote a logger inside *fn*, by role: a parameter / local annotated with a Logger type, or a
    local all of whose values are built (or / if-else) from such names and calls of functions returning a Logger."""
    out: Set[str] = set()
    a = fn.args
    for p in a.posonlyargs + a.args + a.kwonlyargs:
        if p.annotation is not None and "Logger" in ast.unparse(p.annotation):
            out.add(p.arg)

    def loggerish(e: ast.AST) -> bool:
        if isinstance(e, ast.Name):
            return e.id in out
        if isinstance(e, ast.BoolOp):
            return all(loggerish(v) for v in e.values)
        if isinstance(e, ast.IfExp):
            return loggerish(e.body) and loggerish(e.orelse)
        if isinstance(e, ast.Call):
            for _m, t in repo.resolve_call(mod, e):
                if isinstance(t, FuncNode) and t.returns is not None and "Logger" in ast.unparse(t.returns):
                    return True
            return (call_name(e) or "").split(".")[-1] in ("getLogger", "Logger")
        return False

    for _ in range(3):
        for n in walk_no_nested(fn):
            if isinstance(n, ast.AnnAssign) and isinstance(n.target, ast.Name) and "Logger" in ast.unparse(n.annotation):
                out.add(n.target.id)
        stored = {n.id for n in walk_no_nested(fn) if isinstance(n, ast.Name) and isinstance(n.ctx, ast.Store)}
        for nm in stored - out:
            vals = assigned_value(fn, nm)
            n_st = sum(1 for n in walk_no_nested(fn) if isinstance(n, ast.Name) and n.id == nm and isinstance(n.ctx, ast.Store))
            if vals and len(vals) == n_st and all(loggerish(v) for v in vals):
                out.add(nm)
    return out


def fstring_template(e: Optional[ast.AST]) -> Optional[Tuple[str, List[str]]]:
    """('jobs.{}.status', ['job_id']) for an f-string / constant channel expression."""
    if isinstance(e, ast.Constant) and isinstance(e.value, str):
        return e.value, []
    if isinstance(e, ast.JoinedStr):
        txt = ""
        names: List[str] = []
        for v in e.values:
            if isinstance(v, ast.Constant):
                txt += str(v.value)
            elif isinstance(v, ast.FormattedValue):
                txt += "{}"
                names.append(dotted_name(v.value) or "?")
        return txt, names
    # the same string spelled with str.format / % / +
    if isinstance(e, ast.Call) and call_attr(e) == "format" and isinstance(e.func, ast.Attribute) and isinstance(e.func.value, ast.Constant) and isinstance(e.func.value.value, str) and not e.keywords:
        txt = e.func.value.value
        if txt.count("{}") == len(e.args) and txt.count("{") == len(e.args):
            return txt, [dotted_name(a) or "?" for a in e.args]
    if isinstance(e, ast.BinOp) and isinstance(e.op, ast.Mod) and isinstance(e.left, ast.Constant) and isinstance(e.left.value, str):
        args = list(e.right.elts) if isinstance(e.right, ast.Tuple) else [e.right]
        if e.left.value.count("%s") == len(args) == e.left.value.count("%") and "{" not in e.left.value:
            return e.left.value.replace("%s", "{}"), [dotted_name(a) or "?" for a in args]
    if isinstance(e, ast.BinOp) and isinstance(e.op, ast.Add):
        parts = []
        for side in (e.left, e.right):
            t = fstring_template(side)
            if t is None:
                inner = side.args[0] if isinstance(side, ast.Call) and isinstance(side.func, ast.Name) and side.func.id == "str" and len(side.args) == 1 else side
                if dotted_name(inner) is None:
                    return None
                t = ("{}", [dotted_name(inner)])
            parts.append(t)
        return parts[0][0] + parts[1][0], parts[0][1] + parts[1][1]
    return None


def channel_template(call: ast.Call, fn: Optional[ast.AST] = None) -> Optional[Tuple[str, List[str]]]:
    """Template of the channel argument of a publish call (a local naming the f-string is looked through)."""
    if not call.args:
        return None
    return fstring_template(_deref(fn, call.args[0]))


def is_status_publish(call: ast.Call, job_var: Optional[str] = None, fn: Optional[ast.AST] = None) -> bool:
    if call_attr(call) != "publish" or not call.args:
        return False
    t = channel_template(call, fn)
    if t is None:
        return False
    tmpl, names = t
    if not (tmpl.startswith("jobs.") and tmpl.endswith(".status") and len(names) == 1):
        return False
    return job_var is None or names[0] == job_var


TOTAL_CALLS = {"isinstance", "all", "any", "str", "type", "bool", "len", "repr", "traceback.format_exc", "time.time", "time.monotonic", "time.perf_counter"}


def _publish_context(call: ast.Call) -> Optional[ast.AST]:
    return kwarg(call, "context") or (call.args[2] if len(call.args) > 2 else None)


def status_context_calls(repo: Repo, mod, fn: ast.AST) -> Set[int]:
    """ids of the calls of *fn* that build the context a status publish carries, found by role: the
    construction of a repo class bound to the local handed over as `context=` of a jobs.<id>.status publish, and
    `set_value` on that local.  Together with the publish they are the least a failure path has to do."""
    ctx_names: Set[str] = set()
    for c in calls_in(fn):
        if is_status_publish(c, fn=fn):
            ctx = _publish_context(c)
            if isinstance(ctx, ast.Name):
                ctx_names.add(ctx.id)
    out: Set[int] = set()
    for c in calls_in(fn):
        if call_attr(c) == "set_value" and isinstance(c.func, ast.Attribute) and isinstance(c.func.value, ast.Name) and c.func.value.id in ctx_names:
            out.add(id(c))
    for nm in ctx_names:
        for v in assigned_value(fn, nm):
            if isinstance(v, ast.Call) and isinstance(v.func, ast.Name):  # arguments that are calls are judged on their own
                r = repo.resolve_name(mod, v.func, v)
                if r is not None and isinstance(r[1], ast.ClassDef):
                    out.add(id(v))
    return out


def handler_statement_ids(scope: ast.AST) -> Set[int]:
    return {id(x) for h in ast.walk(scope) if isinstance(h, ast.ExceptHandler) for st in h.body for x in ast.walk(st)}


def job_may_raise(repo: Repo, mod, fn: ast.AST, scope: ast.AST, whole: bool = False, summarise: bool = True):
    """may_raise model of D1 for *fn*: logger calls (receiver is a logger by role), dict.get on a message's
    metadata and a few total builtins do not raise (assumptions recorded by run()); any other call and every
    `raise` raises the Exception class.  Inside the exception handlers of *scope* (the failure paths; with
    *whole*, everywhere in *fn*) three more kinds of call are taken not to raise, because nothing could be
    decided otherwise: the status publish itself, the calls that build the context it carries
    (status_context_calls) and a helper summarised as "cannot be left before it has published".  Every other
    call in a handler may raise like anywhere else: a failure path that fails before its publish leaves the
    job without a status."""
    loggers = logger_receivers(repo, mod, fn)
    md_alias = metadata_aliases(fn)
    handler_stmts = handler_statement_ids(scope)
    ctx_calls = status_context_calls(repo, mod, fn)
    summaries: Dict[int, bool] = {}

    def sealed_helper(c: ast.Call) -> bool:
        if not summarise:
            return False
        if id(c) not in summaries:
            h = helper_always_publishes(repo, mod, c)
            summaries[id(c)] = h is not None and not h[3]
        return summaries[id(c)]

    def may_raise(part: ast.AST) -> Set[str]:
        lenient = whole or id(part) in handler_stmts
        for n in walk_no_nested(part):
            if isinstance(n, (ast.Raise,)):
                return {EXC}
            if isinstance(n, ast.Call):
                d = call_name(n) or ""
                if isinstance(n.func, ast.Attribute) and n.func.attr in LOG_METHODS and dotted_name(n.func.value) in loggers:
                    continue
                if isinstance(n.func, ast.Attribute) and n.func.attr == "format" and isinstance(n.func.value, ast.Constant) and isinstance(n.func.value.value, str):
                    continue  # formatting a literal template: no more than the f-string spelling of the same text does
                if d in TOTAL_CALLS:
                    continue
                if isinstance(n.func, ast.Attribute) and n.func.attr == "get":
                    rd = dotted_name(_or_empty(n.func.value)) or ""
                    if (rd.endswith(".metadata") and rd.count(".") == 1) or rd in md_alias:
                        continue  # dict.get on the message's metadata mapping (or the empty dict standing in for it)
                if _builds_plain_dict(n, fn):
                    continue
                if lenient and (id(n) in ctx_calls or is_status_publish(n, fn=fn) or sealed_helper(n)):
                    continue
                return {EXC}
        return set()

    return may_raise


def _plain_dict_local(fn: ast.AST, name: str) -> bool:
    """Every binding of the local is a dict display / `dict(..)` call: a built-in dict, whose update / setdefault /
    stores run no user code."""
    vals = [v for st in walk_no_nested(fn) for nm, v in _bindings(st) if nm == name]
    params = {a.arg for a in fn.args.posonlyargs + fn.args.args + fn.args.kwonlyargs}  # type: ignore[attr-defined]
    return bool(vals) and name not in params and all(
        isinstance(v, ast.Dict) or (isinstance(v, ast.Call) and isinstance(v.func, ast.Name) and v.func.id == "dict") for v in vals)


def _builds_plain_dict(c: ast.Call, fn: ast.AST) -> bool:
    """The call assembles a built-in dict from values that are already there and cannot raise: `dict()`,
    `dict(k=v, ..)`, `dict({..})`, `dict(<plain dict local>)`, `<plain dict local>.update({..} / k=v)`,
    `<plain dict local>.setdefault(<constant>, v)` / `.copy()`."""
    def plain(e: ast.AST) -> bool:
        return isinstance(e, ast.Dict) or (isinstance(e, ast.Name) and _plain_dict_local(fn, e.id))

    if isinstance(c.func, ast.Name) and c.func.id == "dict":
        return len(c.args) <= 1 and all(plain(a) for a in c.args) and all(k.arg is not None or plain(k.value) for k in c.keywords)
    if isinstance(c.func, ast.Attribute) and isinstance(c.func.value, ast.Name) and _plain_dict_local(fn, c.func.value.id):
        if c.func.attr == "update":
            return len(c.args) <= 1 and all(plain(a) for a in c.args) and all(k.arg is not None or plain(k.value) for k in c.keywords)
        if c.func.attr == "setdefault":
            return len(c.args) == 2 and isinstance(c.args[0], ast.Constant)
        if c.func.attr == "copy":
            return not c.args
    return False


def helper_always_publishes(repo: Repo, mod, call: ast.Call) -> Optional[Tuple[ast.FunctionDef, int, bool, bool]]:
    """Summary of a helper the normaliser did not inline (public, too large, returns inside try): if *call*
    resolves to one repo function none of whose normally-returning paths avoids a status publish for the job
    id it receives as a parameter, return (function, index of that parameter, can_raise_unpublished,
    can_raise_before_publish).  can_raise_unpublished: an exception can leave the helper before any status was
    published, a failing publish included (what matters in the job body, whose handler publishes the failure);
    can_raise_before_publish: the same with the publish itself and the building of its context taken not to
    raise (what matters when the helper *is* the failure path)."""
    targets = repo.resolve_call(mod, call)
    if len(targets) != 1:
        return None
    tm, fn = targets[0]
    if not isinstance(fn, FuncNode):
        return None
    try:
        fn = nfunc(repo, tm.rel, qualname_of(fn))
    except Exception:
        pass
    params = [a.arg for a in fn.args.args]
    pubs = [c for c in calls_in(fn) if is_status_publish(c, fn=fn)]
    if not pubs:
        return None
    t = channel_template(pubs[0], fn)
    assert t is not None
    jp = t[1][0]
    if jp not in params or any(isinstance(n, ast.Name) and n.id == jp and isinstance(n.ctx, ast.Store) for n in walk_no_nested(fn)):
        return None
    g = CFG(fn, may_raise=job_may_raise(repo, tm, fn, fn, summarise=False))
    pub = {n.id for n in g.nodes if n.ast is not None and n.kind == "stmt" and any(is_status_publish(c, jp, fn) for c in calls_in(n.ast))}
    seen, _path = reach_with_flags(g, [g.entry], pub, set(), _flag_names(fn), {BASE})
    if g.ret_exit in seen:
        return None
    g2 = CFG(fn, may_raise=job_may_raise(repo, tm, fn, fn, whole=True, summarise=False))
    pub2 = {n.id for n in g2.nodes if n.ast is not None and n.kind == "stmt" and any(is_status_publish(c, jp, fn) for c in calls_in(n.ast))}
    seen2, _path2 = reach_with_flags(g2, [g2.entry], pub2, set(), _flag_names(fn), {BASE})
    return fn, params.index(jp), g.exc_exit in seen, g2.exc_exit in seen2


def metadata_keys(call: ast.Call, fn: Optional[ast.AST] = None) -> Optional[MapState]:
    """{key: possible values (None: may be absent)} of the metadata mapping a publish call hands over, however the
    mapping was assembled (see mapping_of); {} when the call passes none; None when it cannot be understood."""
    md = kwarg(call, "metadata") or (call.args[3] if len(call.args) > 3 else None)
    if md is None or (isinstance(md, ast.Constant) and md.value is None):
        return {}
    if isinstance(md, ast.Dict) and all(isinstance(k, ast.Constant) for k in md.keys):
        return {k.value: [v] for k, v in zip(md.keys, md.values)}  # type: ignore[union-attr]
    if fn is None or not isinstance(fn, FuncNode):
        return None
    g = _plain_cfg(fn)
    at = _node_of(g, call)
    if at is None:
        return None
    return mapping_of(fn, g, md, at)


def _only(vals: Optional[List[Optional[ast.AST]]]) -> Optional[ast.AST]:
    """The one expression a key holds on every path, else None."""
    return vals[0] if vals is not None and len(vals) == 1 else None


def _flag_names(fn: ast.AST) -> Set[str]:
    """Locals of *fn* that only ever hold the constants True / False (status flags)."""
    params = {a.arg for a in fn.args.posonlyargs + fn.args.args + fn.args.kwonlyargs}
    stores: Dict[str, int] = {}
    for n in walk_no_nested(fn):
        if isinstance(n, ast.Name) and isinstance(n.ctx, (ast.Store, ast.Del)):
            stores[n.id] = stores.get(n.id, 0) + 1
        elif isinstance(n, ast.ExceptHandler) and n.name:
            stores[n.name] = stores.get(n.name, 0) + 99
    nested = {n.id for f in ast.walk(fn) if isinstance(f, FuncNode + (ast.Lambda,)) and f is not fn for n in ast.walk(f) if isinstance(n, ast.Name) and isinstance(n.ctx, (ast.Store, ast.Del))}
    out = set()
    for nm, cnt in stores.items():
        vals = assigned_value(fn, nm)
        if nm not in params and nm not in nested and len(vals) == cnt and all(isinstance(v, ast.Constant) and isinstance(v.value, bool) for v in vals):
            single = [n for n in walk_no_nested(fn) if isinstance(n, ast.Assign) and any(isinstance(t, ast.Name) and t.id == nm for t in n.targets)]
            if all(len(n.targets) == 1 for n in single):
                out.add(nm)
    return out


def _eval_flags(test: ast.AST, env: Dict[str, Optional[bool]]) -> Optional[bool]:
    """Three-valued value of a branch test built from status flags, not/and/or; None = not known."""
    if isinstance(test, ast.Name) and test.id in env:
        return env[test.id]
    if isinstance(test, ast.Constant) and isinstance(test.value, bool):
        return test.value
    if isinstance(test, ast.UnaryOp) and isinstance(test.op, ast.Not):
        v = _eval_flags(test.operand, env)
        return None if v is None else not v
    if isinstance(test, ast.BoolOp):
        vals = [_eval_flags(v, env) for v in test.values]
        if isinstance(test.op, ast.And):
            return False if any(v is False for v in vals) else (True if all(v is True for v in vals) else None)
        return True if any(v is True for v in vals) else (False if all(v is False for v in vals) else None)
    if isinstance(test, ast.Compare) and len(test.ops) == 1 and isinstance(test.ops[0], (ast.Is, ast.IsNot, ast.Eq, ast.NotEq)):
        l, r = _eval_flags(test.left, env), _eval_flags(test.comparators[0], env)
        if l is None or r is None or not (isinstance(test.left, ast.Constant) or isinstance(test.comparators[0], ast.Constant)):
            return None
        return (l == r) if isinstance(test.ops[0], (ast.Is, ast.Eq)) else (l != r)
    return None


def reach_with_flags(g: CFG, starts: List[int], blocked: Set[int], sealed: Set[int], flags: Set[str], skip_labels: Set[str], dead_edges: Optional[Set[Tuple[int, str]]] = None):
    """Reachability that keeps the value of constant-only boolean locals along each path, so that a branch on
    such a flag is followed only in the direction the path's own assignments allow (no infeasible paths
    through `done = True ... if not done:`).  A *blocked* (publishing) statement ends a path on its normal
    continuation but not on its exception edge: a publish that raises has published nothing; a *sealed*
    statement (a helper that cannot be left in any way before it has published) ends it altogether.  Returns {node: (path as list of node ids)} for the first visit."""
    order = sorted(flags)
    init = tuple(None for _ in order)
    seen: Dict[Tuple[int, tuple], Optional[Tuple[Tuple[int, tuple], str]]] = {(s, init): None for s in starts}
    todo = [(s, init) for s in starts]
    first: Dict[int, Tuple[int, tuple]] = {s: (s, init) for s in starts}
    while todo:
        state = todo.pop(0)
        nid, envt = state
        node = g.nodes[nid]
        env = dict(zip(order, envt))
        allowed: Optional[str] = None
        if node.kind in ("if", "while") and node.part is not None and order:
            v = _eval_flags(node.part, env)
            if v is not None:
                allowed = "T" if v else "F"
        new_env = envt
        a = node.ast
        if node.kind == "stmt" and isinstance(a, ast.Assign) and len(a.targets) == 1 and isinstance(a.targets[0], ast.Name) and a.targets[0].id in flags and isinstance(a.value, ast.Constant):
            e2 = dict(env)
            e2[a.targets[0].id] = bool(a.value.value)
            new_env = tuple(e2[k] for k in order)
        for t, lab in g.succ[nid]:
            if lab in skip_labels or (dead_edges and (nid, lab) in dead_edges):
                continue
            if allowed is not None and lab in ("T", "F") and lab != allowed:
                continue
            if nid in sealed or (nid in blocked and lab != EXC):
                continue  # the statement has published; only its failing (nothing published) continuation goes on
            nxt = (t, new_env if lab not in (EXC, BASE) else envt)
            if nxt in seen:
                continue
            seen[nxt] = (state, lab)
            first.setdefault(t, nxt)
            todo.append(nxt)

    def path_to(target: int) -> List[str]:
        out: List[str] = []
        cur: Optional[Tuple[int, tuple]] = first.get(target)
        while cur is not None and len(out) < 10000:
            prev = seen.get(cur)
            node = g.nodes[cur[0]]
            out.append(f"L{node.line}: {node.text()}" + (f" <-{prev[1]}-" if prev else ""))
            cur = prev[0] if prev else None
        return list(reversed(out))

    def steps_to(target: int) -> List[Tuple[int, str]]:
        """The same path as [(node id, label of the edge that led to it)]."""
        out: List[Tuple[int, str]] = []
        cur: Optional[Tuple[int, tuple]] = first.get(target)
        while cur is not None and len(out) < 10000:
            prev = seen.get(cur)
            out.append((cur[0], prev[1] if prev else ""))
            cur = prev[0] if prev else None
        return list(reversed(out))

    path_to.steps = steps_to  # type: ignore[attr-defined]
    return first, path_to


SCENARIOS = ("truthy", "falsy", "absent", "no-metadata")
_UNK: Tuple[Optional[bool], Optional[bool], str] = (None, None, "")
_NONE: Tuple[Optional[bool], Optional[bool], str] = (False, True, "")


class MarkerEval:
    """What the master's expressions evaluate to for one kind of status message (*scenario*): the message's metadata
    holds a truthy value under the marker key ('truthy'), a falsy value that is not None ('falsy'), lacks the key
    ('absent'), or is empty / None ('no-metadata').  A value is (truthiness, is-None, tag) with None = not known;
    tag 'md' marks the metadata mapping itself, 'mark' the marker value.  Interpreted: constants, displays, names
    (every reaching definition, joined), `.metadata` reads, `x or y` / `x and y` / `not x`, conditional and
    assignment expressions, `k in m`, `m.get(k[, d])`, `m[k]`, comparisons with None, bool(x), dict(m), m.copy().
    Everything else is unknown, and a branch on an unknown test is followed both ways."""

    def __init__(self, g: CFG, fn: ast.AST, not_md: Set[str]):
        self.g, self.fn, self.key = g, fn, None
        a = fn.args  # type: ignore[attr-defined]
        self.params = {p.arg for p in a.posonlyargs + a.args + a.kwonlyargs} - set(not_md) - {"self", "cls"}
        self._defs: Dict[Tuple[str, int], list] = {}
        self._tests: Dict[tuple, Optional[bool]] = {}
        self._feasible: Dict[tuple, Optional[list]] = {}

    def _md(self, sc: str):
        return (True, False, "md") if sc != "no-metadata" else (False, None, "md")

    def _mark(self, sc: str):
        return {"truthy": (True, False, "mark"), "falsy": (False, False, "mark")}.get(sc, _NONE)

    @staticmethod
    def _join(vals: list):
        if not vals:
            return _UNK
        first = vals[0]
        if all(v == first for v in vals):
            return first
        return tuple(first[i] if all(v[i] == first[i] for v in vals) else (None if i < 2 else "") for i in range(3))

    def defs(self, name: str, at: int) -> list:
        if (name, at) not in self._defs:
            self._defs[(name, at)] = reaching_defs(self.g, name, at)
        return self._defs[(name, at)]

    def test_value(self, node, sc: str) -> Optional[bool]:
        """Truth value of a branch node's test for a status message of kind *sc* (None: not known / being evaluated)."""
        k = (node.id, sc, self.key)
        if k not in self._tests:
            self._tests[k] = None  # a test that depends on itself (loop-carried local) is unknown
            self._tests[k] = self.val(node.part, sc, node.id)[0]
        return self._tests[k]

    def feasible_defs(self, name: str, at: int, sc: str) -> list:
        """The definitions of *name* that reach *at* along a path a status message of kind *sc* can take: from the
        definition to the use without passing another definition, following a branch whose test has a known value for
        that message only in that direction.  (`x = None` / `if md: x = md.get(k)`: for a message with metadata only
        the second definition reaches the test of x.)"""
        ds = self.defs(name, at)
        if len(ds) < 2:
            return ds
        k = (name, at, sc, self.key)
        if k in self._feasible:
            return self._feasible[k] if self._feasible[k] is not None else ds
        self._feasible[k] = None  # re-entered while being computed: all of them
        killers = {d.id for d in ds}
        out = []
        for d in ds:
            seen: Set[int] = set()
            todo = [d.id]
            hit = False
            first = True
            while todo and not hit:
                n = todo.pop()
                node = self.g.nodes[n]
                allowed = None
                if node.kind in ("if", "while") and node.part is not None:
                    t = self.test_value(node, sc)
                    if t is not None:
                        allowed = "T" if t else "F"
                for t2, lab in self.g.succ[n]:
                    if lab == EXC and first:
                        continue  # the binding that raises binds nothing
                    if allowed is not None and lab in ("T", "F") and lab != allowed:
                        continue
                    if t2 == at:
                        hit = True
                        break
                    if t2 not in seen and t2 not in killers:
                        seen.add(t2)
                        todo.append(t2)
                first = False
            if hit:
                out.append(d)
        self._feasible[k] = out if out else None
        return out if out else ds

    def bound_values(self, name: str, at: int, sc: Optional[str] = None) -> Optional[List[Tuple[ast.AST, int]]]:
        """[(value expression, node)] for every definition of the local that reaches *at* (with *sc*: on a path a status
        message of that kind can take); None where one of them is not a plain binding of a separable value (or the
        name is a parameter / global)."""
        out: List[Tuple[ast.AST, int]] = []
        ds = self.defs(name, at) if sc is None else self.feasible_defs(name, at, sc)
        if not ds:
            return None
        for d in ds:
            vals = [v for nm, v in _bindings(d.ast) if nm == name] if d.kind == "stmt" else []
            if not vals or any(v is None for v in vals):
                return None
            out += [(v, d.id) for v in vals]  # type: ignore[misc]
        return out

    def val(self, e: Optional[ast.AST], sc: str, at: int, depth: int = 0):
        if e is None or depth > 12:
            return _UNK
        if isinstance(e, ast.Constant):
            return (bool(e.value), e.value is None, "")
        if isinstance(e, (ast.List, ast.Tuple, ast.Set)):
            return ((bool(e.elts) if not any(isinstance(x, ast.Starred) for x in e.elts) else None), False, "")
        if isinstance(e, ast.Dict):
            return ((bool(e.keys) if all(k is not None for k in e.keys) else None), False, "")
        if isinstance(e, (ast.JoinedStr, ast.ListComp, ast.DictComp, ast.SetComp, ast.GeneratorExp, ast.Lambda)):
            return (None if not isinstance(e, (ast.GeneratorExp, ast.Lambda)) else True, False, "")
        if isinstance(e, ast.Attribute):
            return self._md(sc) if e.attr == "metadata" else _UNK
        if isinstance(e, ast.Name):
            bound = self.bound_values(e.id, at, sc)
            if bound is None:
                if not self.defs(e.id, at) and e.id in self.params and self._is_md_param(e.id):
                    return self._md(sc)
                return _UNK
            return self._join([self.val(v, sc, d, depth + 1) for v, d in bound])
        if isinstance(e, ast.NamedExpr):
            return self.val(e.value, sc, at, depth + 1)
        if isinstance(e, ast.UnaryOp) and isinstance(e.op, ast.Not):
            t = self.val(e.operand, sc, at, depth + 1)[0]
            return (None if t is None else not t, False, "")
        if isinstance(e, ast.BoolOp):
            return self._boolop(list(e.values), isinstance(e.op, ast.Or), sc, at, depth + 1)
        if isinstance(e, ast.IfExp):
            t = self.val(e.test, sc, at, depth + 1)[0]
            if t is True:
                return self.val(e.body, sc, at, depth + 1)
            if t is False:
                return self.val(e.orelse, sc, at, depth + 1)
            return self._join([self.val(e.body, sc, at, depth + 1), self.val(e.orelse, sc, at, depth + 1)])
        if isinstance(e, ast.Compare) and len(e.ops) == 1:
            op, l, r = e.ops[0], e.left, e.comparators[0]
            if isinstance(op, (ast.Is, ast.IsNot, ast.Eq, ast.NotEq)):
                if isinstance(l, ast.Constant) and l.value is None:
                    l, r = r, l
                if isinstance(r, ast.Constant) and r.value is None:
                    n = self.val(l, sc, at, depth + 1)[1]
                    return _UNK if n is None else ((n if isinstance(op, (ast.Is, ast.Eq)) else not n), False, "")
                return _UNK
            if isinstance(op, (ast.In, ast.NotIn)) and isinstance(l, ast.Constant):
                m = self.val(r, sc, at, depth + 1)
                has: Optional[bool] = None
                if m[2] == "md" and l.value == self.key:
                    has = sc in ("truthy", "falsy")
                elif m[2] != "md" and m[0] is False and m[1] is False:
                    has = False  # an empty container
                return _UNK if has is None else ((has if isinstance(op, ast.In) else not has), False, "")
            return _UNK
        if isinstance(e, ast.Subscript) and isinstance(e.slice, ast.Constant):
            m = self.val(e.value, sc, at, depth + 1)
            if m[2] == "md" and e.slice.value == self.key and sc in ("truthy", "falsy"):
                return self._mark(sc)
            return _UNK
        if isinstance(e, ast.Call):
            if isinstance(e.func, ast.Attribute) and e.func.attr == "get" and 1 <= len(e.args) <= 2 and isinstance(e.args[0], ast.Constant) and not e.keywords:
                m = self.val(e.func.value, sc, at, depth + 1)
                missing = self.val(e.args[1], sc, at, depth + 1) if len(e.args) == 2 else _NONE
                if m[2] == "md":
                    if e.args[0].value != self.key:
                        return _UNK
                    return self._mark(sc) if sc in ("truthy", "falsy") else missing
                if m[0] is False and m[1] is False:
                    return missing  # .get on an empty mapping
                return _UNK
            if isinstance(e.func, ast.Attribute) and e.func.attr == "copy" and not e.args:
                m = self.val(e.func.value, sc, at, depth + 1)
                return m if m[2] == "md" else _UNK
            if isinstance(e.func, ast.Name) and e.func.id == "bool" and len(e.args) == 1:
                t = self.val(e.args[0], sc, at, depth + 1)[0]
                return (t, False, "")
            if isinstance(e.func, ast.Name) and e.func.id == "dict" and len(e.args) == 1 and not e.keywords:
                m = self.val(e.args[0], sc, at, depth + 1)
                return m if m[2] == "md" and m[1] is False else _UNK
        return _UNK

    def _boolop(self, values: List[ast.AST], is_or: bool, sc: str, at: int, depth: int):
        x = self.val(values[0], sc, at, depth)
        if len(values) == 1:
            return x
        if x[0] is is_or:
            return x  # short circuit: `truthy or ..` / `falsy and ..` is the first operand
        rest = self._boolop(values[1:], is_or, sc, at, depth)
        if x[0] is None:
            return self._join([(is_or, (False if is_or else x[1]), x[2]), rest])
        return rest

    def _is_md_param(self, name: str) -> bool:
        """A parameter plays the metadata mapping when a constant key is read from it (`p.get(K)`, `p[K]`, `K in p`)."""
        for x in walk_no_nested(self.fn):
            recv = None
            if isinstance(x, ast.Call) and call_attr(x) == "get" and x.args and isinstance(x.args[0], ast.Constant):
                recv = x.func.value  # type: ignore[attr-defined]
            elif isinstance(x, ast.Subscript) and isinstance(x.slice, ast.Constant) and isinstance(x.ctx, ast.Load):
                recv = x.value
            elif isinstance(x, ast.Compare) and len(x.ops) == 1 and isinstance(x.ops[0], (ast.In, ast.NotIn)) and isinstance(x.left, ast.Constant):
                recv = x.comparators[0]
            if isinstance(recv, ast.BoolOp) and isinstance(recv.op, ast.Or):
                recv = recv.values[0]
            if isinstance(recv, ast.Name) and recv.id == name:
                return True
        return False

    def keys_read(self, e: ast.AST, at: int, depth: int = 0) -> List[object]:
        """Constant keys read from the status metadata inside *e* (locals looked through)."""
        out: List[object] = []
        if depth > 4:
            return out
        for x in ast.walk(e):
            k = recv = None
            if isinstance(x, ast.Call) and call_attr(x) == "get" and x.args and isinstance(x.args[0], ast.Constant):
                k, recv = x.args[0].value, x.func.value  # type: ignore[attr-defined]
            elif isinstance(x, ast.Subscript) and isinstance(x.slice, ast.Constant) and isinstance(x.ctx, ast.Load):
                k, recv = x.slice.value, x.value
            elif isinstance(x, ast.Compare) and len(x.ops) == 1 and isinstance(x.ops[0], (ast.In, ast.NotIn)) and isinstance(x.left, ast.Constant):
                k, recv = x.left.value, x.comparators[0]
            if recv is not None and self.val(recv, "truthy", at)[2] == "md" and k not in out:
                out.append(k)
            if isinstance(x, ast.Name) and isinstance(x.ctx, ast.Load):
                for v, d in self.bound_values(x.id, at) or []:
                    out += [k2 for k2 in self.keys_read(v, d, depth + 1) if k2 not in out]
        return out


def scenario_reach(g: CFG, starts: List[int], ends: Set[int], ev: Optional[MarkerEval], sc: str) -> Set[int]:
    """Nodes reachable from *starts* (not going on from *ends*) when every branch whose test has a known value for a
    status message of kind *sc* is followed only in that direction (ev None: plain reachability)."""
    seen = set(starts)
    todo = list(starts)
    while todo:
        n = todo.pop()
        if n in ends:
            continue
        node = g.nodes[n]
        allowed = None
        if ev is not None and node.kind in ("if", "while") and node.part is not None:
            t = ev.val(node.part, sc, n)[0]
            if t is not None:
                allowed = "T" if t else "F"
        for t2, lab in g.succ[n]:
            if allowed is not None and lab in ("T", "F") and lab != allowed:
                continue
            if t2 not in seen:
                seen.add(t2)
                todo.append(t2)
    return seen


def run(repo: Repo, R: Report) -> None:
    repo.func(W, "worker_loop")  # anchor: the public entry point of a worker
    # The function that drains the job subscription (worker_loop itself, or wherever its body was moved to).
    # "temps": its locals keep their names (the job id variable is an anchor of D1/D4); the locals of
    # inlined helpers are substituted, and a named channel / metadata dict is looked through by _deref
    wrel, wqn, wl = role_function(repo, W, "worker_loop", lambda f: bool(job_loops_of(f)), "message loop (`for msg in <subscription>` reading msg.metadata)")
    jobs = job_loops_of(wl)
    wmod = repo.module(wrel)
    # every function of the worker side in normal form (status publishes are looked for in all of them): the
    # functions of the worker module(s), and - by role, whatever module they live in - every function the worker
    # entry point reaches through calls that itself publishes on a jobs.<id>.status channel (a private helper
    # moved into a sibling module and imported back is still the worker's failure / success publish)
    wfuncs: List[ast.AST] = []
    wfunc_rel: Dict[int, str] = {}
    wmods = [wmod] if wrel == W else [repo.module(W), wmod]
    for wm in wmods:
        for qn, node in wm.defs.items():
            if isinstance(node, FuncNode):
                wfuncs.append(wl if (wm.rel, qn) == (wrel, wqn) else nfunc(repo, wm.rel, qn, copyprop="all"))
                wfunc_rel[id(wfuncs[-1])] = wm.rel
    consulted_before = set(repo.consulted)
    reached = repo.call_graph_closure([(repo.module(W), repo.func(W, "worker_loop"))] + ([(wmod, repo.func(wrel, wqn))] if (wrel, wqn) != (W, "worker_loop") else []))
    repo.consulted = consulted_before  # only the modules in which a publishing function is found are consulted
    for m, node, _path in sorted(reached.values(), key=lambda v: (v[0].rel, qualname_of(v[1]))):
        if not isinstance(node, FuncNode) or any(m is wm for wm in wmods):
            continue
        if not any(call_attr(c) == "publish" for c in calls_in(node)):
            continue
        try:
            nf = nfunc(repo, m.rel, qualname_of(node), copyprop="all")
        except Exception:
            continue
        if any(is_status_publish(c, fn=nf) for c in calls_in(nf)):
            repo.consulted.add(m.rel)
            wfuncs.append(nf)
            wfunc_rel[id(nf)] = m.rel
            if not any(m is wm for wm in wmods):
                wmods.append(m)
    R.assume(
        "logger calls, dict.get on message metadata, isinstance/all and the statements of the worker's failure handler up to its publish do not raise",
        "exactly-once hand-over of each message is the in-memory transport's contract (property C14)",
        "uuid4 job ids are unique",
        "only Exception-class failures of a job are modelled; an interrupt of the worker thread is a shutdown, not a job outcome",
    )
    R.undecided("equality of the delivered (data, context) with a direct run of the pipeline (needs execution)")

    # ------------------------------------------------------------------ D1
    r_pub = R.rule("C15-D1-status-on-every-exit", "from picking up a job message to every way of leaving that iteration (next message, loop exit, escaping exception) at least one jobs.<job_id>.status publish for this message's job id is on the path", 1)
    r_corr = R.rule("C15-D4-correlation", "job id, channel templates, metadata/context keys and per-job values agree hop by hop between enqueue, run_forever and worker_loop, each a single definition taken from this job's message", 8)
    loop, msg, bind_stmts = jobs[0]
    g = CFG(wl, may_raise=job_may_raise(repo, wmod, wl, loop))
    prov = Provenance(g, loop, msg)
    prov.pure_names = module_aliases(wmod)
    # job id variable, by role: the local the status channel of this job is named after (in a publish of the job
    # body or handed to a helper that publishes), every value of which is read from this message's metadata
    # under one key or is a constant standing in for a missing id
    cand: Dict[str, List[int]] = {}
    for n in g.nodes:
        if n.ast is None or n.kind != "stmt" or id(n.ast) not in prov.inside:
            continue
        for c in calls_in(n.ast):
            nm = None
            if is_status_publish(c, None, wl):
                nm = channel_template(c, wl)[1][0]  # type: ignore[index]
            else:
                h = helper_always_publishes(repo, wmod, c)
                if h is not None:
                    a = c.args[h[1]] if h[1] < len(c.args) else kwarg(c, h[0].args.args[h[1]].arg)
                    nm = a.id if isinstance(a, ast.Name) else None
            if nm and nm.isidentifier():
                cand.setdefault(nm, []).append(n.id)
    job_vars: Set[str] = set()
    job_keys: Set[object] = set()
    for nm, uses in sorted(cand.items()):
        prov.meta_keys = []
        leaves = [l for u in uses for l in prov.alts(ast.Name(id=nm, ctx=ast.Load()), u)]
        if not any(l.kind == "message" for l in leaves):
            continue
        job_vars.add(nm)
        job_keys |= set(prov.meta_keys)
        bad = [l for l in leaves if l.kind not in ("message", "fresh") or (l.kind == "fresh" and not isinstance(l.expr, ast.Constant))]
        R.check(not bad and len(set(prov.meta_keys)) == 1, r_corr, wrel, wqn, f"job id `{nm}` = {msg}.metadata[{sorted(map(str, set(prov.meta_keys)))}]",
                "a status is published for a job id that is not (only) the id read from this message's metadata: a value bound outside the job body or computed from something else reaches the publish (status could be published for another job)",
                getattr(bad[0].expr, "lineno", loop.lineno) if bad else loop.lineno)
    if not job_vars:
        # no status channel is named after an id read from this message.  Where the id that *is* used can be bound
        # outside the job body (a parameter, a value kept from an earlier message) that is the defect, not a shape
        # problem: the status goes out under an id that is not this job's
        for nm, uses in sorted(cand.items()):
            leaves = [l for u in uses for l in prov.alts(ast.Name(id=nm, ctx=ast.Load()), u)]
            shared = next((l for l in leaves if l.kind == "outside"), None)
            if shared is not None:
                R.violation(r_corr, wrel, wqn, f"job id `{nm}` is not this message's id",
                            f"the status channel is named after `{nm}`, which can hold `{norm(shared.expr)[:60]}` - bound outside the job body or computed from a value that outlives the job (another job's id, a parameter): "
                            "the status is published for a job that is not the one that was run, and this job's Future never completes", getattr(shared.expr, "lineno", loop.lineno))
        raise AnalysisError(f"{wqn}: job id extraction from {msg}.metadata (the id the status channel is named after) not found")
    # (no key at all: the check above has reported the job id as not read from this message; the cfg hop below then
    # has no key to agree on and says so)
    job_key = sorted(job_keys, key=str)[0] if job_keys else None

    def publishes(n) -> Optional[str]:
        """'publish': the statement publishes this job's status (unless it raises); 'sealed': a summarised helper
        that cannot be left, normally or by an exception, before it has published."""
        if n.ast is None or n.kind != "stmt":
            return None
        for c in calls_in(n.ast):
            if is_status_publish(c, None, wl) and channel_template(c, wl)[1][0] in job_vars:  # type: ignore[index]
                return "publish"
            h = helper_always_publishes(repo, wmod, c)
            if h is not None:
                fn, idx, raises_unpublished, _before = h
                a = c.args[idx] if idx < len(c.args) else kwarg(c, fn.args.args[idx].arg)
                if isinstance(a, ast.Name) and a.id in job_vars:
                    return "publish" if raises_unpublished else "sealed"
        return None

    # the nodes that bind the next message (the for statement, or `msg = next(it)`): a job starts on their normal
    # continuation and the iteration is over when one of them is reached again
    heads = [nid for st in bind_stmts for nid in g.nodes_for(st)]
    if not heads:
        raise AnalysisError(f"{wqn}: loop header not in CFG")
    kinds = {n.id: publishes(n) for n in g.nodes}
    pub_nodes = {i for i, k in kinds.items() if k}
    sealed_nodes = {i for i, k in kinds.items() if k == "sealed"}
    n_pub_nodes = len(pub_nodes)
    flags = _flag_names(wl)
    in_handler = handler_statement_ids(loop)
    total_bad = 0
    # `msg = next(it, None)`: the binding also stands for "no message left".  The branch edges on which the local is
    # known to be None (and holds nothing but what such a binding gave it) are not part of any job
    no_job_edges: Set[Tuple[int, str]] = set()
    sentinel = [st for st in bind_stmts if isinstance(st, ast.Assign) and isinstance(st.value, ast.Call) and len(st.value.args) == 2
                and isinstance(st.value.args[1], ast.Constant) and st.value.args[1].value is None]
    if sentinel:
        def no_message(x: ast.AST) -> Optional[bool]:
            if isinstance(x, ast.Compare) and len(x.ops) == 1 and isinstance(x.ops[0], (ast.Is, ast.IsNot, ast.Eq, ast.NotEq)):
                l, r = x.left, x.comparators[0]
                if isinstance(l, ast.Constant) and l.value is None:
                    l, r = r, l
                if isinstance(l, ast.Name) and l.id == msg and isinstance(r, ast.Constant) and r.value is None:
                    return isinstance(x.ops[0], (ast.Is, ast.Eq))
            return None

        for n in g.nodes:
            if n.kind in ("if", "while") and n.part is not None and all(d.id in heads for d in reaching_defs(g, msg, n.id)):
                no_job_edges |= {(n.id, lab) for lab in edges_guaranteeing(n.part, no_message)}
    for h in heads:
        starts = [t for t, lab in g.succ[h] if lab == ("T" if g.nodes[h].kind == "for" else "n")]
        seen, path_to = reach_with_flags(g, starts, pub_nodes, sealed_nodes, flags, {BASE}, no_job_edges)
        for target, label in ((h, "next message"), (g.ret_exit, "worker returns"), (g.exc_exit, "exception escapes the worker")):
            if target in seen:
                total_bad += 1
                path = path_to(target)
                # a statement of a failure handler that raised on this path: the failure path itself failed
                steps = path_to.steps(target)
                failed = [g.nodes[steps[i - 1][0]] for i in range(1, len(steps)) if steps[i][1] == EXC and g.nodes[steps[i - 1][0]].ast is not None
                          and (id(g.nodes[steps[i - 1][0]].ast) in in_handler or id(g.nodes[steps[i - 1][0]].part) in in_handler)]
                if failed:
                    R.violation(r_pub, wrel, wqn, f"job body -> {label} without status publish: failure path raises at `{norm(failed[-1].part if failed[-1].part is not None else failed[-1].ast)[:90]}`",
                                "a statement on the failure path (exception handler of the job body, helpers inlined) can itself raise before the failure status is published "
                                "(only logger calls, total builtins, building the status context and the publish are taken not to raise): the exception leaves the handler, "
                                "no jobs.<id>.status message is sent and the failing job's Future never completes", failed[-1].line or loop.lineno, path)
                else:
                    R.violation(r_pub, wrel, wqn, f"job body -> {label} without status publish via `{_last_stmt(path)}`",
                                "a picked-up job can leave its iteration without any jobs.<id>.status message: the caller's Future never completes", loop.lineno, path)
    if total_bad == 0:
        R.ok(r_pub, wrel, wqn, f"{n_pub_nodes} publishing statement(s) cover all exits of the job body", "", loop.lineno)
    if n_pub_nodes == 0:
        raise AnalysisError("worker_loop: no status publish recognised")

    # ------------------------------------------------------------------ master side: anchors by role
    RUN, ENQ = "QueueSemantivaOrchestrator.run_forever", "QueueSemantivaOrchestrator.enqueue"
    repo.func(Q, RUN)  # anchors: the public API of the master
    repo.func(Q, ENQ)
    rf = nfunc(repo, Q, RUN, copyprop="all")

    def queue_puts(fn: ast.AST) -> List[ast.Call]:
        """`<queue>.put(<tuple>)`: the hand-over of a job from enqueue to the master loop."""
        return [c for c in calls_in(fn) if call_attr(c) == "put" and c.args and isinstance(_deref(fn, c.args[0]), ast.Tuple)]

    def sub_stores(fn: ast.AST) -> List[ast.Assign]:
        return [n for n in walk_no_nested(fn) if isinstance(n, ast.Assign) and any(isinstance(t, ast.Subscript) and dotted_name(t.value) for t in n.targets)]

    erel, eqn, enq = role_function(repo, Q, ENQ, lambda f: bool(queue_puts(f)) and bool(sub_stores(f)), "registration of the pending future and the queue put", copyprop="all")
    # the pending map, by role: the mapping in which enqueue stores, under the job id, the future it returns
    rets = [dotted_name(n.value) for n in walk_no_nested(enq) if isinstance(n, ast.Return) and n.value is not None and not (isinstance(n.value, ast.Constant) and n.value.value is None)]
    fut_stores = [n for n in sub_stores(enq) if dotted_name(n.value) is not None and dotted_name(n.value) in rets]
    if not fut_stores:
        fut_stores = [n for n in sub_stores(enq) if any(dotted_name(t.value) == "self.pending_futures" for t in n.targets if isinstance(t, ast.Subscript))]
    if not fut_stores:
        raise AnalysisError("enqueue: pending store or queue put not found")
    pend = next(dotted_name(t.value) for t in fut_stores[0].targets if isinstance(t, ast.Subscript))
    put_call = queue_puts(enq)[0]
    queue_name = dotted_name(put_call.func.value)  # type: ignore[attr-defined]

    def future_ref(fn: ast.AST, e: ast.AST, maps: Set[str]) -> Optional[Tuple[str, Optional[str], str]]:
        """(map, key, how) when *e* denotes the pending future of a key: `<map>[k]`, or a local every value of
        which is `<map>[k]` / `<map>.get(k ..)` / `<map>.pop(k ..)` ('pop': fetching it removes the entry)."""
        def direct(x: ast.AST) -> Optional[Tuple[str, Optional[str], str]]:
            if isinstance(x, ast.Subscript) and dotted_name(x.value) and (not maps or dotted_name(x.value) in maps):
                return dotted_name(x.value), dotted_name(x.slice), "subscript"  # type: ignore[return-value]
            if isinstance(x, ast.Call) and call_attr(x) in ("get", "pop") and x.args and dotted_name(x.func.value) and (not maps or dotted_name(x.func.value) in maps):  # type: ignore[attr-defined]
                return dotted_name(x.func.value), dotted_name(x.args[0]), call_attr(x)  # type: ignore[attr-defined,return-value]
            if isinstance(x, ast.IfExp):
                # `m[k] if k in m else None` (either way round): the explicit spelling of m.get(k)
                t, hit, miss = x.test, x.body, x.orelse
                if isinstance(t, ast.UnaryOp) and isinstance(t.op, ast.Not):
                    t, hit, miss = t.operand, miss, hit
                if isinstance(t, ast.Compare) and len(t.ops) == 1 and isinstance(t.ops[0], ast.NotIn):
                    hit, miss = miss, hit
                if isinstance(t, ast.Compare) and len(t.ops) == 1 and isinstance(t.ops[0], (ast.In, ast.NotIn)) and isinstance(miss, ast.Constant) and miss.value is None:
                    r = direct(hit)
                    if r is not None and r[2] == "subscript" and dotted_name(t.comparators[0]) == r[0] and dotted_name(t.left) == r[1]:
                        return r[0], r[1], "get"
            return None

        if isinstance(e, ast.Name):
            vals = [v for st in walk_no_nested(fn) for nm, v in _bindings(st) if nm == e.id]
            refs = [direct(v) if v is not None else None for v in vals]
            if refs and all(r is not None for r in refs) and len({(r[0], r[1]) for r in refs}) == 1:  # type: ignore[index]
                return refs[0][0], refs[0][1], ("pop" if any(r[2] == "pop" for r in refs) else "local")  # type: ignore[index]
            return None
        return direct(e)

    def completions(fn: ast.AST, maps: Set[str], names=("set_result", "set_exception")):
        """[(call, (map, key, how))] for `<pending future>.set_result(..)` / `.set_exception(..)` in *fn*."""
        out = []
        for c in calls_in(fn):
            if isinstance(c.func, ast.Attribute) and c.func.attr in names:
                r = future_ref(fn, c.func.value, maps)
                if r is not None:
                    out.append((c, r))
        return out

    # ------------------------------------------------------------------ D2
    r_res = R.rule("C15-D2-resolve-once", "for a status message of a pending job the master completes the future exactly once (set_result xor set_exception) under the pending-membership guard and then removes the entry; a failure path exists and its marker test is true for every value a worker failure can write", 5)
    # the function that completes the futures: run_forever, or wherever that code was moved to; the pending map is
    # there the attribute enqueue registers in, or a parameter the caller binds to it
    def resolves(f: ast.AST) -> bool:
        params = {a.arg for a in f.args.posonlyargs + f.args.args + f.args.kwonlyargs}  # type: ignore[attr-defined]
        return bool(completions(f, {pend} | params))

    try:
        srel, sqn, sf = role_function(repo, Q, RUN, resolves, "completion of pending futures", copyprop="all")
    except AnalysisError:
        raise AnalysisError("run_forever: no set_result/set_exception on pending futures found")
    sparams = [a.arg for a in sf.args.posonlyargs + sf.args.args + sf.args.kwonlyargs]  # type: ignore[attr-defined]
    comps = completions(sf, {pend} | set(sparams))
    maps_used = {r[0] for _c, r in comps}
    for mname in sorted(maps_used - {pend}):
        # a parameter: every caller in the master loop binds it to the pending map
        idx = sparams.index(mname)
        sites = [c for c in calls_in(rf, include_nested=True) if (call_name(c) or "").split(".")[-1] == sf.name]  # type: ignore[attr-defined]
        for c in sites:
            off = 1 if sparams and sparams[0] in ("self", "cls") and isinstance(c.func, ast.Attribute) else 0
            a = c.args[idx - off] if 0 <= idx - off < len(c.args) else kwarg(c, mname)
            R.check(a is not None and dotted_name(_deref(rf, a)) == pend, r_res, Q, RUN, norm(c)[:80] + f" [{mname}]", f"the futures are completed in a mapping that is not the one enqueue registers them in ({pend})", c.lineno)
        if not sites:
            raise AnalysisError(f"{sqn}: call site binding `{mname}` to the pending map not found in run_forever")
    gq = CFG(sf, may_raise=lambda part: set())
    comp_ids = {id(c): r for c, r in comps}
    fut_locals = {c.func.value.id: r for c, r in comps if isinstance(c.func.value, ast.Name)}  # type: ignore[attr-defined]

    def is_set(n, names=("set_result", "set_exception")) -> bool:
        if n.ast is None or n.kind != "stmt":
            return False
        return any(id(c) in comp_ids and c.func.attr in names for c in calls_in(n.ast))  # type: ignore[attr-defined]

    def is_remove(n) -> bool:
        if n.ast is None or n.kind != "stmt":
            return False
        if isinstance(n.ast, ast.Delete) and any(isinstance(t, ast.Subscript) and dotted_name(t.value) in maps_used for t in n.ast.targets):
            return True
        return any(call_attr(c) == "pop" and isinstance(c.func, ast.Attribute) and dotted_name(c.func.value) in maps_used for c in calls_in(n.ast))

    def looked_up(x: ast.AST) -> Optional[str]:
        """The key when *x* is the pending future fetched on the spot without removing it, None standing for a missing
        entry: `<pending>.get(k)` / `<pending>.get(k, None)` / `<pending>[k] if k in <pending> else None`."""
        if isinstance(x, ast.Call) and call_attr(x) == "get" and not (len(x.args) == 1 or (len(x.args) == 2 and isinstance(x.args[1], ast.Constant) and x.args[1].value is None)):
            return None
        r = future_ref(sf, x, maps_used) if isinstance(x, (ast.Call, ast.IfExp)) else None
        return r[1] if r is not None and r[2] == "get" else None

    def pending_atom(x: ast.AST) -> Optional[bool]:
        """`k in <pending>` / `<future> is not None` / `<future>` (truthiness; a Future is never falsy), where <future> is
        a local holding the looked-up future or the look-up itself: the job has a pending future."""
        if isinstance(x, ast.Compare) and len(x.ops) == 1:
            if isinstance(x.ops[0], (ast.In, ast.NotIn)) and dotted_name(x.comparators[0]) in maps_used:
                return isinstance(x.ops[0], ast.In)
            if isinstance(x.ops[0], (ast.Is, ast.IsNot)) and isinstance(x.comparators[0], ast.Constant) and x.comparators[0].value is None \
                    and ((isinstance(x.left, ast.Name) and x.left.id in fut_locals) or looked_up(x.left) is not None):
                return isinstance(x.ops[0], ast.IsNot)
        if isinstance(x, ast.Name) and x.id in fut_locals:
            return True
        if looked_up(x) is not None:
            return True
        return None

    def guard_key(x: ast.AST) -> Optional[str]:
        for y in ast.walk(x):
            if isinstance(y, ast.Compare) and len(y.ops) == 1 and isinstance(y.ops[0], (ast.In, ast.NotIn)) and dotted_name(y.comparators[0]) in maps_used:
                return dotted_name(y.left)
            if isinstance(y, ast.Name) and y.id in fut_locals:
                return fut_locals[y.id][1]
            if looked_up(y) is not None:
                return looked_up(y)
        return None

    guards = [(n, lab) for n in gq.nodes if n.kind in ("if", "while") and n.part is not None for lab in sorted(edges_guaranteeing(n.part, pending_atom))]
    set_nodes = [n for n in gq.nodes if is_set(n)]
    if not set_nodes:
        raise AnalysisError("run_forever: no set_result/set_exception on pending futures found")
    if not guards:
        R.violation(r_res, srel, sqn, "if jid in self.pending_futures", "future completion is not guarded by membership in pending_futures (a duplicate or unknown status raises / completes the wrong future)", sf.lineno)
    # statements that fetch the pending future into a local by popping it: where one of them runs before the guard
    # (it dominates the guard) the entry is already gone when the status block starts
    pop_fetches = [n.id for n in gq.nodes if n.kind == "stmt" and n.ast is not None and any(nm in fut_locals and fut_locals[nm][2] == "pop" for nm, _v in _bindings(n.ast))
                   and any(call_attr(c) == "pop" and isinstance(c.func, ast.Attribute) and dotted_name(c.func.value) in maps_used for c in calls_in(n.ast))]
    jid = None

    def status_block_ends(gd) -> List[int]:
        """Where the handling of one status message is over: the innermost loop around the guard is re-entered or
        left, or the function is."""
        scope = next((a for a in ancestors(gd.ast) if isinstance(a, (ast.For, ast.While))), None) if gd.ast is not sf else None
        if scope is not None and not any(scope is x for x in ast.walk(sf)):
            scope = None
        inside = {id(x) for x in ast.walk(scope)} if scope is not None else None
        return [n.id for n in gq.nodes if n.kind in ("ret_exit", "exc_exit", "base_exit") or (scope is not None and n.ast is scope)
                or (inside is not None and n.ast is not None and id(n.ast) not in inside)]

    for gd, glab in guards:
        jid = guard_key(gd.part)
        # the handling of one status message: the innermost loop around the guard, or the whole function
        ends = status_block_ends(gd)
        starts = [t for t, lab in gq.succ[gd.id] if lab == glab]
        saved = {j: gq.succ[j] for j in ends}
        for j in ends:
            gq.succ[j] = []
        try:
            c_set = gq.counts(starts, is_set, count_start=True)
            c_rm = gq.counts(starts, is_remove, count_start=True)
        finally:
            for j, v in saved.items():
                gq.succ[j] = v
        reached = [j for j in ends if j in c_set]
        got_set = set().union(*[c_set.get(j, set()) for j in reached]) if reached else set()
        got_rm = set().union(*[c_rm.get(j, set()) for j in reached]) if reached else set()
        R.check(got_set == {1}, r_res, srel, sqn, norm(gd.part) + " -> set_result/set_exception",
                f"a pending future is completed {sorted(got_set)} time(s) on some path of the status block (0 = caller waits forever, 2 = InvalidStateError)", gd.line)
        popped_before = any(gq.dominated_by_node(gd.id, pf) for pf in pop_fetches)
        R.check(got_rm == ({0} if popped_before else {1}), r_res, srel, sqn, norm(gd.part) + " -> remove entry",
                f"the pending entry is removed {sorted(got_rm)} time(s) in the status block" + (" although the pop that fetched the future has removed it already" if popped_before else "")
                + " (0 = a duplicate status completes it again, 2 = KeyError in the master loop)", gd.line)
        # keys used agree with the guard variable
        for c, r in comps:
            R.check(r[1] == jid, r_res, srel, sqn, norm(c)[:80] + " [key]", "the completed future is not the one looked up by the guard's job id", c.lineno)
    # all set_* nodes are dominated by a guard edge
    if guards:
        for n in set_nodes:
            R.check(any(gq.dominated_by_edge(n.id, gd.id, glab) for gd, glab in guards), r_res, srel, sqn, norm(n.ast)[:80] + " [guarded]",
                    "future completion reachable without the pending-membership guard", n.line)
    guard_nodes = [gd for gd, _l in guards]
    # failure path and marker agreement
    exc_nodes = [n for n in gq.nodes if is_set(n, ("set_exception",))]
    res_nodes = [n for n in gq.nodes if is_set(n, ("set_result",))]
    marker_key = None
    if not exc_nodes:
        R.violation(r_res, srel, sqn, "set_exception", "the master has no exceptional completion: a failing job leaves the caller waiting forever", sf.lineno)
    else:
        # marker: the metadata key of the status message whose value decides between the two completions.  The
        # decision is evaluated, not matched: for a status whose metadata carries a truthy / a falsy (but not None)
        # value under the key, lacks the key, or has no metadata at all, the status block is walked following each
        # branch in the direction its test takes for that message (names through reaching definitions; `x or {}`,
        # conditional expressions, `k in m`, `.get(k[, d])`, `m[k]`, None tests, not/and/or interpreted)
        block_starts: List[int] = []
        block_ends: Set[int] = set()
        for gd, glab in guards:
            block_starts += [t for t, lab in gq.succ[gd.id] if lab == glab]
            block_ends |= set(status_block_ends(gd))
        if not guards:
            block_starts = [gq.entry]
            block_ends = {n.id for n in gq.nodes if n.kind in ("ret_exit", "exc_exit", "base_exit")}
        ev = MarkerEval(gq, sf, maps_used)
        plain = scenario_reach(gq, block_starts, block_ends, None, "")
        cand_keys: List[object] = []
        for n in gq.nodes:
            if n.id in plain and n.kind in ("if", "while") and n.part is not None and n not in guard_nodes:
                for k in ev.keys_read(n.part, n.id):
                    if k not in cand_keys:
                        cand_keys.append(k)
        marker_key = None
        test_kind = None
        exc_ids, res_ids = {n.id for n in exc_nodes}, {n.id for n in res_nodes}
        for k in cand_keys:
            ev.key = k
            sel: Dict[str, str] = {}
            for sc in SCENARIOS:
                seen_sc = scenario_reach(gq, block_starts, block_ends, ev, sc)
                e_hit, r_hit = bool(seen_sc & exc_ids), bool(seen_sc & res_ids)
                sel[sc] = "exception" if e_hit and not r_hit else "result" if r_hit and not e_hit else "?"
            kind = "other"
            if sel["truthy"] == "exception" and sel["absent"] == "result" and sel["no-metadata"] == "result":
                kind = {"exception": "presence", "result": "truthiness"}.get(sel["falsy"], "other")
            if marker_key is None or (test_kind == "other" and kind != "other"):
                marker_key, test_kind = k, kind
        if marker_key is None:
            R.violation(r_res, srel, sqn, "failure marker", "the branch selecting set_exception does not test a marker read from the status message's metadata", sf.lineno)
        else:
            # worker side: failure publishes write the marker, success publishes do not
            fail_values: List[Tuple[ast.AST, ast.AST, str]] = []
            n_fail = n_succ = 0
            for fn in wfuncs:
                for c in calls_in(fn):
                    if is_status_publish(c, fn=fn):
                        mk = metadata_keys(c, fn)
                        if mk is None:
                            raise AnalysisError(f"{W}: status publish with non-literal metadata")
                        vals = mk.get(marker_key, [None])
                        if any(v is not None for v in vals):
                            n_fail += 1
                            # a path on which the store of the marker is skipped sends the failure without it
                            fail_values += [(fn, v if v is not None else ast.Constant(value=None), qualname_of(fn)) for v in vals]
                        else:
                            n_succ += 1
            R.check(n_fail > 0, r_res, W, "worker", f"failure status writes metadata[{marker_key!r}]", f"no worker status publish writes the marker {marker_key!r} the master tests: failures are reported as successes", 0)
            R.check(n_succ > 0, r_res, wrel, wqn, f"success status omits metadata[{marker_key!r}]", "every status carries the failure marker: successful jobs complete exceptionally", 0)
            # polarity: can a written failure value make the master's test false?
            for fn, val, qn in fail_values:
                truthy = _provably_truthy(repo, wmods, fn, val)
                not_none = truthy or _provably_not_none(repo, wmods, fn, val)
                if test_kind == "presence":
                    ok = not_none
                elif test_kind == "truthiness":
                    ok = truthy
                else:
                    ok = False
                R.check(ok, r_res, wfunc_rel.get(id(fn), W), qn, f"metadata[{marker_key!r}] = {norm(val)} vs master test ({test_kind})",
                        f"a worker failure can write a value for which the master's {test_kind} test is false (e.g. an empty message): the failing job completes as a success", getattr(val, "lineno", 0))
    # the job id the master looks up is read from the status message's context; the result delivered is
    # (data, context) of that same message
    master_fns = [sf] + ([rf] if sf is not rf else [])
    ctx_key = None
    status_msg = None
    for f in master_fns:
        cands = [v for nm in ([jid] if jid else []) for st in walk_no_nested(f) for n2, v in _bindings(st) if n2 == nm and v is not None] or [c for c in calls_in(f)]
        for v in cands:
            for c in ast.walk(v):
                if isinstance(c, ast.Call) and call_attr(c) == "get_value" and c.args and isinstance(c.args[0], ast.Constant) and ctx_key is None:
                    ctx_key = c.args[0].value
                    root = dotted_name(c.func.value)  # type: ignore[attr-defined]
                    status_msg = root.split(".")[0] if root else None
        if ctx_key is not None:
            break
    if ctx_key is None:
        raise AnalysisError("run_forever: job id lookup in the status context not found")
    for n in res_nodes:
        for c in calls_in(n.ast):
            if id(c) in comp_ids and c.func.attr == "set_result" and c.args:  # type: ignore[attr-defined]
                a = _deref(sf, c.args[0])  # the pair may be named, and so may its two halves
                elts = [dotted_name(_deref(sf, e)) or "" for e in a.elts] if isinstance(a, ast.Tuple) else []
                roots = {e.rsplit(".", 1)[0] for e in elts}
                m = status_msg if (sf is rf or status_msg in sparams) else (roots.pop() if len(roots) == 1 and next(iter(roots)) in sparams else status_msg)
                ok = elts == [f"{m}.data", f"{m}.context"]
                R.check(ok, r_corr, srel, sqn, norm(c)[:90], "the future's result is not (data, context) of the status message that was matched", c.lineno)

    # ------------------------------------------------------------------ D2 (outcome decided from this message only)
    r_own = R.rule("C15-D2-outcome-from-this-message", "every local the completion of a pending future depends on - the branch tests between the binding of a status message and set_result / set_exception / the removal of the entry, the values handed to them, and what those are computed from - is assigned on every path from the binding of that message to its use; a local that is assigned for some messages only still holds what an earlier status message (another job) left in it", 1)
    own_sites: List[Tuple[str, str, ast.AST, str, object]] = []
    n_own = 0
    if status_msg is not None and status_msg not in sparams:
        own_sites.append((srel, sqn, sf, status_msg, lambda n: is_set(n) or is_remove(n)))
    elif status_msg is not None and sf is not rf:
        # the completions live in a helper that receives the message: what the master loop hands to it
        for c in calls_in(rf):
            if (call_name(c) or "").split(".")[-1] == sf.name:  # type: ignore[attr-defined]
                off = 1 if sparams and sparams[0] in ("self", "cls") and isinstance(c.func, ast.Attribute) else 0
                idx = sparams.index(status_msg) - off
                a = c.args[idx] if 0 <= idx < len(c.args) else kwarg(c, status_msg)
                if isinstance(a, ast.Name):
                    own_sites.append((Q, RUN, rf, a.id, lambda n, _c=c: n.ast is not None and n.kind == "stmt" and any(x is _c for x in ast.walk(n.ast))))
                elif a is not None:
                    n_own += 1
                    R.ok(r_own, Q, RUN, norm(c)[:80], "the status message is handed to the completing helper without being kept in a local", c.lineno)
    for orel, oqn, ofn, omsg, osink in own_sites:
        g_own = CFG(ofn)
        o_heads, carried, n_reads = carried_over_reads(g_own, omsg, osink)
        if not o_heads:
            continue
        n_own += 1
        for x, u, path in carried:
            un = g_own.nodes[u]
            R.violation(r_own, orel, oqn, f"`{x}` in `{norm(un.part if un.kind != 'stmt' and un.part is not None else un.ast)[:70]}` is not assigned for every message",
                        f"the local `{x}` decides or carries the outcome of a pending job but there is a path from the binding of the status message `{omsg}` to this read on which it is not assigned "
                        f"(it is assigned only for some messages): it then still holds the value left by an earlier status message - another job's - or by the code before the loop, "
                        "so a job completes with another job's outcome (a healthy job fails with an earlier job's exception, or a failed one succeeds)", un.line,
                        [f"L{g_own.nodes[i].line}: {g_own.nodes[i].text()[:100]}" for i in path])
        if not carried:
            R.ok(r_own, orel, oqn, f"{n_reads} read(s) behind the completion of a future are all assigned after `{omsg}` is bound", "", g_own.nodes[o_heads[0]].line)
    # ------------------------------------------------------------------ D2 (a status taken off the transport is looked up)
    r_taken = R.rule("C15-D2-taken-status-is-looked-up", "every status message the master takes off the transport (the binding of the message by its loop has removed it from the channel for good) reaches the "
                     "pending-future lookup: no branch between the binding and the membership test / the hand-over to the completing helper leaves the iteration (break, continue, return) - "
                     "a message dropped there is lost and its job's Future never completes", 1)
    n_taken = 0
    if guards:
        guard_ids = {gd.id for gd, _l in guards}
        if status_msg is not None and status_msg not in sparams:
            n_taken += 1
            _taken_status_rule(R, r_taken, srel, sqn, gq, status_msg, guard_ids, "the pending-future lookup")
        elif status_msg is not None and sf is not rf:
            # the lookup lives in a helper the message is handed to: every taken message reaches the call, and the
            # helper reaches its lookup
            g_rf = CFG(rf, may_raise=lambda part: set())
            for orel, oqn, ofn, omsg, osink in own_sites:
                if ofn is rf:
                    n_taken += 1
                    _taken_status_rule(R, r_taken, orel, oqn, g_rf, omsg, {n.id for n in g_rf.nodes if osink(n)}, f"the call of {sf.name}")  # type: ignore[attr-defined]
            n_taken += 1
            _taken_status_rule(R, r_taken, srel, sqn, gq, status_msg, guard_ids, "the pending-future lookup", param=True)
    if guards and n_taken == 0 and n_own:
        R.ok(r_taken, srel, sqn, "the status message is handed to the completing helper without being kept in a local", "", sf.lineno)
    elif not guards:
        R.ok(r_taken, srel, sqn, "no pending-membership guard (reported by C15-D2-resolve-once)", "", sf.lineno)
    if n_own == 0:
        raise AnalysisError("run_forever: binding of the status message (the loop that takes status messages one by one) not found")
    # the same on the worker side: what a job is run on and what is published for it is assigned for every job message
    r_wown = R.rule("C15-D4-job-values-from-this-message", "every local the worker runs a job on or publishes for it (payload, pipeline, job id, result; the branch tests on the way and what they are computed from) is assigned on every path from the binding of that job's message to its use; a local assigned for some messages only carries an earlier job's value into this job", 1)
    g_w = CFG(wl)

    def job_sink(n) -> bool:
        if n.ast is None or n.kind != "stmt":
            return False
        return any(call_attr(c) in ("Payload", "Pipeline", "submit", "process", "publish") or helper_always_publishes(repo, wmod, c) is not None for c in calls_in(n.ast))

    w_heads, w_carried, w_reads = carried_over_reads(g_w, msg, job_sink)
    for x, u, path in w_carried:
        un = g_w.nodes[u]
        R.violation(r_wown, wrel, wqn, f"`{x}` in `{norm(un.part if un.kind != 'stmt' and un.part is not None else un.ast)[:70]}` is not assigned for every job",
                    f"the local `{x}` takes part in running this job or in publishing its status, but a path leads from the binding of the job message `{msg}` to this read on which it is not assigned: "
                    "it still holds what an earlier job left in it (that job's data, context, pipeline or id), so this job's Future completes with a result computed from another job's input", un.line,
                    [f"L{g_w.nodes[i].line}: {g_w.nodes[i].text()[:100]}" for i in path])
    if not w_carried:
        if not w_heads:
            raise AnalysisError(f"{wqn}: binding of the job message not found in the CFG")
        R.ok(r_wown, wrel, wqn, f"{w_reads} read(s) behind running a job and publishing its status are all assigned after `{msg}` is bound", "", g_w.nodes[w_heads[0]].line)

    # ------------------------------------------------------------------ D3
    r_ord = R.rule("C15-D3-register-before-publish", "the pending future is registered before the job is put on the queue", 1)
    ge = CFG(enq, may_raise=lambda part: set())
    store = [n for n in ge.nodes if n.ast is not None and any(n.ast is s for s in fut_stores)]
    put = [n for n in ge.nodes if n.ast is not None and n.kind == "stmt" and any(c is p for c in calls_in(n.ast) for p in queue_puts(enq))]
    if not store or not put:
        raise AnalysisError("enqueue: pending store or queue put not found")
    after_put = ge.reach([p.id for p in put])
    late = [s for s in store if s.id in after_put]
    R.check(not late, r_ord, erel, eqn, norm(store[0].ast), "the future is registered after the job became visible to the master loop: a fast worker's status finds no pending entry and is dropped", store[0].line, ge.path_to(after_put, late[0].id) if late else None)
    # the key stored and the id put on the queue are the same variable
    skey = dotted_name(next(t for t in store[0].ast.targets if isinstance(t, ast.Subscript)).slice)
    tup = _deref(enq, put_call.args[0])
    first = dotted_name(tup.elts[0]) if isinstance(tup, ast.Tuple) and tup.elts else None
    R.check(skey is not None and skey == first, r_corr, erel, eqn, norm(put_call)[:90], "the queued job id is not the key under which the future was registered", put_call.lineno)
    # stored value is the returned future
    sval = dotted_name(store[0].ast.value)
    R.check(sval is not None and all(r == sval for r in rets) and bool(rets), r_corr, erel, eqn, f"return {sval}", "the returned Future is not the one registered as pending", enq.lineno)
    # positions of the job's fields in the queued tuple, by role: the element that is the registered key, and the
    # elements that read enqueue's `data` / `context` parameters and its first positional parameter (the pipeline)
    eparams = [a.arg for a in enq.args.posonlyargs + enq.args.args if a.arg not in ("self", "cls")]  # type: ignore[attr-defined]

    def reads(e: ast.AST, param: str, depth: int = 0) -> bool:
        """*e* is computed from enqueue's parameter *param* (through locals)."""
        for x in ast.walk(e):
            if isinstance(x, ast.Name) and isinstance(x.ctx, ast.Load):
                if x.id == param:
                    return True
                if depth < 3 and x.id not in eparams and any(v is not None and reads(v, param, depth + 1) for st in walk_no_nested(enq) for nm, v in _bindings(st) if nm == x.id):
                    return True
        return False

    def tuple_index(param: Optional[str]) -> Optional[int]:
        hits = [i for i, e in enumerate(tup.elts) if param is not None and reads(e, param)] if isinstance(tup, ast.Tuple) else []
        return hits[0] if len(hits) == 1 else None

    i_id, i_pipe, i_data, i_ctx = 0, tuple_index(eparams[0] if eparams else None), tuple_index("data"), tuple_index("context")
    if None in (i_pipe, i_data, i_ctx):
        raise AnalysisError("enqueue: position of pipeline / data / context in the queued tuple not recognised")

    # ------------------------------------------------------------------ D4 a default stands in only for None
    # (the worker-side instance - Payload(msg.data, msg.context) - is recorded with D4-correlation above)
    r_dflt = R.rule("C15-D4-default-only-for-none", "on every hop between the caller's enqueue arguments and the pipeline call in the worker (enqueue -> queued tuple, transport publish -> Message, message -> Payload) a default object stands in for a payload field (data, context) only where that field is None: a truthiness test (`x or Default()`, `if not x:`) also replaces a falsy-but-real input - an empty data collection, a context collection with global keys and no items - and the job no longer runs on its own payload", 2)
    r_intact = R.rule("C15-D4-payload-handed-on-intact", "on every hop between the caller's enqueue arguments and the pipeline call in the worker (enqueue -> queued tuple, transport publish -> Message, message -> Payload) a payload field (data, context) travels as the object itself or as a copy that keeps its class and all of its state: a conversion, a wrapper, or a copy method that rebuilds the object through its constructor from some of its attributes - inherited by a subclass that stores more (a context collection keeps its items in a list of its own) - hands the job something else than its payload, and the result differs from the direct run; likewise on the way back the status publish carries the data / context of the object the pipeline returned, not a copy shown to drop part of it", 4)
    payload_cls: List[Tuple[object, ast.ClassDef]] = []
    for c in calls_in(wl):
        if (call_name(c) or "").rsplit(".", 1)[-1] == "Payload" and isinstance(c.func, (ast.Name, ast.Attribute)):
            r = repo.resolve_name(wmod, c.func, c)
            if r is not None and isinstance(r[1], ast.ClassDef) and not payload_cls:
                payload_cls.append((r[0], r[1]))

    def field_roots(fname: str, annotated: List[Tuple[object, Optional[ast.AST], ast.AST]]) -> List[Tuple[object, ast.ClassDef]]:
        """The declared classes of a payload field: the annotation at this hop and that of the constructor of the
        object the worker hands to the pipeline."""
        out: List[Tuple[object, ast.ClassDef]] = []
        srcs = list(annotated)
        for pm, pc in payload_cls:
            init = repo.method(pm, pc, "__init__")
            if init is not None:
                srcs += [(init[0], a.annotation, init[1]) for a in init[1].args.args + init[1].args.kwonlyargs if a.arg == fname]  # type: ignore[attr-defined]
            srcs += [(pm, st.annotation, pc) for st in pc.body if isinstance(st, ast.AnnAssign) and isinstance(st.target, ast.Name) and st.target.id == fname]
        for m, ann, ctx in srcs:
            for mc in annotation_classes(repo, m, ann, ctx):
                if not any(mc[1] is x for _m, x in out):
                    out.append(mc)
        return out

    eprov = ParamProvenance(ge, enq, set(eparams) | {a.arg for a in enq.args.kwonlyargs})  # type: ignore[attr-defined]
    eprov.pure_names = module_aliases(repo.module(erel))
    t_at = _node_of(ge, tup)
    if t_at is None:
        raise AnalysisError("enqueue: the queued tuple is not evaluated at a CFG node")
    for pname, idx in (("data", i_data), ("context", i_ctx)):
        el = tup.elts[idx]  # type: ignore[union-attr,index]
        bad_l, _own = stand_in_not_for_none(eprov, el, t_at, {pname})
        R.check(bad_l is None, r_dflt, erel, eqn, f"queued {pname} is the caller's `{pname}` (a default only for None)",
                f"`{norm(bad_l.expr)[:70] if bad_l is not None else ''}` is queued in place of the caller's `{pname}` where `{pname}` is not known to be None (e.g. whenever it is falsy): "
                "a falsy-but-real input - a context collection with global keys and no items, an empty data collection - is swapped for a default object before the job is even published, "
                "so the job does not run on its own payload and its Future completes with a result that differs from the direct run",
                getattr(bad_l.expr, "lineno", put_call.lineno) if bad_l is not None else put_call.lineno)
        lost = handed_on_intact(repo, eprov, eprov.alts(el, t_at), field_roots(pname, [(repo.module(erel), a.annotation, enq) for a in enq.args.args + enq.args.kwonlyargs if a.arg == pname]))  # type: ignore[attr-defined]
        R.check(lost is None, r_intact, erel, eqn, f"queued {pname} is the caller's `{pname}` object (or a copy that keeps its class and state)",
                f"`{norm(lost[0])[:70] if lost else ''}` is queued in place of the caller's `{pname}`: {lost[1] if lost else ''} - the job does not run on its own payload and its Future completes with a result that differs from the direct run",
                getattr(lost[0], "lineno", put_call.lineno) if lost else put_call.lineno)
    # transport hop: the Message a publish files carries the data / context it was called with
    tmod_ = repo.module(T)
    for tqn, tnode in sorted(tmod_.defs.items()):
        if not (isinstance(tnode, FuncNode) and tnode.name == "publish" and "." in tqn):
            continue
        pf = nfunc(repo, T, tqn, copyprop="all")
        pparams = {a.arg for a in pf.args.posonlyargs + pf.args.args + pf.args.kwonlyargs if a.arg not in ("self", "cls")}  # type: ignore[attr-defined]
        gp = CFG(pf, may_raise=lambda part: set())
        pprov = ParamProvenance(gp, pf, pparams)
        pprov.pure_names = module_aliases(tmod_)
        for c in calls_in(pf):
            r = repo.resolve_name(tmod_, c.func, c) if isinstance(c.func, (ast.Name, ast.Attribute)) else None
            if r is None or not isinstance(r[1], ast.ClassDef):
                continue
            fields_ = [st.target.id for st in r[1].body if isinstance(st, ast.AnnAssign) and isinstance(st.target, ast.Name)]
            bound = {f: a for f, a in zip(fields_, c.args)}
            bound.update({k.arg: k.value for k in c.keywords if k.arg})
            at_c = _node_of(gp, c)
            for fname in ("data", "context"):
                if fname not in bound or fname not in fields_ or at_c is None:
                    continue
                bad_l, own = stand_in_not_for_none(pprov, bound[fname], at_c)
                if not own:
                    continue  # not computed from a parameter at all: nothing a default could stand in for
                R.check(bad_l is None, r_dflt, T, tqn, f"{r[1].name}.{fname} is publish's `{'/'.join(sorted(own))}` (a default only for None)",
                        f"`{norm(bad_l.expr)[:70] if bad_l is not None else ''}` is filed in place of the published {fname} where it is not known to be None (e.g. whenever it is falsy): "
                        "an empty data collection / a context collection without items is swapped for a default object in transit, so the job does not run on the payload that was queued",
                        getattr(bad_l.expr, "lineno", c.lineno) if bad_l is not None else c.lineno)
                lost = handed_on_intact(repo, pprov, pprov.alts(bound[fname], at_c), field_roots(fname, [(r[0], st.annotation, r[1]) for st in r[1].body if isinstance(st, ast.AnnAssign) and isinstance(st.target, ast.Name) and st.target.id == fname]))
                R.check(lost is None, r_intact, T, tqn, f"{r[1].name}.{fname} is publish's `{'/'.join(sorted(own))}` object (or a copy that keeps its class and state)",
                        f"`{norm(lost[0])[:70] if lost else ''}` is filed in place of the published {fname}: {lost[1] if lost else ''} - the job does not run on the payload that was queued",
                        getattr(lost[0], "lineno", c.lineno) if lost else c.lineno)

    # ------------------------------------------------------------------ D4 (remaining hops)
    # the function that broadcasts a dequeued job: the tuple taken from the queue is unpacked and published on
    # jobs.<id>.cfg with the same id and values
    def cfg_publishes(f: ast.AST) -> List[ast.Call]:
        return [c for c in calls_in(f) if call_attr(c) == "publish" and c.args and (channel_template(c, f) or ("", []))[0].endswith(".cfg")]

    crel, cqn, cf = role_function(repo, Q, RUN, lambda f: bool(cfg_publishes(f)), "publish of the dequeued job on jobs.<id>.cfg", copyprop="all")

    def is_queue_get(v: Optional[ast.AST], depth: int = 0) -> bool:
        if isinstance(v, ast.Name) and depth < 2:
            # a local naming the dequeued tuple; `None` may stand in where the queue was empty
            vals = [b for st in walk_no_nested(cf) for nm, b in _bindings(st) if nm == v.id and not (isinstance(b, ast.Constant) and b.value is None)]
            return bool(vals) and all(b is not None and is_queue_get(b, depth + 1) for b in vals)
        return isinstance(v, ast.Call) and call_attr(v) == "get" and (dotted_name(v.func.value) == queue_name or "queue" in (call_name(v) or "").lower())  # type: ignore[attr-defined]

    unpack = None
    for n in walk_no_nested(cf):
        if isinstance(n, ast.Assign) and isinstance(n.targets[0], (ast.Tuple, ast.List)) and is_queue_get(n.value):
            unpack = n
    if unpack is None:
        raise AnalysisError("run_forever: unpacking of job_queue.get(...) not found")
    names = [e.id if isinstance(e, ast.Name) else None for e in unpack.targets[0].elts]  # type: ignore[attr-defined]
    if isinstance(tup, ast.Tuple) and len(names) != len(tup.elts):
        R.violation(r_corr, crel, cqn, norm(unpack)[:90], f"the master unpacks {len(names)} values from a queue on which enqueue puts {len(tup.elts)}", unpack.lineno)
        names = (names + [None] * len(tup.elts))[:max(len(names), len(tup.elts))]
    cfg_pubs = cfg_publishes(cf)
    if len(cfg_pubs) != 1:
        raise AnalysisError("run_forever: exactly one jobs.<id>.cfg publish expected")
    cp = cfg_pubs[0]
    tmpl, tnames = channel_template(cp, cf)  # type: ignore[misc]
    R.check(tnames == [names[i_id]], r_corr, crel, cqn, norm(cp.args[0]), "cfg channel is not named after the dequeued job id", cp.lineno)
    mk = metadata_keys(cp, cf) or {}
    R.check(_only(mk.get(job_key)) is not None and dotted_name(_only(mk.get(job_key))) == names[i_id], r_corr, crel, cqn, f"metadata[{job_key!r}] = {names[i_id]}",
            f"the cfg message does not carry the dequeued job id under {job_key!r}, the key the worker reads", cp.lineno)
    # worker subscription pattern matches the master's cfg template, and vice versa for status
    wsubs = [c for c in calls_in(wl) if call_attr(c) == "subscribe" and c.args and isinstance(_deref(wl, c.args[0]), ast.Constant)]
    msub_fn, msubs = rf, []
    for f in [rf] + master_fns + [cf]:
        msubs = [c for c in calls_in(f) if call_attr(c) == "subscribe" and c.args and isinstance(_deref(f, c.args[0]), ast.Constant)]
        if msubs:
            msub_fn = f
            break
    if not wsubs or not msubs:
        raise AnalysisError("subscribe patterns not found")
    R.check(fnmatch(tmpl.replace("{}", "00000000-0000"), _deref(wl, wsubs[0].args[0]).value) and not fnmatch("jobs.0000.status", _deref(wl, wsubs[0].args[0]).value), r_corr, wrel, wqn, norm(wsubs[0]),
            "worker subscription pattern does not match exactly the master's cfg channel template", wsubs[0].lineno)
    status_templates = set()
    for fn in wfuncs:
        for c in calls_in(fn):
            if is_status_publish(c, fn=fn):
                status_templates.add(channel_template(c, fn)[0])  # type: ignore[index]
    for st_t in sorted(status_templates):
        R.check(fnmatch(st_t.replace("{}", "00000000-0000"), _deref(msub_fn, msubs[0].args[0]).value) and not fnmatch("jobs.0000.cfg", _deref(msub_fn, msubs[0].args[0]).value), r_corr, Q, RUN, norm(msubs[0]) + f" ~ {st_t}",
                "master subscription pattern does not match the worker's status channel template", msubs[0].lineno)
    # ------------------------------------------------------------------ D9 a status the master takes is consumed for good
    def awaited_atom(x: ast.AST) -> Optional[bool]:
        r = pending_atom(x)
        if r is None and isinstance(x, ast.Compare) and len(x.ops) == 1 and isinstance(x.ops[0], (ast.In, ast.NotIn)) and dotted_name(x.comparators[0]) == pend:
            r = isinstance(x.ops[0], ast.In)
        return r

    status_consumed_rule(repo, R, [(orel, oqn, ofn, omsg) for orel, oqn, ofn, omsg, _sink in own_sites] or [(srel, sqn, sf, None)],
                         _deref(msub_fn, msubs[0].args[0]).value, awaited_atom)

    # context key written by worker (both outcomes) = key read by master
    for fn in wfuncs:
        for c in calls_in(fn):
            if is_status_publish(c, fn=fn):
                ctx = kwarg(c, "context") or (c.args[2] if len(c.args) > 2 else None)
                cname = dotted_name(ctx) if ctx is not None else None
                t = channel_template(c, fn)
                jv = t[1][0] if t else None
                writes = [w for w in calls_in(fn) if call_attr(w) == "set_value" and isinstance(w.func, ast.Attribute) and dotted_name(w.func.value) == cname and w.args and isinstance(w.args[0], ast.Constant) and w.args[0].value == ctx_key and len(w.args) > 1 and dotted_name(w.args[1]) == jv]
                R.check(bool(writes), r_corr, wfunc_rel.get(id(fn), W), qualname_of(fn), norm(c)[:70] + f" [context[{ctx_key!r}]]",
                        f"a status message is published whose context does not carry this job's id under {ctx_key!r}: the master cannot find the pending future", c.lineno)
                if writes and cname:
                    _annotation_reaches_publish(R, r_corr, fn, c, cname, ctx_key, jv, writes, wfunc_rel.get(id(fn), W))
    # ... and what the worker publishes as the job's outcome is the data / context of the object the pipeline returned,
    # not a lossy copy of them (the way back: result -> status message -> Future)
    for n in g.nodes:
        if n.ast is None or n.kind != "stmt" or id(n.ast) not in prov.inside:
            continue
        for c in calls_in(n.ast):
            if not is_status_publish(c, None, wl):
                continue
            for fname, val in (("data", kwarg(c, "data") or (c.args[1] if len(c.args) > 1 else None)), ("context", _publish_context(c))):
                if val is None or (isinstance(val, ast.Constant) and val.value is None):
                    continue
                lost = handed_on_intact(repo, prov, prov.alts(val, n.id), field_roots(fname, []), result_field=fname)
                R.check(lost is None, r_intact, wrel, wqn, f"published {fname} `{norm(val)[:30]}` is the result's `{fname}` object (or a copy that keeps its class and state)",
                        f"`{norm(lost[0])[:70] if lost else ''}` is published in place of the {fname} the pipeline returned: {lost[1] if lost else ''} - the Future completes with something else than the job's result",
                        getattr(lost[0], "lineno", c.lineno) if lost else c.lineno)
    result_published_rule(repo, R, wrel, wqn, wl, wmod, g, prov, marker_key, in_handler, wfuncs, wfunc_rel)
    status_context_own_rule(repo, R, wfuncs, wfunc_rel)
    # payload of the job is built from this message: every definition of the two payload values that can reach
    # the call lies inside the job body and is computed from this message, or is a fresh default object that is
    # chosen only where the message's own field is None
    pipe_key = None
    for n in g.nodes:
        if n.ast is None or id(n.ast) not in prov.inside or n.kind not in ("stmt", "if", "while", "for", "with"):
            continue
        scope_part = n.ast if n.kind == "stmt" else n.part
        for c in (calls_in(scope_part) if scope_part is not None else []):
            if call_attr(c) == "Payload" and len(c.args) + len(c.keywords) == 2:
                pargs = list(c.args) + [k.value for k in c.keywords]
                per_arg = [prov.alts(a, n.id) for a in pargs]
                bad = next((l for ls in per_arg for l in ls if l.kind not in ("message", "fresh")), None)
                ok = bad is None and all(any(l.kind == "message" for l in ls) for ls in per_arg)
                R.check(ok, r_corr, wrel, wqn, norm(c), "the job's payload is not built, inside the job body, from this message's data and context (state shared between jobs)"
                        + (f": `{norm(bad.expr)[:50]}` is bound outside the job body or not derived from the message" if bad is not None else ""), c.lineno)
                # ... and it is this message's data / context themselves: a default may stand in only for a field that is
                # None - a truthiness test (`msg.data or Default()`, `if not data: data = Default()`) also replaces an
                # *empty* data collection / context collection, and the queued job then runs on other input than the direct run
                for a, ls in zip(pargs, per_arg):
                    fields = prov.fields_read(ls)
                    bad_l = next((l for l in ls if l.kind == "fresh" and not prov.none_guarded(l, fields)), None)
                    R.check(bad_l is None, r_corr, wrel, wqn, f"Payload argument `{norm(a)[:30]}` is the message's own field (a default only for None)",
                            f"`{norm(bad_l.expr)[:70] if bad_l is not None else ''}` replaces the job's input where the message's field is not known to be None (e.g. whenever it is falsy): an empty data collection (len 0) or an empty context collection is swapped for a default object, so the job does not run on the payload that was queued",
                            getattr(bad_l.expr, "lineno", c.lineno) if bad_l is not None else c.lineno)
                    fname = next(iter(fields)) if len(fields) == 1 else ""
                    lost = handed_on_intact(repo, prov, ls, field_roots(fname, []))
                    R.check(lost is None, r_intact, wrel, wqn, f"Payload argument `{norm(a)[:30]}` is the message's `{fname}` object (or a copy that keeps its class and state)",
                            f"`{norm(lost[0])[:70] if lost else ''}` is handed to the pipeline in place of the message's {fname or 'field'}: {lost[1] if lost else ''} - the job does not run on the payload that was queued",
                            getattr(lost[0], "lineno", c.lineno) if lost else c.lineno)
            if call_attr(c) == "Pipeline" and (c.args or c.keywords):
                a = c.args[0] if c.args else c.keywords[0].value
                prov.meta_keys = []
                ls = prov.alts(a, n.id)
                ok = bool(ls) and all(l.kind == "message" for l in ls) and len(set(prov.meta_keys)) == 1
                if ok:
                    pipe_key = prov.meta_keys[0]
                R.check(ok, r_corr, wrel, wqn, norm(c), "the executed pipeline is not the one configured in this message", c.lineno)
    if pipe_key is None:
        pipe_key = "pipeline"

    def same_local(e: Optional[ast.AST], idx: Optional[int]) -> bool:
        return e is not None and idx is not None and idx < len(names) and names[idx] is not None and dotted_name(_deref(cf, e)) == names[idx]

    cp_data = kwarg(cp, "data") or (cp.args[1] if len(cp.args) > 1 else None)
    cp_ctx = _publish_context(cp)
    R.check(same_local(_only(mk.get(pipe_key)), i_pipe) and same_local(cp_data, i_data) and same_local(cp_ctx, i_ctx),
            r_corr, crel, cqn, "cfg publish carries pipeline/data/context of the same dequeued tuple", f"the cfg message mixes values of different jobs (or does not carry the pipeline under {pipe_key!r}, the key the worker reads)", cp.lineno)

    # ------------------------------------------------------------------ D5 transport hand-over
    # The property's anchors name the in-memory transport's pop-under-lock hand-over as the
    # mechanism that makes delivery of cfg/status messages exactly-once; its rules are re-applied here.
    from . import c14

    R.rule_prefix = "C15-D5/"
    n_before = len(R.instances)
    try:
        c14.run(repo, R)
    except AnalysisError as exc:
        # A violation one of the re-applied rules has already located stays a violation: a later rule that
        # no longer recognises the (changed) code must not turn the verdict into "cannot tell".
        if not any(i.verdict == "violation" for i in R.instances[n_before:]):
            raise
        R.note(f"C15-D5: re-applied C14 rules stopped early ({exc}); the violation(s) located before that are reported")
    finally:
        R.rule_prefix = ""

    # ------------------------------------------------------------------ D6 the loops' scan survives publishers
    # (the master's message loop by role: run_forever, or the function of its call graph the listen phase was moved to)
    lrel, lqn, lf = role_function(repo, Q, RUN, lambda f: bool(_message_loops(f)), "message loop over the status subscription", copyprop="all")
    scan_rule(repo, R, lf, wl, (wrel, wqn), (lrel, lqn))

    # ------------------------------------------------------------------ D7 the pending map is never walked live
    pending_walk_rule(repo, R, pend, [Q, erel, srel, crel])

    # ------------------------------------------------------------------ D8 the pending map keeps the futures
    pending_map_kind_rule(repo, R, pend, erel if "." in eqn else Q, eqn if "." in eqn else ENQ)


def globs_overlap(a: str, b: str) -> bool:
    """Some string is matched by both shell patterns (`*` and `?` interpreted, everything else literal)."""
    memo: Dict[Tuple[int, int], bool] = {}

    def go(i: int, j: int) -> bool:
        if (i, j) not in memo:
            if i == len(a):
                r = all(ch == "*" for ch in b[j:])
            elif j == len(b):
                r = all(ch == "*" for ch in a[i:])
            elif a[i] == "*":
                r = go(i + 1, j) or go(i, j + 1)
            elif b[j] == "*":
                r = go(i, j + 1) or go(i + 1, j)
            else:
                r = (a[i] == "?" or b[j] == "?" or a[i] == b[j]) and go(i + 1, j + 1)
            memo[(i, j)] = r
        return memo[(i, j)]

    return go(0, 0)


def channel_glob(fn: Optional[ast.AST], e: Optional[ast.AST], env: Optional[Dict[str, Optional[str]]] = None) -> Optional[str]:
    """The channel names an expression can denote, as a shell pattern: its template (constant / f-string / format /
    % / + spelling, a local naming it looked through) with `*` for every interpolated value; a parameter bound at
    the call site stands for what was handed over (*env*); None when the expression is not understood."""
    e = _deref(fn, e)
    if isinstance(e, ast.Name) and env is not None and e.id in env:
        return env[e.id]
    t = fstring_template(e)
    return t[0].replace("{}", "*") if t is not None else None


def publishes_under(repo: Repo, mod, fn: ast.AST, parts: List[ast.AST], env: Optional[Dict[str, Optional[str]]] = None, depth: int = 0,
                    seen: Optional[Set[int]] = None) -> List[Tuple[str, str, ast.Call, Optional[str]]]:
    """(file, function, call, channel pattern) for every `<transport>.publish(<channel>, ..)` that runs when *parts*
    (statements / expressions of *fn*, normal form) run: the calls written there and those of the repo functions
    they reach (three levels of the call graph; a channel a callee receives as a parameter is bound at the call)."""
    seen = set() if seen is None else seen
    out: List[Tuple[str, str, ast.Call, Optional[str]]] = []
    for part in parts:
        for c in calls_in(part):
            if call_attr(c) == "publish" and (c.args or kwarg(c, "channel") is not None):
                out.append((mod.rel, qualname_of(fn) if isinstance(fn, FuncNode) else "", c, channel_glob(fn, c.args[0] if c.args else kwarg(c, "channel"), env)))
                continue
            if depth >= 3:
                continue
            try:
                targets = repo.resolve_call(mod, c)
            except Exception:
                targets = []
            for tm, tn in targets:
                if not isinstance(tn, FuncNode) or id(tn) in seen or not calls_in(tn):
                    continue
                try:
                    nf = nfunc(repo, tm.rel, qualname_of(tn), copyprop="all")
                except Exception:
                    nf = tn
                params = [a.arg for a in nf.args.posonlyargs + nf.args.args]  # type: ignore[attr-defined]
                off = 1 if params and params[0] in ("self", "cls") and isinstance(c.func, ast.Attribute) else 0
                env2: Dict[str, Optional[str]] = {}
                for i, p in enumerate(params + [a.arg for a in nf.args.kwonlyargs]):  # type: ignore[attr-defined]
                    a = c.args[i - off] if off <= i < len(params) and i - off < len(c.args) else kwarg(c, p)
                    if a is not None and not any(isinstance(x, ast.Name) and x.id == p and isinstance(x.ctx, ast.Store) for x in walk_no_nested(nf)):
                        env2[p] = channel_glob(fn, a, env)
                out += publishes_under(repo, tm, nf, list(nf.body), env2, depth + 1, seen | {id(tn)})  # (the functions on the call path: no recursion)  # type: ignore[attr-defined]
    return out


def status_consumed_rule(repo: Repo, R: Report, sites: List[Tuple[str, str, ast.AST, Optional[str]]], pattern: str, awaited) -> None:
    """D9: the master is the only consumer of the jobs.<id>.status channels and takes one message per turn of its loop;
    the in-memory subscription scans the channels in creation order and hands out the first message it finds.  A status
    message is therefore taken out of the way of the ones behind it only if taking it *consumes* it.  A publish, in the
    handling of a status message, on a channel the master's own subscription matches puts a message back in front of
    the master; where that happens for a status no pending Future awaits (a fire-and-forget job - enqueue's default -
    or a duplicate) nothing ever changes the decision: job ids are unique and registered before the job is published,
    so the id never becomes pending, the message comes back on every turn, and every Future whose status channel was
    created later is never completed.  (A publish that runs only for an awaited status is an echo: the entry is
    removed in the same step and the echo is dropped when it comes back.)  *sites*: (file, function, normal form,
    local the status message is bound to - None: the function handles one message it receives)."""
    rule = R.rule("C15-D9-status-consumed-for-good", "in the handling of a status message that no pending Future awaits (from the binding of the message to the next one, callees included) the master publishes nothing on a channel "
                  "its own status subscription matches: such a message comes back on every turn of the master loop (the id never becomes pending), it is found first again by the creation-order scan, and the Futures "
                  "whose status channels were created after it never complete", 1)
    for rel, qn, fn, msg in sites:
        mod = repo.module(rel)
        g = CFG(fn)
        heads = [n.id for n in g.nodes if msg is not None and n.kind in ("for", "stmt", "with", "if", "while") and _node_defines(n, msg)]
        inside: Optional[Set[int]] = None
        for h in heads:
            a = g.nodes[h].ast
            loop = a if isinstance(a, (ast.For, ast.AsyncFor)) else next((x for x in ancestors(a) if isinstance(x, (ast.For, ast.AsyncFor, ast.While))), None)
            if loop is not None and any(loop is x for x in ast.walk(fn)):
                inside = (inside or set()) | {id(x) for x in ast.walk(loop)}
        if heads:
            starts = [t for h in heads for t, lab in g.succ[h] if lab not in (EXC, BASE) and not (g.nodes[h].kind == "for" and lab == "F")]
        else:
            starts = [g.entry]
        off_limits = set(heads) | {n.id for n in g.nodes if n.ast is None or (inside is not None and id(n.ast) not in inside)}
        starts = [s for s in starts if s not in off_limits]
        guard_edges = {(n.id, lab) for n in g.nodes if n.kind in ("if", "while") and n.part is not None for lab in edges_guaranteeing(n.part, awaited)}
        region = set(g.reach(starts, blocked=off_limits))
        unawaited = g.reach(starts, blocked=off_limits, blocked_edges=guard_edges)
        n_pubs = n_bad = 0
        for nid in sorted(region):
            n = g.nodes[nid]
            consulted_before = set(repo.consulted)
            found = publishes_under(repo, mod, fn, _node_parts(n))
            repo.consulted = consulted_before | {prel for prel, _q, _c, _g in found}  # only the modules a publish was found in are consulted
            for prel, pqn, c, glob in found:
                n_pubs += 1
                where = f"{norm(c)[:70]}" + (f" [in {pqn}]" if (prel, pqn) != (rel, qn) and pqn else "")
                if glob is None:
                    raise AnalysisError(f"{qn}: channel of `{norm(c)[:60]}`, published while a status message is handled, not understood")
                if not globs_overlap(glob, pattern):
                    continue
                if nid in unawaited:
                    n_bad += 1
                    R.violation(rule, rel, qn, where + f" ~ subscribe({pattern!r})",
                                f"while handling a status message that no pending Future awaits the master publishes on `{glob}`, a channel its own subscription `{pattern}` matches: the message is back in the "
                                "transport when the master looks next, its job id never becomes pending (ids are unique and registered before the job is published), so it is re-published on every turn; the "
                                "subscription scans the channels in creation order and the master takes one message per turn - every Future whose status channel was created after this one is never completed",
                                getattr(c, "lineno", n.line), g.path_to(unawaited, nid) if hasattr(g, "path_to") else None)
                else:
                    R.ok(rule, rel, qn, where + " [echo of an awaited status only]", "", getattr(c, "lineno", n.line))
        if n_bad == 0:
            R.ok(rule, rel, qn, f"{n_pubs} publish(es) while a status message is handled, none for an un-awaited status on a channel matching `{pattern}`", "", g.nodes[heads[0]].line if heads else getattr(fn, "lineno", 0))


def _message_loops(fn: ast.AST) -> List[ast.AST]:
    """Loops of *fn* that drain a subscription: a for statement whose iterable is `<x>.subscribe(...)` or a local
    bound to it (possibly under enumerate / iter / zip), or a while loop that takes `next(<it>)` of such an iterator."""
    def is_sub(e: Optional[ast.AST], depth: int = 0) -> bool:
        e = _unwrap_iter(e) if e is not None else None
        if isinstance(e, ast.Name) and depth < 3:
            vals = assigned_value(fn, e.id)
            return bool(vals) and all(is_sub(v, depth + 1) for v in vals)
        return isinstance(e, ast.Call) and call_attr(e) == "subscribe"

    out: List[ast.AST] = []
    for n in walk_no_nested(fn):
        if isinstance(n, ast.For) and is_sub(n.iter):
            out.append(n)
        elif isinstance(n, ast.While):
            nexts = [c for c in ast.walk(n) if isinstance(c, ast.Call) and isinstance(c.func, ast.Name) and c.func.id == "next" and c.args and is_sub(c.args[0])]
            inner = [l for l in ast.walk(n) if isinstance(l, (ast.For, ast.While)) and l is not n]
            if any(not any(c is x for l in inner for x in ast.walk(l)) for c in nexts):
                out.append(n)
    return out


def _catches_exception(loop: ast.AST, fn: ast.AST) -> bool:
    prev = loop
    for a in ancestors(loop):
        if a is fn:
            break
        if isinstance(a, ast.Try) and any(prev is st for st in a.body):
            for h in a.handlers:
                names = [h.type] if h.type is not None and not isinstance(h.type, ast.Tuple) else (h.type.elts if h.type is not None else [])
                if h.type is None or any((dotted_name(t) or "").split(".")[-1] in ("Exception", "BaseException", "RuntimeError") for t in names):
                    return True
        prev = a
    return False


def scan_rule(repo: Repo, R: Report, rf: ast.AST, wl: ast.AST, worker: Tuple[str, str] = (W, "worker_loop"), master: Tuple[str, str] = (Q, "QueueSemantivaOrchestrator.run_forever")) -> None:
    """D6: the master's and the workers' message loops run the transport's channel scan inside `for msg in sub`.
    Every job creates two new channels (jobs.<id>.cfg / jobs.<id>.status) from other threads, so a scan that walks
    the live channel map raises `RuntimeError: dictionary changed size during iteration` in the looping thread;
    run_forever has no handler there (the master dies, no pending Future ever completes) and worker_loop's
    catch-all ends the worker.  Necessary condition: every iteration over the shared channel map is over a
    snapshot taken in one C-level call, or holds the lock under which every insertion happens."""
    r_scan = R.rule("C15-D6-scan-survives-publishers", "every iteration over the channel map shared between the transport and its subscriptions (the scan driven by the master's and the workers' `for msg in sub`) is over a one-call snapshot (list/tuple/sorted/.copy()) or under the lock held by every insertion; a live walk raises RuntimeError when another thread publishes on a new channel and kills the loop that completes the futures", 1)
    loops = [(master[0], master[1], rf, l) for l in _message_loops(rf)] + [(worker[0], worker[1], wl, l) for l in _message_loops(wl)]
    if len(loops) < 2:
        raise AnalysisError("message loops over a subscription not found in run_forever / worker_loop")
    unprotected = [qn for _f, qn, fn, l in loops if not _catches_exception(l, fn)]
    consequence = ("; " + ", ".join(sorted(set(unprotected))) + " has no handler around its message loop: the thread dies and no pending Future is ever completed") if unprotected else "; the loop's catch-all ends the thread silently"

    tmod = repo.module(T)
    classes = {qn: c for qn, c in tmod.defs.items() if isinstance(c, ast.ClassDef) and "." not in qn}

    def init_of(c: ast.ClassDef) -> Optional[ast.FunctionDef]:
        return next((st for st in c.body if isinstance(st, ast.FunctionDef) and st.name == "__init__"), None)

    def self_attr_assigns(fn: ast.AST):
        for st in walk_no_nested(fn):
            tgt = val = None
            if isinstance(st, ast.Assign) and len(st.targets) == 1:
                tgt, val = st.targets[0], st.value
            elif isinstance(st, ast.AnnAssign) and st.value is not None:
                tgt, val = st.target, st.value
            d = dotted_name(tgt) if tgt is not None else None
            if d and d.startswith("self.") and d.count(".") == 1:
                yield d[5:], val

    # maps / locks created by a class for itself
    own_maps: Dict[str, Dict[str, ast.AST]] = {}
    own_locks: Dict[str, Set[str]] = {}
    for cn, c in classes.items():
        ini = init_of(c)
        if ini is None:
            continue
        for attr, val in self_attr_assigns(ini):
            if isinstance(val, (ast.Dict, ast.DictComp)) or (isinstance(val, ast.Call) and (call_name(val) or "").split(".")[-1] in DICT_CTORS):
                own_maps.setdefault(cn, {})[attr] = val
            elif isinstance(val, ast.Call) and (call_name(val) or "").split(".")[-1] in ("Lock", "RLock"):
                own_locks.setdefault(cn, set()).add(attr)
    # attributes of other classes that alias them (handed over at construction)
    alias: Dict[str, Dict[str, Tuple[str, str]]] = {}  # class -> attr -> (owner class, owner attr)
    for cn, c in classes.items():
        for fn in [n for n in ast.walk(c) if isinstance(n, FuncNode)]:
            for call in calls_in(fn, include_nested=False):
                kn = (call_name(call) or "").split(".")[-1]
                k = classes.get(kn)
                kin = init_of(k) if k is not None else None
                if kin is None:
                    continue
                kparams = [a.arg for a in kin.args.args][1:]
                bound: Dict[str, ast.AST] = {p: a for p, a in zip(kparams, call.args)}
                bound.update({kw.arg: kw.value for kw in call.keywords if kw.arg})
                for p, a in bound.items():
                    d = dotted_name(_deref(fn, a))
                    if d and d.startswith("self.") and (d[5:] in own_maps.get(cn, {}) or d[5:] in own_locks.get(cn, set())):
                        for attr, val in self_attr_assigns(kin):
                            if isinstance(val, ast.Name) and val.id == p:
                                alias.setdefault(kn, {})[attr] = (cn, d[5:])
    shared_maps: Dict[str, Dict[str, Tuple[str, str]]] = {}  # class -> attr -> (owner, attr) for maps seen by more than one class
    for kn, m in alias.items():
        for attr, (cn, oattr) in m.items():
            if oattr in own_maps.get(cn, {}):
                shared_maps.setdefault(kn, {})[attr] = (cn, oattr)
                shared_maps.setdefault(cn, {})[oattr] = (cn, oattr)
    if not shared_maps:
        raise AnalysisError("in_memory transport: channel map shared between transport and subscription not found")

    def locks_held_at(node: ast.AST, cn: str) -> Set[Tuple[str, str]]:
        """(owner class, owner lock attribute) of every `with self.<lock>` enclosing *node*."""
        out: Set[Tuple[str, str]] = set()
        for a in ancestors(node):
            if isinstance(a, ast.With):
                for it in a.items:
                    d = dotted_name(it.context_expr)
                    if d and d.startswith("self."):
                        if d[5:] in own_locks.get(cn, set()):
                            out.add((cn, d[5:]))
                        elif d[5:] in alias.get(cn, {}):
                            out.add(alias[cn][d[5:]])
        return out

    # insertion sites of each shared map and the locks common to all of them
    insert_locks: Dict[Tuple[str, str], Optional[Set[Tuple[str, str]]]] = {}
    for cn, amap in shared_maps.items():
        for fn in [n for n in ast.walk(classes[cn]) if isinstance(n, FuncNode) and n.name != "__init__"]:
            for n in walk_no_nested(fn):
                key = None
                if isinstance(n, ast.Subscript):
                    d = dotted_name(n.value)
                    if d and d.startswith("self.") and d[5:] in amap:
                        owner = amap[d[5:]]
                        ctor = own_maps[owner[0]][owner[1]]
                        is_dd = isinstance(ctor, ast.Call) and (call_name(ctor) or "").endswith("defaultdict")
                        if isinstance(n.ctx, ast.Store) or is_dd:
                            key = owner
                elif isinstance(n, ast.Call) and isinstance(n.func, ast.Attribute) and n.func.attr in ("setdefault", "update", "__setitem__"):
                    d = dotted_name(n.func.value)
                    if d and d.startswith("self.") and d[5:] in amap:
                        key = amap[d[5:]]
                if key is not None:
                    held = locks_held_at(n, cn)
                    insert_locks[key] = held if insert_locks.get(key) is None else (insert_locks[key] & held)  # type: ignore[operator]
    if not insert_locks:
        raise AnalysisError("in_memory transport: no insertion into the shared channel map found (publish)")

    def consumers(x: ast.AST, fn: ast.AST, seen: Set[str]) -> List[Tuple[str, ast.AST]]:
        """How the live map - or a live view / lazy iterator over it - that the expression *x* denotes is consumed,
        followed upwards through the expression and through the locals it is bound to (uses the binding reaches):
        [('walk', site)] where Python code runs between two steps of the map's iterator (for statement,
        comprehension, `yield from`, `next` on a kept iterator), [('snapshot', site)] where it is copied inside one
        C-level call; single-key operations, len / in / bool are no traversal at all."""
        p = parent(x)
        if isinstance(p, ast.Attribute) and p.value is x:
            pp = parent(p)
            if isinstance(pp, ast.Call) and pp.func is p and not pp.args:
                if p.attr in ("items", "keys", "values"):
                    return consumers(pp, fn, seen)
                if p.attr == "copy":
                    return [("snapshot", pp)]
            return []
        if isinstance(p, ast.Starred):
            pp = parent(p)
            if isinstance(pp, (ast.List, ast.Tuple, ast.Set)):
                return [("snapshot", pp)]
            x, p = p, pp
        if isinstance(p, ast.keyword):
            x, p = p, parent(p)
        if isinstance(p, ast.Call) and p.func is not x:
            name = (call_name(p) or "").split(".")[-1]
            if name in SNAPSHOT_FUNCS:
                return [("snapshot", p)]
            if name == "next":
                return [] if isinstance(x, ast.Call) else [("walk", p)]  # one step on a fresh iterator is a single operation
            if name in LAZY_WRAPPERS or (call_name(p) or "").startswith("itertools."):
                return consumers(p, fn, seen)
            if name in CALLBACK_WALKERS and (kwarg(p, "key") is not None):
                return [("walk", p)]
            return []
        if isinstance(p, (ast.For, ast.AsyncFor, ast.comprehension)) and p.iter is x:
            return [("walk", p)]
        if isinstance(p, ast.YieldFrom):
            return [("walk", p)]
        if isinstance(p, ast.BoolOp) or (isinstance(p, ast.IfExp) and p.test is not x):
            return consumers(p, fn, seen)
        tgt = None
        if isinstance(p, ast.Assign) and p.value is x and len(p.targets) == 1:
            tgt = p.targets[0]
        elif isinstance(p, (ast.AnnAssign, ast.NamedExpr)) and p.value is x:
            tgt = p.target
        if isinstance(tgt, ast.Name) and tgt.id not in seen:
            g = _plain_cfg(fn)
            here = _node_of(g, x)
            out: List[Tuple[str, ast.AST]] = []
            for u in walk_no_nested(fn):
                if isinstance(u, ast.Name) and u.id == tgt.id and isinstance(u.ctx, ast.Load):
                    at = _node_of(g, u)
                    if at is None or here is None or isinstance(p, ast.NamedExpr) or any(d.id == here for d in reaching_defs(g, tgt.id, at)):
                        out += consumers(u, fn, seen | {tgt.id})
            return out
        return []

    done: Set[int] = set()
    for cn in sorted(shared_maps):
        amap = shared_maps[cn]
        for fn in [n for n in ast.walk(classes[cn]) if isinstance(n, FuncNode)]:
            for x in walk_no_nested(fn):
                d = dotted_name(x) if isinstance(x, ast.Attribute) and isinstance(x.ctx, ast.Load) else None
                if not (d and d.startswith("self.") and d[5:] in amap):
                    continue
                owner = amap[d[5:]]
                common = insert_locks.get(owner)
                for kind, site in consumers(x, fn, set()):
                    if id(site) in done:
                        continue
                    done.add(id(site))
                    if isinstance(site, (ast.For, ast.AsyncFor, ast.comprehension)):
                        shown, text = site.iter, "for ... in " + norm(site.iter)[:100]
                    elif isinstance(parent(site), (ast.For, ast.AsyncFor, ast.comprehension)) and parent(site).iter is site:  # type: ignore[union-attr]
                        shown, text = site, "for ... in " + norm(site)[:100]
                    else:
                        shown, text = site, norm(site)[:110]
                    locked = kind == "walk" and bool(common) and bool(locks_held_at(shown, cn) & common)  # type: ignore[operator]
                    R.check(kind == "snapshot" or locked, r_scan, T, qualname_of(fn), text,
                            "the scan walks the live channel map shared with publishers: a publish on a new channel from another thread raises RuntimeError (dictionary changed size during iteration) inside `for msg in sub`" + consequence,
                            getattr(shown, "lineno", 0))


MAP_MUTATORS = {"pop", "popitem", "clear", "setdefault", "update", "__setitem__", "__delitem__"}
LAZY_WRAPPERS = {"enumerate", "zip", "iter", "reversed", "map", "filter"}
CALLBACK_WALKERS = {"map", "filter", "min", "max", "reduce"}  # call Python code per element while they walk the iterable


def pending_walk_rule(repo: Repo, R: Report, pend: str, rels: List[str]) -> None:
    """D7: the pending map (job id -> Future) is written by enqueue() on the callers' threads while the master
    thread reads it in run_forever; nothing but the GIL orders the two.  Single dict operations (store, `in`,
    subscript, del, pop, one-call snapshots like list(d.items())) are atomic; a *traversal* that runs Python
    code between two steps of the dict iterator (for statement, comprehension, map/filter/min/max with a
    callback) is not: an enqueue (or a removal) landing inside it raises `RuntimeError: dictionary changed size
    during iteration` in the traversing thread.  In run_forever that ends the master - no Future that is still
    pending, jobs already running on workers included, is ever completed.  Necessary condition: every
    traversal of the pending map is over a one-call snapshot, or holds a lock that every mutation of the map
    holds as well (and does not itself change the map's size while walking it).

    The map is found by role (*pend*: where enqueue registers the Future it returns); it is followed through
    locals, `.items()/.keys()/.values()` views, lazy wrappers and parameters of the functions it is handed to."""
    r_walk = R.rule("C15-D7-pending-map-walk", "every traversal of the pending-futures map (shared between enqueue on the callers' threads and the master loop) that runs Python code between two steps - for statement, comprehension, map/filter/min/max with a callback - is over a one-call snapshot (list/tuple/sorted/dict/.copy()) or under a lock that every mutation of the map holds; a live walk raises RuntimeError (dictionary changed size during iteration) when a job is enqueued meanwhile, the master loop dies and no pending Future ever completes", 1)
    attr = pend.split(".")[-1]
    dotted = "." in pend

    scope: Dict[int, Tuple[object, ast.AST]] = {}
    for rel in dict.fromkeys(rels):
        m = repo.module(rel)
        for node in m.defs.values():
            if isinstance(node, FuncNode):
                scope[id(node)] = (m, node)
    map_params: Dict[int, Set[str]] = {}
    view_params: Dict[int, Set[str]] = {}
    bound_at: Dict[int, List[ast.Call]] = {}

    def bindings_of(fn: ast.AST, nm: str) -> List[Optional[ast.AST]]:
        return [v for st in walk_no_nested(fn) for n2, v in _bindings(st) if n2 == nm]

    def is_map(e: Optional[ast.AST], fn: ast.AST, depth: int = 0) -> bool:
        """*e* denotes the pending map object itself."""
        if e is None or depth > 3:
            return False
        if isinstance(e, ast.Attribute):
            return dotted and e.attr == attr and dotted_name(e) is not None
        if isinstance(e, ast.Name):
            if e.id in map_params.get(id(fn), set()):
                return True
            if not dotted and e.id == pend:
                return True
            vals = bindings_of(fn, e.id)
            return bool(vals) and all(v is not None and is_map(v, fn, depth + 1) for v in vals)
        return False

    def live(e: Optional[ast.AST], fn: ast.AST, depth: int = 0) -> bool:
        """Iterating *e* steps through the live map (not through a copy made in one C-level call)."""
        if e is None or depth > 4:
            return False
        if is_map(e, fn):
            return True
        if isinstance(e, ast.Starred):
            return live(e.value, fn, depth + 1)
        if isinstance(e, ast.Name):
            if e.id in view_params.get(id(fn), set()):
                return True
            vals = bindings_of(fn, e.id)
            return bool(vals) and all(v is not None and live(v, fn, depth + 1) for v in vals)
        if isinstance(e, ast.Call):
            if isinstance(e.func, ast.Attribute) and e.func.attr in ("items", "keys", "values") and not e.args:
                return is_map(e.func.value, fn)
            d = (call_name(e) or "")
            if d.split(".")[-1] in LAZY_WRAPPERS or d.startswith("itertools."):
                return any(live(a, fn, depth + 1) for a in e.args)
        return False

    # parameters bound to the map / to a live view of it at a call site (followed into the callee, any module)
    for _ in range(3):
        for m, fn in list(scope.values()):
            for c in calls_in(fn):
                args = [(i, None, a) for i, a in enumerate(c.args)] + [(None, k.arg, k.value) for k in c.keywords if k.arg]
                hits = [(i, k, a, is_map(a, fn)) for i, k, a in args if is_map(a, fn) or live(a, fn)]
                if not hits:
                    continue
                for tm, tn in repo.resolve_call(m, c):  # type: ignore[arg-type]
                    if not isinstance(tn, FuncNode):
                        continue
                    params = [a.arg for a in tn.args.posonlyargs + tn.args.args]
                    off = 1 if params and params[0] in ("self", "cls") and (isinstance(c.func, ast.Attribute) or tn.name == "__init__") else 0
                    for i, k, _a, whole in hits:
                        p = k if k is not None else (params[i + off] if i + off < len(params) else None)
                        if p is None or p not in params + [a.arg for a in tn.args.kwonlyargs]:
                            continue
                        if id(tn) not in scope:
                            scope[id(tn)] = (tm, tn)
                            repo.consulted.add(tm.rel)
                        (map_params if whole else view_params).setdefault(id(tn), set()).add(p)
                        if not any(c is x for x in bound_at.setdefault(id(tn), [])):
                            bound_at[id(tn)].append(c)

    def own_function(node: ast.AST) -> Optional[ast.AST]:
        return next((a for a in ancestors(node) if isinstance(a, FuncNode)), None)

    def with_locks(node: ast.AST) -> Set[str]:
        out: Set[str] = set()
        for a in ancestors(node):
            if isinstance(a, (ast.With, ast.AsyncWith)):
                for it in a.items:
                    d = dotted_name(it.context_expr)
                    if d:
                        out.add(d.split(".")[-1])
            elif isinstance(a, FuncNode):
                break
        return out

    def locks_held(node: ast.AST, fn: ast.AST) -> Set[str]:
        """Locks (by attribute name) held at *node*: the enclosing `with` statements, plus, where the function
        works on the map through a parameter, those every call site binding that parameter holds."""
        held = with_locks(node)
        sites = bound_at.get(id(fn))
        if sites:
            common: Optional[Set[str]] = None
            for c in sites:
                h = with_locks(c)
                common = h if common is None else (common & h)
            held |= common or set()
        return held

    def mutation(n: ast.AST, fn: ast.AST) -> bool:
        if isinstance(n, ast.Subscript) and isinstance(n.ctx, (ast.Store, ast.Del)):
            return is_map(n.value, fn)
        if isinstance(n, ast.Call) and isinstance(n.func, ast.Attribute) and n.func.attr in MAP_MUTATORS:
            return is_map(n.func.value, fn)
        return False

    walks: List[Tuple[object, ast.AST, ast.AST, ast.AST]] = []  # (module, function, traversal node, iterated expression)
    mutations: List[Tuple[ast.AST, ast.AST]] = []
    for m, fn in scope.values():
        for n in ast.walk(fn):
            if own_function(n) is not fn and n is not fn:
                continue  # belongs to a nested def: analysed as a function of its own
            if fn.name != "__init__" and mutation(n, fn):  # type: ignore[attr-defined]
                mutations.append((n, fn))
            if isinstance(n, (ast.For, ast.AsyncFor, ast.comprehension)) and live(n.iter, fn):
                walks.append((m, fn, n, n.iter))
            elif isinstance(n, ast.Call) and (call_name(n) or "").split(".")[-1] in CALLBACK_WALKERS:
                nm = (call_name(n) or "").split(".")[-1]
                fargs = [a for a in n.args if not (isinstance(a, ast.Constant) and a.value is None)]
                has_callback = kwarg(n, "key") is not None if nm in ("min", "max") else len(fargs) >= 2
                it_args = n.args if nm in ("min", "max") else n.args[1:]
                if has_callback and any(live(a, fn) for a in it_args):
                    walks.append((m, fn, n, next(a for a in it_args if live(a, fn))))
    common_locks: Optional[Set[str]] = None
    for n, fn in mutations:
        h = locks_held(n, fn)
        common_locks = h if common_locks is None else (common_locks & h)
    for m, fn, n, it in walks:
        held = locks_held(n if not isinstance(n, ast.comprehension) else it, fn)
        body = [x for st in (n.body + n.orelse) for x in ast.walk(st)] if isinstance(n, (ast.For, ast.AsyncFor)) else []
        resizes = any(mutation(x, fn) and not (isinstance(x, ast.Subscript) and isinstance(x.ctx, ast.Store)) for x in body)
        ok = bool(common_locks) and bool(held & common_locks) and not resizes  # type: ignore[operator]
        text = ("for ... in " if not isinstance(n, ast.Call) else "") + norm(it if not isinstance(n, ast.Call) else n)[:100]
        R.check(ok, r_walk, m.rel, qualname_of(fn), text,  # type: ignore[attr-defined]
                f"the pending-futures map `{pend}` is traversed live (Python code runs between two steps of the dict iterator) while enqueue() stores into it from the callers' threads"
                + (" and the loop body itself removes entries" if resizes else "")
                + ": an enqueue that lands inside the traversal raises RuntimeError (dictionary changed size during iteration) in the traversing thread; "
                "in the master loop that ends run_forever and no Future still pending - jobs already running included - is ever completed. "
                "Traverse a one-call snapshot (list(d.items())) or hold one lock here and at every store/removal", getattr(it, "lineno", 0))
    if not walks:
        R.ok(r_walk, Q, "QueueSemantivaOrchestrator", f"`{pend}` is never traversed ({len(mutations)} single-step mutation(s), {len(scope)} function(s) looked at)", "", 0)


def _node_parts(n) -> List[ast.AST]:
    """The expressions / statement evaluated at a CFG node (not the bodies of a compound statement)."""
    a = n.ast
    if a is None:
        return []
    if n.kind == "stmt":
        return [] if isinstance(a, FuncNode + (ast.ClassDef,)) else [a]
    if n.kind == "for" and isinstance(a, (ast.For, ast.AsyncFor)):
        return [a.iter, a.target]
    if n.kind == "with" and isinstance(a, (ast.With, ast.AsyncWith)):
        return [it.context_expr for it in a.items] + [it.optional_vars for it in a.items if it.optional_vars is not None]
    if n.kind == "except":
        return [a.type] if isinstance(a, ast.ExceptHandler) and a.type is not None else []
    return [n.part] if n.part is not None else []


def _comprehension_names(part: ast.AST) -> Set[int]:
    """ids of the Name nodes inside *part* that belong to a comprehension's own scope (its targets and their uses)."""
    out: Set[int] = set()
    for c in walk_no_nested(part):
        if isinstance(c, (ast.ListComp, ast.SetComp, ast.DictComp, ast.GeneratorExp)):
            bound = {x.id for gen in c.generators for x in ast.walk(gen.target) if isinstance(x, ast.Name)}
            out |= {id(x) for x in ast.walk(c) if isinstance(x, ast.Name) and x.id in bound}
    return out


def _node_defines(n, name: str) -> bool:
    """The node binds the local *name*: assignment (tuple targets, augmented, annotated with a value), for / with /
    except target, assignment expression, def / class / import of that name."""
    a = n.ast
    if a is None:
        return False
    if n.kind == "except":
        return isinstance(a, ast.ExceptHandler) and a.name == name
    if n.kind == "stmt":
        if isinstance(a, FuncNode + (ast.ClassDef,)):
            return a.name == name
        if isinstance(a, ast.AnnAssign) and a.value is None:
            return False
        if isinstance(a, (ast.Import, ast.ImportFrom)):
            return any((al.asname or al.name.split(".")[0]) == name for al in a.names)
    return any(isinstance(x, ast.Name) and x.id == name and isinstance(x.ctx, ast.Store) and id(x) not in _comprehension_names(part) for part in _node_parts(n) for x in walk_no_nested(part))


def _node_reads(n) -> Set[str]:
    if n.kind == "stmt" and isinstance(n.ast, ast.AugAssign) and isinstance(n.ast.target, ast.Name):
        return {n.ast.target.id} | {x.id for x in walk_no_nested(n.ast.value) if isinstance(x, ast.Name) and isinstance(x.ctx, ast.Load)}
    return {x.id for part in _node_parts(n) for x in walk_no_nested(part) if isinstance(x, ast.Name) and isinstance(x.ctx, ast.Load) and id(x) not in _comprehension_names(part)}


def carried_over_reads(g: CFG, msg: str, is_sink) -> Tuple[List[int], List[Tuple[str, int, List[int]]], int]:
    """Per-message freshness, decided on the CFG of the function that takes the messages one by one (*msg*: the
    local the message is bound to; *is_sink*: the nodes that act on it - complete a Future, publish a status).
    Starting from the names read by the sinks and by every branch test that decides which sinks (and which of the
    assignments feeding them) are reached - a test both outcomes of which lead to the same ones decides nothing -
    and following each name back through the assignments that can give it its value, a read
    is *carried over* when the name is assigned somewhere in the message loop (so it is not a loop invariant) and
    yet a path leads from the binding of this message to the read without passing any assignment of it (an
    assignment that raises has not assigned): the value is then whatever an earlier message - another job - or
    the code before the loop left in the local.  Returns (binding nodes, [(name, reading node, path)], number of
    reads examined)."""
    heads = [n.id for n in g.nodes if n.kind in ("for", "stmt", "with", "if", "while") and _node_defines(n, msg)]
    if not heads:
        return [], [], 0
    # the loop the messages are taken in: the innermost loop statement around (or at) each binding
    inside: Set[int] = set()
    for h in heads:
        a = g.nodes[h].ast
        loop = a if isinstance(a, (ast.For, ast.AsyncFor)) else next((x for x in ancestors(a) if isinstance(x, (ast.For, ast.AsyncFor, ast.While))), None)
        if loop is not None:
            inside |= {id(x) for x in ast.walk(loop)}
    if not inside:
        return heads, [], 0  # the message is not taken in a loop: nothing outlives it

    def starts_of(h: int) -> List[int]:
        return [t for t, lab in g.succ[h] if lab not in (EXC, BASE) and not (g.nodes[h].kind == "for" and lab == "F")]

    # the handling of one message: from its binding up to the next binding
    region: Set[int] = set()
    todo = [t for h in heads for t in starts_of(h)]
    while todo:
        n = todo.pop()
        if n in region or n in heads:
            continue
        region.add(n)
        todo += [t for t, _l in g.succ[n]]
    sinks = {n for n in region if is_sink(g.nodes[n])}
    # what matters: the sinks, the assignments their values come from, and the branch tests that decide which of
    # those are reached (a test both outcomes of which lead to the same sinks and assignments decides nothing)
    reach_memo: Dict[int, Set[int]] = {}

    def reach_in_region(n: int) -> Set[int]:
        if n not in reach_memo:
            got: Set[int] = set()
            todo2 = [n]
            while todo2:
                k = todo2.pop()
                if k in got or k not in region:
                    continue
                got.add(k)
                todo2 += [t for t, _l in g.succ[k]]
            reach_memo[n] = got
        return reach_memo[n]

    relevant: Set[int] = set(sinks)
    judged: Set[int] = set()
    work: List[Tuple[str, int]] = [(x, n) for n in sorted(sinks) for x in sorted(_node_reads(g.nodes[n]))]

    def deciding_branches() -> List[int]:
        out_b = []
        for n in sorted(region - judged):
            node = g.nodes[n]
            if node.kind not in ("if", "while", "for"):
                continue
            per_edge = [frozenset(reach_in_region(t) & relevant) for t, lab in g.succ[n] if lab in ("T", "F")]
            if len(per_edge) == 2 and per_edge[0] != per_edge[1]:
                out_b.append(n)
        return out_b

    defs_of: Dict[str, List[int]] = {}
    seen: Set[Tuple[str, int]] = set()
    out: List[Tuple[str, int, List[int]]] = []
    while True:
        if not work:
            fresh_b = deciding_branches()
            if not fresh_b:
                break
            for b in fresh_b:
                judged.add(b)
                work += [(x, b) for x in sorted(_node_reads(g.nodes[b]))]
            continue
        x, u = work.pop()
        if (x, u) in seen or x == msg:
            continue
        seen.add((x, u))
        if x not in defs_of:
            defs_of[x] = [n.id for n in g.nodes if _node_defines(n, x)]
        dn = defs_of[x]
        inner = [d for d in dn if g.nodes[d].ast is not None and id(g.nodes[d].ast) in inside]
        if not inner or any(h in dn for h in heads):
            continue  # never assigned in the loop (a loop invariant / parameter / global), or bound together with the message
        walrus_here = any(isinstance(y, ast.NamedExpr) and isinstance(y.target, ast.Name) and y.target.id == x for part in _node_parts(g.nodes[u]) for y in walk_no_nested(part))
        # a path from the binding of this message to the read that passes no assignment of x
        prev: Dict[int, Optional[int]] = {}
        todo = []
        for h in heads:
            for t in starts_of(h):
                if t not in prev:
                    prev[t] = None
                    todo.append(t)
        hit = False
        while todo and not hit and not walrus_here:
            n = todo.pop(0)
            if n == u:
                hit = True
                break
            if n in heads:
                continue
            for t, lab in g.succ[n]:
                if n in dn and lab not in (EXC, BASE):
                    continue  # the assignment took place
                if t not in prev:
                    prev[t] = n
                    todo.append(t)
        if hit:
            path: List[int] = []
            cur: Optional[int] = u
            while cur is not None and len(path) < 10000:
                path.append(cur)
                cur = prev.get(cur)
            out.append((x, u, list(reversed(path))))
        # the values x can have at u come from these assignments: what they read has to be this message's too
        for d in inner:
            if d == u and not walrus_here:
                continue
            blocked = {o for o in dn if o != d and o != u}
            if u in g.reach([t for t, lab in g.succ[d] if lab not in (EXC, BASE)], blocked=blocked) or d == u:
                relevant.add(d)
                work += [(y, d) for y in sorted(_node_reads(g.nodes[d])) if y != x or isinstance(g.nodes[d].ast, ast.AugAssign)]
    return heads, out, len(seen)


STRONG_MAPS = {"dict", "collections.defaultdict", "collections.OrderedDict", "collections.UserDict", "defaultdict", "OrderedDict", "UserDict"}


def pending_map_kind_rule(repo: Repo, R: Report, pend: str, erel: str, eqn: str) -> None:
    """D8: between enqueue() and the status message the pending map is the orchestrator's only reference to the
    Future it handed out, and the only way from a job id back to it.  The caller is free to drop its own reference
    (`enqueue(.., return_future=True).add_done_callback(cb)`), so the map has to *own* its entries: a mapping that
    holds its values (or keys) weakly, or that evicts entries on its own (bounded / expiring caches), loses the
    Future of a job that is still running - the status then finds no entry, the Future never completes, its
    callbacks never run; and an entry that can vanish between the master's membership test and its subscript kills
    the master loop with KeyError.  Necessary condition: every object bound to the pending-map attribute is a
    plain strong mapping (dict display / comprehension, dict, defaultdict, OrderedDict, a repo class derived from
    one of them).  The attribute is found by role (*pend*: where enqueue registers the Future it returns)."""
    rule = R.rule("C15-D8-pending-map-owns-futures", "every object bound to the pending-futures map (the attribute in which enqueue registers the Future it returns) is a plain strong mapping - dict display / dict / defaultdict / OrderedDict or a class derived from them - that keeps an entry until the master removes it; a weak-value / weak-key mapping or a self-evicting cache drops the Future of a running job as soon as the caller holds no other reference, and that job's Future never completes", 1)
    if "." not in pend:
        raise AnalysisError(f"pending map `{pend}` is not an attribute: its construction is not understood")
    attr = pend.split(".")[-1]
    mod = repo.module(erel)
    cls_qn = eqn.rsplit(".", 1)[0] if "." in eqn else None
    owners = [(mod, cls_qn)] if cls_qn else []
    if cls_qn and isinstance(mod.defs.get(cls_qn), ast.ClassDef):
        owners += [(m, qualname_of(c)) for m, c in repo.mro(mod, mod.defs[cls_qn])[1:]] + [(m, qualname_of(c)) for m, c in repo.subclasses(mod.defs[cls_qn])]  # type: ignore[arg-type]

    def external(m, f: ast.AST) -> Optional[str]:
        d = dotted_name(f)
        if d is None:
            return None
        head, _, rest = d.partition(".")
        tgt = m.imports.get(head)
        return (tgt + ("." + rest if rest else "")) if tgt else d

    def verdict(m, fn: ast.AST, v: Optional[ast.AST], depth: int = 0) -> Tuple[Optional[bool], str]:
        """(True strong / False loses entries / None not understood, reason)."""
        if v is None or depth > 4:
            return None, "value not understood"
        if isinstance(v, (ast.Dict, ast.DictComp)):
            return True, ""
        if isinstance(v, ast.IfExp):
            a, b = verdict(m, fn, v.body, depth + 1), verdict(m, fn, v.orelse, depth + 1)
            return (a if a[0] is not True else b)
        if isinstance(v, ast.BoolOp):
            rs = [verdict(m, fn, x, depth + 1) for x in v.values]
            return next((r for r in rs if r[0] is False), next((r for r in rs if r[0] is None), rs[0]))
        if isinstance(v, ast.NamedExpr):
            return verdict(m, fn, v.value, depth + 1)
        if isinstance(v, ast.Name):
            vals = [b for st in walk_no_nested(fn) for nm, b in _bindings(st) if nm == v.id]
            if vals and all(b is not None for b in vals):
                rs = [verdict(m, fn, b, depth + 1) for b in vals]
                return next((r for r in rs if r[0] is False), next((r for r in rs if r[0] is None), rs[0]))
            return None, f"`{v.id}` is not bound to a mapping built here"
        if isinstance(v, ast.Call):
            r = repo.resolve_name(m, v.func, v) if isinstance(v.func, (ast.Name, ast.Attribute)) else None
            if r is not None and isinstance(r[1], ast.ClassDef):
                for bm, bc in repo.mro(r[0], r[1]):
                    for b in bc.bases:
                        e = external(bm, b)
                        if e and (e.startswith("weakref.") or e.split(".")[-1].startswith("Weak")):
                            return False, f"class {r[1].name} derives from {e}, which holds its entries weakly"
                        if e in STRONG_MAPS or e in ("typing.Dict", "Dict"):
                            return True, ""
                return None, f"class {r[1].name} is not derived from a built-in mapping"
            e = external(m, v.func)
            if e is None:
                return None, "constructor not understood"
            last = e.split(".")[-1]
            if e.startswith("weakref.") or last.startswith("Weak"):
                return False, f"{e} holds its {'values' if 'Value' in last else 'keys' if 'Key' in last else 'entries'} weakly: an entry disappears as soon as nothing else refers to the Future"
            if e in STRONG_MAPS:
                return True, ""
            if any(t in last.lower() for t in ("cache", "lru", "ttl", "expiring")):
                return False, f"{e} evicts entries on its own: the Future of a job that is still running can be dropped"
            return None, f"constructor `{e}` is not a known mapping"
        return None, "value not understood"

    n = 0
    for m, cqn in owners:
        for qn, node in m.defs.items():
            if not isinstance(node, FuncNode) or not (cqn and qn.startswith(cqn + ".")) or qn.count(".") != cqn.count(".") + 1:
                continue
            if not any(isinstance(x, ast.Attribute) and x.attr == attr and isinstance(x.ctx, ast.Store) for x in walk_no_nested(node)):
                continue
            try:
                nf = nfunc(repo, m.rel, qn, copyprop="all")
            except Exception:
                nf = node
            for st in walk_no_nested(nf):
                tgts = st.targets if isinstance(st, ast.Assign) else [st.target] if isinstance(st, (ast.AnnAssign, ast.AugAssign)) and getattr(st, "value", None) is not None else []
                for t in tgts:
                    if isinstance(t, ast.Attribute) and t.attr == attr and isinstance(t.value, ast.Name) and t.value.id in ("self", "cls"):
                        ok, why = verdict(m, nf, st.value)
                        if ok is None:
                            raise AnalysisError(f"{qn}: what is bound to the pending map `{pend}` is not understood ({why}): `{norm(st)[:80]}`")
                        n += 1
                        R.check(ok, rule, m.rel, qn, norm(st)[:100],
                                f"the pending-futures map `{pend}` does not own its entries - {why}. The caller may keep no reference of its own (enqueue(..).add_done_callback(cb)): the entry of a job that is still running disappears, "
                                "its status message finds no pending Future and the Future never completes (and an entry vanishing between the master's `in` test and the subscript raises KeyError in the master loop, after which no Future completes)",
                                st.lineno)
    if n == 0:
        raise AnalysisError(f"no assignment that creates the pending map `{pend}` found in the class of enqueue")


def _annotation_reaches_publish(R: Report, rule, fn: ast.AST, pub: ast.Call, cname: str, ctx_key, jv: Optional[str], writes: List[ast.Call], rel: str = W) -> None:
    """D4, last hop on the worker side: the master finds the pending Future only through context[<ctx_key>] of the
    status message, and the context of a finished job is whatever the pipeline left in it (a chained job or a
    re-used session context already carries an older job's id).  So on *every* path to the status publish the
    last thing that happened to that key of the published context must be `set_value(<ctx_key>, <this job id>)`:
    the write may not be skipped by a branch, and between it and the publish the context local may not be
    rebound, nor the key be written with another value or deleted."""
    g = CFG(fn)  # every call may raise: handlers are reachable
    root = cname.split(".")[0]

    def holds(node, calls) -> bool:
        return node.ast is not None and node.kind == "stmt" and any(x is c for c in calls for x in ast.walk(node.ast))

    good = {n.id for n in g.nodes if holds(n, writes)}
    pub_nodes = [n.id for n in g.nodes if holds(n, [pub])]

    def kills(node) -> bool:
        if node.ast is None or node.id in good:
            return False
        parts = [node.part] if node.part is not None and node.kind != "stmt" else [node.ast]
        if node.kind == "for" and isinstance(node.ast, ast.For):
            parts = [node.ast.target]
        if node.kind == "with" and isinstance(node.ast, ast.With):
            parts = [it.optional_vars for it in node.ast.items if it.optional_vars is not None]
        if node.kind == "except":
            h = node.ast if isinstance(node.ast, ast.ExceptHandler) else None
            return h is not None and h.name == root
        if node.kind not in ("stmt", "for", "with"):
            return False
        for part in parts:
            for x in walk_no_nested(part):
                if isinstance(x, ast.Name) and x.id == root and isinstance(x.ctx, (ast.Store, ast.Del)):
                    return True
                if isinstance(x, ast.Call) and isinstance(x.func, ast.Attribute) and dotted_name(x.func.value) == cname:
                    if x.func.attr == "set_value" and x.args and isinstance(x.args[0], ast.Constant) and x.args[0].value == ctx_key:
                        return True  # the key is written with something that is not this job's id
                    if x.func.attr in ("delete_value", "pop", "clear") and (not x.args or (isinstance(x.args[0], ast.Constant) and x.args[0].value == ctx_key)):
                        return True
        return False

    starts = [g.entry] + [n.id for n in g.nodes if kills(n)]
    seen = g.reach(starts, blocked=good, skip_labels={BASE})
    bad = [p for p in pub_nodes if p in seen]
    what = (f"a path reaches the status publish on which context[{ctx_key!r}] was not (or not last) set to this job's id `{jv}` - the annotation is skipped by a branch, "
            f"overwritten, or the context is rebound after it; the published context then carries whatever the pipeline / an earlier job left under {ctx_key!r} "
            "(a chained job's input context already has one): the master looks up a foreign id, drops the status or completes another job's Future")
    R.check(not bad, rule, rel, qualname_of(fn), norm(writes[0])[:70] + " [on every path to the publish]", what, writes[0].lineno,
            g.path_to(seen, bad[0]) if bad else None)


def _free_names(expr: ast.AST, msg: str) -> Set[str]:
    """Names read by *expr* other than the message and constructors called on the spot."""
    called = {id(c.func) for c in ast.walk(expr) if isinstance(c, ast.Call)}
    return {n.id for n in ast.walk(expr) if isinstance(n, ast.Name) and isinstance(n.ctx, ast.Load) and n.id != msg and id(n) not in called}


def _last_stmt(path: List[str]) -> str:
    for p in reversed(path[:-1]):
        if ": <" not in p:
            return p.split(": ", 1)[-1].split(" <-")[0][:90]
    return "?"


_CAUGHT = ast.Name(id="<caught exception>", ctx=ast.Load())  # stands for the object bound by `except .. as name`


def _value_leaves(repo: Repo, mod, fn: ast.AST, val: ast.AST, depth: int = 0) -> Optional[List[ast.AST]]:
    """The expressions a value written by a failure publish can be, followed through conditional expressions, the
    locals it is named by (every binding of the local, `except .. as` included) and, for a parameter of a helper,
    the argument of every call site in the module; None where that cannot be told."""
    if depth > 5:
        return None
    if isinstance(val, ast.IfExp):
        a, b = _value_leaves(repo, mod, fn, val.body, depth + 1), _value_leaves(repo, mod, fn, val.orelse, depth + 1)
        return a + b if a is not None and b is not None else None
    if isinstance(val, ast.Name) and val is not _CAUGHT:
        a_ = fn.args if isinstance(fn, FuncNode) else None
        params = [a.arg for a in a_.posonlyargs + a_.args + a_.kwonlyargs] if a_ is not None else []
        bound = [v for st in walk_no_nested(fn) for nm, v in _bindings(st) if nm == val.id]
        caught = any(isinstance(h, ast.ExceptHandler) and h.name == val.id for h in walk_no_nested(fn))
        out: List[ast.AST] = []
        if val.id in params:
            idx = params.index(val.id)
            sites = []
            origin = getattr(fn, "_normal_of", fn)
            for m2 in (mod if isinstance(mod, (list, tuple)) else [mod]):
                for f2 in [n for n in m2.defs.values() if isinstance(n, FuncNode)]:
                    for c in calls_in(f2):
                        # a call of this helper: by resolution (it may be imported from another module, under
                        # another name), or by its name where the call cannot be resolved
                        targets = repo.resolve_call(m2, c) if isinstance(c.func, ast.Name) else []
                        if any(t is origin or t is fn for _tm, t in targets) or (not targets and call_attr(c) == fn.name and isinstance(c.func, ast.Name)):  # type: ignore[attr-defined]
                            sites.append((f2, c.args[idx] if idx < len(c.args) else kwarg(c, val.id)))
            if not sites:
                return None
            for f2, a in sites:
                sub = _value_leaves(repo, mod, f2, a, depth + 1) if a is not None else None
                if sub is None:
                    return None
                out += sub
        elif not bound and not caught:
            return None
        for v in bound:
            sub = _value_leaves(repo, mod, fn, v, depth + 1) if v is not None else None
            if sub is None:
                return None
            out += sub
        if caught:
            out.append(_CAUGHT)
        return out
    return [val]


def _provably_truthy(repo: Repo, mod, fn: ast.AST, val: ast.AST) -> bool:
    """Value written by a failure publish is truthy for every failure (non-empty constant, exception object)."""
    def truthy(v: ast.AST) -> bool:
        if v is _CAUGHT:
            return True
        if isinstance(v, ast.Constant):
            return bool(v.value)
        if isinstance(v, ast.JoinedStr):
            return any(isinstance(x, ast.Constant) and x.value for x in v.values)
        return isinstance(v, ast.Call) and call_attr(v) in ("repr",)

    leaves = _value_leaves(repo, mod, fn, val)
    return leaves is not None and all(truthy(v) for v in leaves)


def _provably_not_none(repo: Repo, mod, fn: ast.AST, val: ast.AST) -> bool:
    def not_none(v: ast.AST) -> bool:
        if v is _CAUGHT:
            return True
        if isinstance(v, ast.Constant):
            return v.value is not None
        if isinstance(v, (ast.JoinedStr, ast.Dict, ast.List, ast.Tuple)):
            return True
        return isinstance(v, ast.Call) and call_attr(v) in ("str", "repr", "format", "format_exc", "type")

    leaves = _value_leaves(repo, mod, fn, val)
    return leaves is not None and all(not_none(v) for v in leaves)


# ---------------------------------------------------------------------------
# D4 a payload field is handed on as the object itself, or as a copy that keeps its class and all of its state
# ---------------------------------------------------------------------------
_GENERIC_COPIES = {"copy": "__copy__", "deepcopy": "__deepcopy__"}
_ALL_STATE = "*"


def annotation_classes(repo: Repo, mod, ann: Optional[ast.AST], ctx: Optional[ast.AST]) -> List[Tuple[object, ast.ClassDef]]:
    """The classes of the package an annotation mentions (`Optional[X]`, `X | None`, `"X"`, `Union[X, Y]`)."""
    out: List[Tuple[object, ast.ClassDef]] = []

    def visit(a: Optional[ast.AST], depth: int = 0) -> None:
        if a is None or depth > 3:
            return
        for n in ast.walk(a):
            if isinstance(n, ast.Constant) and isinstance(n.value, str):
                try:
                    visit(ast.parse(n.value, mode="eval").body, depth + 1)
                except SyntaxError:
                    pass
            elif isinstance(n, (ast.Name, ast.Attribute)):
                try:
                    r = repo.resolve_name(mod, n, ctx)
                except Exception:
                    r = None
                if r is not None and isinstance(r[1], ast.ClassDef) and not any(r[1] is c for _m, c in out):
                    out.append((r[0], r[1]))

    visit(ann)
    return out


def _self_of(fn: ast.AST) -> Optional[str]:
    a = fn.args.posonlyargs + fn.args.args  # type: ignore[attr-defined]
    return a[0].arg if a else None


def _state_stored(fn: ast.AST) -> Set[str]:
    s = _self_of(fn)
    return {n.attr for n in ast.walk(fn) if isinstance(n, ast.Attribute) and isinstance(n.ctx, ast.Store) and isinstance(n.value, ast.Name) and n.value.id == s}


def _state_read(fn: ast.AST) -> Set[str]:
    """Instance attributes *fn* reads from its receiver ('*': all of them at once - `self.__dict__`, `vars(self)`)."""
    s = _self_of(fn)
    out: Set[str] = set()
    for n in ast.walk(fn):
        if isinstance(n, ast.Attribute) and isinstance(n.ctx, ast.Load) and isinstance(n.value, ast.Name) and n.value.id == s:
            out.add(_ALL_STATE if n.attr in ("__dict__", "__getstate__", "__reduce_ex__", "__reduce__") else n.attr)
        elif isinstance(n, ast.Call) and isinstance(n.func, ast.Name) and n.args and isinstance(n.args[0], ast.Name) and n.args[0].id == s:
            if n.func.id == "vars":
                out.add(_ALL_STATE)
            elif n.func.id == "getattr" and len(n.args) > 1 and isinstance(n.args[1], ast.Constant):
                out.add(str(n.args[1].value))
    return out


def _defining(repo: Repo, mod, cls: ast.ClassDef, name: str):
    """(module, class, function) of the implementation of method *name* an instance of *cls* runs; None when no
    class of the package in its MRO defines it."""
    for m, c in repo.mro(mod, cls):
        for st in c.body:
            if isinstance(st, FuncNode) and st.name == name:
                return m, c, st
    return None


def _normal_method(repo: Repo, mod, fn: ast.AST) -> ast.AST:
    qn = next((q for q, nd in mod.defs.items() if nd is fn), None)
    if qn is None:
        return fn
    try:
        return nfunc(repo, mod.rel, qn, copyprop="all")
    except Exception:
        return fn


def rebuild_loses(repo: Repo, km, K: ast.ClassDef, impl: ast.AST, sm, S: ast.ClassDef, hierarchy: Optional[Set[int]] = None) -> Optional[str]:
    """Why the object *impl* (a method defined in class K, run by an instance of class S, which inherits it) returns
    is not a copy of its receiver: it is an instance of a fixed other class, or it is rebuilt through the constructor
    from some of the receiver's attributes and an attribute that S, a class between S and K, or a base of K that
    belongs to the payload's declared *hierarchy* stores in its constructor is never read on the way (what the
    framework bases above the declared class keep - a logger - is not the job's input).
    None: the copy keeps class and state, or the shape is not understood."""
    nf = _normal_method(repo, km, impl)
    s = _self_of(nf)
    if s is None:
        return None
    rebuilt: Optional[ast.Call] = None
    for r in walk_no_nested(nf):
        if not (isinstance(r, ast.Return) and r.value is not None):
            continue
        v = _deref(nf, r.value)
        if isinstance(v, ast.Name) and v.id == s:
            continue  # the object itself
        if not isinstance(v, ast.Call):
            return None
        f = v.func
        last = (call_name(v) or "").rsplit(".", 1)[-1]
        if last in _GENERIC_COPIES and v.args and isinstance(v.args[0], ast.Name) and v.args[0].id == s:
            continue  # copy.copy(self) / copy.deepcopy(self): class and instance dictionary are kept
        dynamic = (isinstance(f, ast.Call) and isinstance(f.func, ast.Name) and f.func.id == "type" and len(f.args) == 1 and isinstance(f.args[0], ast.Name) and f.args[0].id == s) \
            or (isinstance(f, ast.Attribute) and f.attr == "__class__" and isinstance(f.value, ast.Name) and f.value.id == s)
        if not dynamic:
            try:
                tgt = repo.resolve_name(km, f, v) if isinstance(f, (ast.Name, ast.Attribute)) else None
            except Exception:
                tgt = None
            if tgt is None or not isinstance(tgt[1], ast.ClassDef):
                return None  # a helper / a delegate: not understood
            if tgt[1] is not S:
                return f"`{norm(v)[:60]}` builds a {tgt[1].name} whatever the class of the object: a {S.name} (which inherits {K.name}.{impl.name}) comes back as a {tgt[1].name}"  # type: ignore[attr-defined]
        rebuilt = v
    if rebuilt is None:
        return None
    reads = set(_state_read(nf))
    for c in calls_in(nf):  # what the receiver's own methods called on the way read (one level)
        if isinstance(c.func, ast.Attribute) and isinstance(c.func.value, ast.Name) and c.func.value.id == s:
            d = _defining(repo, sm, S, c.func.attr)
            if d is not None:
                reads |= _state_read(d[2])
    if _ALL_STATE in reads:
        return None
    below_k = True
    for m, c in repo.mro(sm, S):
        if not below_k and id(c) not in (hierarchy or set()):
            break
        for st in c.body:
            if isinstance(st, FuncNode) and st.name in ("__init__", "__post_init__"):
                missing = sorted(_state_stored(st) - reads)
                if missing:
                    how = f"{S.name} inherits {K.name}.{impl.name}" if c is not K or S is not K else f"{K.name}.{impl.name}"  # type: ignore[attr-defined]
                    return (f"{K.name}.{impl.name} rebuilds the object as `{norm(rebuilt)[:70]}` and never reads `{missing[0]}`, which {c.name}.{st.name} stores "  # type: ignore[attr-defined]
                            f"({how}): what a {S.name} keeps there is dropped from the copy")
        if c is K:
            below_k = False
    return None


def copy_method_loses(repo: Repo, roots: List[Tuple[object, ast.ClassDef]], meth: str) -> Tuple[bool, Optional[str]]:
    """(some class of the hierarchy under *roots* defines *meth*, why the copy it returns is not the object - for the
    first class of the hierarchy for which that can be shown)."""
    classes: List[Tuple[object, ast.ClassDef]] = []
    for m, c in roots:
        for mc in [(m, c)] + list(repo.subclasses(c)):
            if not any(mc[1] is x for _m, x in classes):
                classes.append(mc)
    found = False
    for sm, S in classes:
        d = _defining(repo, sm, S, meth)
        if d is None:
            continue
        found = True
        why = rebuild_loses(repo, d[0], d[1], d[2], sm, S, {id(x) for _m, x in classes})
        if why is not None:
            return True, why
    return found, None


def handed_on_intact(repo: Repo, prov: Provenance, leaves: List[Leaf], roots: List[Tuple[object, ast.ClassDef]], result_field: Optional[str] = None) -> Optional[Tuple[ast.AST, str]]:
    """(expression, why) for the first own value among *leaves* (the values a payload field can have where it is handed
    on) that is not the incoming field itself: a method of the field's class hierarchy that rebuilds the object and
    drops part of it, a conversion / wrapper / slice, or a copy through a method no class of the hierarchy defines.
    With *result_field* the leaves are what a status publish carries: the field is `<result>.<result_field>` of whatever
    object the job produced, and only a copy that is shown to drop state is reported (anything else a worker may
    publish - None and a fresh context for a failure - is not a transformation of the result)."""
    strict = result_field is None

    def the_field(e: ast.AST) -> bool:
        if result_field is not None:
            return isinstance(e, ast.Attribute) and e.attr == result_field and not (isinstance(e.value, ast.Name) and e.value.id == prov.msg)
        if isinstance(prov, ParamProvenance):
            return isinstance(e, ast.Name) and e.id in prov.params
        if isinstance(e, ast.Name):
            return e.id == prov.msg  # the message unpacked as a tuple
        if isinstance(e, ast.Attribute):
            return isinstance(e.value, ast.Name) and e.value.id == prov.msg
        if isinstance(e, ast.Subscript):
            return isinstance(e.value, ast.Name) and e.value.id == prov.msg and isinstance(e.slice, ast.Constant)
        return isinstance(e, ast.Call) and isinstance(e.func, ast.Name) and e.func.id == "getattr" and len(e.args) >= 2 and isinstance(e.args[0], ast.Name) \
            and e.args[0].id == prov.msg and isinstance(e.args[1], ast.Constant)

    def verdict(e: ast.AST, at: int, depth: int = 0) -> Tuple[str, Optional[Tuple[ast.AST, str]]]:
        """('same', None): the field or a copy that keeps it; ('lossy', ..): a copy shown to drop state;
        ('other', ..): something computed from it / not decided."""
        e = _strip_cast(e)
        if the_field(e):
            return "same", None
        if depth > 3:
            return "other", (e, "not followed")

        def own(x: ast.AST) -> bool:
            ls = prov.alts(x, at)
            return bool(ls) and all((l.kind == "message" or not strict) and verdict(l.expr, l.at, depth + 1)[0] == "same" for l in ls)

        if isinstance(e, ast.Call):
            meth = None
            last = (call_name(e) or "").rsplit(".", 1)[-1]
            if isinstance(e.func, ast.Attribute) and own(e.func.value):
                meth = e.func.attr
            elif last in _GENERIC_COPIES and len(e.args) >= 1 and own(e.args[0]):
                meth = _GENERIC_COPIES[last]
            if meth is not None:
                found, why = copy_method_loses(repo, roots, meth)
                if why is not None:
                    return "lossy", (e, why)
                if found or meth in _GENERIC_COPIES.values():
                    return "same", None
                return "other", (e, f"no class under {'/'.join(c.name for _m, c in roots) or 'the declared type'} defines `{meth}`: the value handed on is not shown to be the job's own input")
        return "other", (e, "the value handed on is computed from the job's input (a conversion, a wrapper, a part of it), it is not that input")

    for l in leaves:
        if strict and l.kind != "message":
            continue
        k, v = verdict(l.expr, l.at)
        if k == "lossy" or (strict and k == "other"):
            return v
    return None


# ---------------------------------------------------------------------------
# Round 8: D2 a taken status reaches the lookup; D4 the success status carries the pipeline's result; D4 the status
# context is the job's own object
# ---------------------------------------------------------------------------
def _taken_status_rule(R: Report, rule, rel: str, qn: str, g: CFG, msg: str, decisions: Set[int], what: str, param: bool = False) -> None:
    """From the binding of a status message (taking it has removed it from the transport) every way of ending its
    handling - the next binding, leaving the loop, returning - passes one of the *decisions* nodes (the pending
    membership test, or the call of the helper that holds it).  Exception edges are not followed (a status the
    master cannot read is another matter) and the edges on which the local is known to be None (`msg = next(it,
    None)`: no message was taken) are not part of any message.  With *param* the message is the function's
    parameter: the handling starts at the entry."""
    heads = [] if param else [n.id for n in g.nodes if n.kind in ("for", "stmt", "with") and _node_defines(n, msg)]
    if not heads and not param:
        raise AnalysisError(f"{qn}: binding of the status message `{msg}` not found in the CFG")
    inside: Optional[Set[int]] = None
    for h in heads:
        a = g.nodes[h].ast
        loop = a if isinstance(a, (ast.For, ast.AsyncFor)) else next((x for x in ancestors(a) if isinstance(x, (ast.For, ast.AsyncFor, ast.While))), None)
        if loop is not None and any(loop is x for x in ast.walk(g.func)):
            inside = (inside or set()) | {id(x) for x in ast.walk(loop)}

    def no_message(x: ast.AST) -> Optional[bool]:
        if isinstance(x, ast.Compare) and len(x.ops) == 1 and isinstance(x.ops[0], (ast.Is, ast.IsNot, ast.Eq, ast.NotEq)):
            l, r = x.left, x.comparators[0]
            if isinstance(l, ast.Constant) and l.value is None:
                l, r = r, l
            if isinstance(l, ast.Name) and l.id == msg and isinstance(r, ast.Constant) and r.value is None:
                return isinstance(x.ops[0], (ast.Is, ast.Eq))
        if isinstance(x, ast.Name) and x.id == msg:
            return False  # a message object is truthy: `if not msg:` is the no-message branch
        return None

    dead: Set[Tuple[int, str]] = set()
    for n in g.nodes:
        if n.kind in ("if", "while") and n.part is not None:
            dead |= {(n.id, lab) for lab in edges_guaranteeing(n.part, no_message)}
    exits = {n.id for n in g.nodes if n.kind in ("ret_exit", "exc_exit", "base_exit")}

    def is_end(i: int) -> bool:
        n = g.nodes[i]
        return i in heads or i in exits or (inside is not None and n.ast is not None and id(n.ast) not in inside)

    prev: Dict[int, Optional[int]] = {}
    todo: List[int] = []
    if param:
        prev[g.entry] = None
        todo.append(g.entry)
    for h in heads:
        for t, lab in g.succ[h]:
            if lab in (EXC, BASE) or (g.nodes[h].kind == "for" and lab == "F") or t in prev:
                continue
            prev[t] = None
            todo.append(t)
    bad: Optional[int] = None
    while todo and bad is None:
        i = todo.pop(0)
        if i in decisions:
            continue
        if is_end(i) and not (param and i == g.entry):
            bad = i
            break
        for t, lab in g.succ[i]:
            if lab in (EXC, BASE) or (i, lab) in dead or t in prev:
                continue
            prev[t] = i
            todo.append(t)
    path: List[str] = []
    if bad is not None:
        cur: Optional[int] = bad
        ids: List[int] = []
        while cur is not None and len(ids) < 10000:
            ids.append(cur)
            cur = prev.get(cur)
        path = [f"L{g.nodes[i].line}: {g.nodes[i].text()[:100]}" for i in reversed(ids)]
    line = g.nodes[heads[0]].line if heads else getattr(g.func, "lineno", 0)
    last = next((p for p in reversed(path[:-1])), path[-1] if path else "")
    R.check(bad is None, rule, rel, qn, f"status message `{msg}` -> {what}",
            f"a status message that was taken off the transport can end its handling without reaching {what} (via `{last[:90]}`): the message is gone from the channel, nobody looks its job id up, "
            "and that job's Future never completes (loss)", line, path or None)


def result_published_rule(repo: Repo, R: Report, wrel: str, wqn: str, wl: ast.AST, wmod, g: CFG, prov: Provenance, marker_key, in_handler: Set[int],
                          wfuncs: Optional[List[ast.AST]] = None, wfunc_rel: Optional[Dict[int, str]] = None) -> None:
    """D4, the way back: the data and the context of a *success* status (a status publish of the worker side that does
    not write the failure marker) are, on every path, computed from what the call that ran the pipeline on this job's
    Payload returned.  The context that went in is not the result: the pipeline may wrap a plain mapping or hand back
    a new context object, and the direct run returns that one.  The run call is found by role: the call the Payload
    (its construction, or a local holding it) is handed to, or that is given the pipeline's `process`; in a helper
    the success publish was moved to, a parameter is followed to the argument of every call site in the message loop."""
    rule = R.rule("C15-D4-result-published", "the data and the context of a success status are computed, on every path to the publish, from the object the pipeline run on this job's Payload returned "
                  "(the value of the call the Payload is handed to): the input data / context taken from the job message are not the result - the pipeline may wrap or replace them - "
                  "and a Future completed with them differs from the direct run", 2)

    def payload_ctor(e: Optional[ast.AST]) -> bool:
        e = _strip_cast(e) if e is not None else e
        return isinstance(e, ast.Call) and (call_name(e) or "").rsplit(".", 1)[-1] == "Payload"

    class Ctx:
        def __init__(self, fn: ast.AST, cfg: CFG, inside: Optional[Set[int]], msg: Optional[str]):
            self.fn, self.g, self.inside, self.msg = fn, cfg, inside, msg
            by_name: Dict[str, List[Optional[ast.AST]]] = {}
            for st in walk_no_nested(fn):
                for nm, v in _bindings(st):
                    by_name.setdefault(nm, []).append(v)
            self.payload_locals = {nm for nm, vs in by_name.items() if vs and all(payload_ctor(v) for v in vs)}
            a_ = fn.args  # type: ignore[attr-defined]
            self.params = [a.arg for a in a_.posonlyargs + a_.args + a_.kwonlyargs]
            self.run_calls = {id(c) for c in calls_in(fn) if (inside is None or id(c) in inside) and self.runs(c)}
            self.memo: Dict[Tuple[int, int], bool] = {}

        def runs(self, c: ast.Call) -> bool:
            if payload_ctor(c):
                return False
            parts = list(c.args) + [k.value for k in c.keywords] + ([c.func] if isinstance(c.func, ast.Attribute) else [])
            for a in parts:
                a = _strip_cast(a.value if isinstance(a, ast.Starred) else a)
                if payload_ctor(a) or (isinstance(a, ast.Name) and a.id in self.payload_locals):
                    return True
                if isinstance(a, ast.Attribute) and a.attr == "process":
                    return True
            return False

    wctx = Ctx(wl, g, prov.inside, prov.msg)
    if not wctx.run_calls:
        # the run was moved into a helper that is not inlined: the call of a function that builds the Payload / calls process
        for c in calls_in(wl):
            if id(c) not in prov.inside:
                continue
            try:
                targets = repo.resolve_call(wmod, c)
            except Exception:
                targets = []
            for _tm, t in targets:
                if isinstance(t, FuncNode) and any(payload_ctor(x) or call_attr(x) == "process" or any(isinstance(y, ast.Attribute) and y.attr == "process" for y in ast.walk(x)) for x in calls_in(t)):
                    wctx.run_calls.add(id(c))

    def from_result(cx: "Ctx", e: ast.AST, at: int, depth: int = 0) -> bool:
        """every value *e* can have at node *at* of cx.fn is computed from the value of a run call."""
        if any(isinstance(x, ast.Call) and id(x) in cx.run_calls for x in ast.walk(e)):
            return True
        if depth > 10:
            return False
        key = (id(e), at)
        if key in cx.memo:
            return cx.memo[key]
        cx.memo[key] = False
        called = {id(c.func) for c in ast.walk(e) if isinstance(c, ast.Call)}
        res = False
        for x in ast.walk(e):
            if not (isinstance(x, ast.Name) and isinstance(x.ctx, ast.Load)) or id(x) in called or x.id == cx.msg:
                continue
            defs = reaching_defs(cx.g, x.id, at)
            if not defs:
                if cx is not wctx and x.id in cx.params and param_from_result(cx, x.id):
                    res = True
                    break
                continue
            ok = True
            for d in defs:
                if d.kind != "stmt" or (cx.inside is not None and id(d.ast) not in cx.inside):
                    ok = False
                    break
                vals = [v if v is not None else getattr(d.ast, "value", None) for nm, v in _bindings(d.ast) if nm == x.id]
                if not vals or any(v is None or not from_result(cx, v, d.id, depth + 1) for v in vals):
                    ok = False
                    break
            if ok:
                res = True
                break
        cx.memo[key] = res
        return res

    def param_from_result(cx: "Ctx", p: str) -> bool:
        """the helper's parameter is bound, at every call site in the message loop, to a value computed from the run."""
        idx = cx.params.index(p)
        sites = [c for c in calls_in(wl) if id(c) in prov.inside and (call_name(c) or "").rsplit(".", 1)[-1] == cx.fn.name]  # type: ignore[attr-defined]
        if not sites:
            return False
        for c in sites:
            off = 1 if cx.params and cx.params[0] in ("self", "cls") and isinstance(c.func, ast.Attribute) else 0
            a = c.args[idx - off] if 0 <= idx - off < len(c.args) and not any(isinstance(y, ast.Starred) for y in c.args) else kwarg(c, p)
            at = _node_of(g, c)
            if a is None or at is None or not from_result(wctx, a, at):
                return False
        return True

    n = 0
    todo: List[Tuple["Ctx", str, str]] = [(wctx, wrel, wqn)]
    for fn in (wfuncs or []):
        if fn is wl or not any(is_status_publish(c, fn=fn) for c in calls_in(fn)):
            continue
        todo.append((Ctx(fn, _plain_cfg(fn), None, None), (wfunc_rel or {}).get(id(fn), W), qualname_of(getattr(fn, "_normal_of", fn))))
    for cx, rel, qn in todo:
        for node in cx.g.nodes:
            if node.ast is None or node.kind != "stmt":
                continue
            if cx is wctx and (id(node.ast) not in prov.inside or id(node.ast) in in_handler):
                continue
            for c in calls_in(node.ast):
                if not is_status_publish(c, None, cx.fn):
                    continue
                mk = metadata_keys(c, cx.fn)
                if marker_key is not None and mk is not None and any(v is not None for v in mk.get(marker_key, [None])):
                    continue  # a failure status: it carries no result
                data = kwarg(c, "data") or (c.args[1] if len(c.args) > 1 else None)
                if marker_key is None and (data is None or (isinstance(data, ast.Constant) and data.value is None)):
                    continue
                for fname, val in (("data", data), ("context", _publish_context(c))):
                    n += 1
                    ok = val is not None and not (isinstance(val, ast.Constant) and val.value is None) and from_result(cx, val, node.id)
                    R.check(ok, rule, rel, qn, f"success status {fname} `{norm(val)[:40] if val is not None else None}` comes from the pipeline's result",
                            f"the success status is published with {fname}=`{norm(val)[:60] if val is not None else None}`, which on some path is not computed from what the pipeline run returned for this job's Payload "
                            f"(it is the {fname} that went in, or nothing): where the pipeline hands back another object - a plain mapping it wrapped, a context a processor replaced - the job-id annotation "
                            "fails or lands on the stale input, and the Future does not complete with the (data, context) of the direct run", getattr(val, "lineno", c.lineno) if val is not None else c.lineno)
    if n == 0:
        raise AnalysisError(f"{wqn}: no success status publish (a jobs.<id>.status publish without the failure marker) found on the worker side")


_IMMUTABLE_BUILDERS = {"frozenset", "tuple", "str", "int", "float", "bytes", "bool", "MappingProxyType", "namedtuple", "object", "compile", "getLogger", "TypeVar", "Lock", "RLock"}
_COPY_CALLS = {"dict", "list", "set", "copy", "deepcopy", "OrderedDict", "defaultdict", "tuple", "frozenset", "sorted"}


def _module_level_values(repo: Repo, mod, name: str, depth: int = 0) -> List[Tuple[object, ast.AST]]:
    """(module, bound expression) for the module-level assignments that bind *name* as seen from *mod* (a
    `from .x import NAME` is followed)."""
    out: List[Tuple[object, ast.AST]] = []
    for st in ast.walk(mod.tree):
        if isinstance(st, FuncNode + (ast.ClassDef, ast.Lambda)):
            continue
        if isinstance(st, (ast.Assign, ast.AnnAssign)) and not any(isinstance(a, FuncNode + (ast.ClassDef,)) for a in ancestors(st)):
            out += [(mod, v if v is not None else st.value) for nm, v in _bindings(st) if nm == name and (v is not None or st.value is not None)]
    if out or depth > 2:
        return out
    target = mod.imports.get(name)
    if target and "." in target:
        mpath, _, attr = target.rpartition(".")
        m2 = getattr(repo, "by_dotted", {}).get(mpath)
        if m2 is not None and m2 is not mod:
            return _module_level_values(repo, m2, attr, depth + 1)
    return out


def _shared_mutable(v: ast.AST) -> bool:
    """The module-level value is one mutable object created at import: a dict / list / set display, a comprehension,
    or a call that is not known to build an immutable value."""
    if isinstance(v, (ast.Dict, ast.List, ast.Set, ast.ListComp, ast.DictComp, ast.SetComp)):
        return True
    return isinstance(v, ast.Call) and (call_name(v) or "").rsplit(".", 1)[-1] not in _IMMUTABLE_BUILDERS


def _kept_by_reference(repo: Repo, km, K: ast.ClassDef, idx: Optional[int], kw: Optional[str], depth: int = 0) -> Optional[Tuple[ast.ClassDef, str, str]]:
    """(class, parameter, attribute) when the constructor of K stores the argument at position *idx* / keyword *kw* in
    the new object as it is (`self.a = p`, `self.a = p if p is not None else {}`, `self.a = p or {}`), directly or by
    handing it on to the constructor of a base class; None when it is copied, converted or not stored."""
    init = repo.method(km, K, "__init__")
    if init is None or depth > 3:
        return None
    im, fn = init
    s = _self_of(fn)
    params = [a.arg for a in fn.args.posonlyargs + fn.args.args][1:]  # type: ignore[attr-defined]
    p = kw if kw is not None and kw in params + [a.arg for a in fn.args.kwonlyargs] else (params[idx] if idx is not None and idx < len(params) else None)  # type: ignore[attr-defined]
    if p is None or s is None:
        return None
    owner = next((c for _m, c in repo.mro(km, K) if any(st is fn for st in c.body)), K)

    def bare(e: Optional[ast.AST], names: Set[str]) -> bool:
        """*e* can evaluate to the object one of *names* is bound to (no copy in between)."""
        if e is None:
            return False
        e = _strip_cast(e)
        if isinstance(e, ast.Name):
            return e.id in names
        if isinstance(e, ast.IfExp):
            return bare(e.body, names) or bare(e.orelse, names)
        if isinstance(e, ast.BoolOp):
            return any(bare(x, names) for x in e.values)
        if isinstance(e, ast.NamedExpr):
            return bare(e.value, names)
        return False

    names = {p}
    for _ in range(3):  # locals that alias the parameter
        for st in walk_no_nested(fn):
            for nm, v in _bindings(st):
                if v is not None and bare(v, names):
                    names.add(nm)
    for st in walk_no_nested(fn):
        if isinstance(st, (ast.Assign, ast.AnnAssign)) and st.value is not None:
            tgts = st.targets if isinstance(st, ast.Assign) else [st.target]
            for t in tgts:
                if isinstance(t, ast.Attribute) and isinstance(t.value, ast.Name) and t.value.id == s and bare(st.value, names):
                    return owner, p, t.attr
    for c in calls_in(fn):  # super().__init__(p) / Base.__init__(self, p)
        if call_attr(c) == "__init__" and isinstance(c.func, ast.Attribute):
            explicit_self = bool(c.args) and isinstance(c.args[0], ast.Name) and c.args[0].id == s and not (isinstance(c.func.value, ast.Call) and call_name(c.func.value) == "super")
            args = c.args[1:] if explicit_self else c.args
            bases = [mc for mc in repo.mro(im, owner)[1:]]
            for i, a in enumerate(args):
                if bare(a, names) and bases:
                    r = _kept_by_reference(repo, bases[0][0], bases[0][1], i, None, depth + 1)
                    if r is not None:
                        return r
            for k in c.keywords:
                if k.arg and bare(k.value, names) and bases:
                    r = _kept_by_reference(repo, bases[0][0], bases[0][1], None, k.arg, depth + 1)
                    if r is not None:
                        return r
    return None


_MUTATORS = {"update", "setdefault", "pop", "popitem", "clear", "append", "extend", "insert", "remove", "add", "discard", "__setitem__", "__delitem__", "sort", "reverse"}


def _methods_mutate(repo: Repo, km, K: ast.ClassDef, attr: str) -> Optional[str]:
    """Name of a method (other than the constructor) of K or of a class it inherits from / that inherits from it which
    changes the object kept in `self.<attr>` in place (item store / delete, augmented assignment, a mutator call);
    None when the instances only ever read it (a logger, a frozen template)."""
    classes = list(repo.mro(km, K)) + list(repo.subclasses(K))
    for _m, c in classes:
        for st in c.body:
            if not isinstance(st, FuncNode) or st.name in ("__init__", "__post_init__"):
                continue
            s = _self_of(st)
            if s is None:
                continue

            def is_attr(e: ast.AST) -> bool:
                return isinstance(e, ast.Attribute) and e.attr == attr and isinstance(e.value, ast.Name) and e.value.id == s

            for x in ast.walk(st):
                if isinstance(x, ast.Subscript) and isinstance(x.ctx, (ast.Store, ast.Del)) and is_attr(x.value):
                    return st.name
                if isinstance(x, ast.AugAssign) and (is_attr(x.target) or (isinstance(x.target, ast.Subscript) and is_attr(x.target.value))):
                    return st.name
                if isinstance(x, ast.Call) and isinstance(x.func, ast.Attribute) and x.func.attr in _MUTATORS and is_attr(x.func.value):
                    return st.name
    return None


def status_context_own_rule(repo: Repo, R: Report, wfuncs: List[ast.AST], wfunc_rel: Dict[int, str]) -> None:
    """D4: the context object of a status message is handed to the master by reference (the in-memory transport
    files the object itself) and carries the job id the master looks the Future up by.  Statuses of different jobs
    wait in the transport at the same time, so the object - and every mutable part of it the constructor keeps by
    reference - must be this job's own: not an object bound at module level (created once at import).  Interface
    condition between the worker's publish and the constructor of the context class: an argument that is a shared
    mutable may only go into a parameter the constructor copies."""
    rule = R.rule("C15-D4-status-context-per-job", "the context object a worker publishes with a status (the master reads the job id out of it, and the transport hands it over by reference) shares no mutable state "
                  "between jobs: it is not an object bound at module level, and no constructor argument it is built from is a module-level mutable (dict / list / set / object created at import) "
                  "that the constructor keeps by reference - the job-id annotation of a later status would rewrite the id inside every earlier status still waiting in the transport", 2)
    n = 0
    for nf in wfuncs:
        rel = wfunc_rel.get(id(nf), W)
        qn = qualname_of(getattr(nf, "_normal_of", nf))
        if not any(is_status_publish(c, fn=nf) for c in calls_in(nf)):
            continue
        try:
            fn = nfunc(repo, rel, qn, copyprop="all", consts=False)  # module-level mutables keep their names
        except Exception:
            fn = getattr(nf, "_normal_of", nf)
        mod = repo.module(rel)
        a_ = fn.args  # type: ignore[attr-defined]
        params = {a.arg for a in a_.posonlyargs + a_.args + a_.kwonlyargs} | {a.arg for a in (a_.vararg, a_.kwarg) if a is not None}
        bound = {nm for st in ast.walk(fn) for nm, _v in (_bindings(st) if isinstance(st, (ast.Assign, ast.AnnAssign, ast.AugAssign)) else [])}
        bound |= {x.id for x in ast.walk(fn) if isinstance(x, ast.Name) and isinstance(x.ctx, ast.Store)}

        def shared_global(e: Optional[ast.AST]) -> Optional[Tuple[str, ast.AST]]:
            """(name, value) when *e* names a module-level mutable object."""
            e = _strip_cast(e) if e is not None else e
            if isinstance(e, ast.Name) and e.id not in params and e.id not in bound:
                for _m, v in _module_level_values(repo, mod, e.id):
                    if _shared_mutable(v):
                        return e.id, v
            return None

        def values_of(e: ast.AST, depth: int = 0) -> List[ast.AST]:
            e = _strip_cast(e)
            if isinstance(e, ast.Name) and e.id in bound and e.id not in params and depth < 4:
                out: List[ast.AST] = []
                for st in walk_no_nested(fn):
                    for nm, v in _bindings(st):
                        if nm == e.id and v is not None:
                            out += values_of(v, depth + 1)
                return out
            if isinstance(e, ast.IfExp):
                return values_of(e.body, depth + 1) + values_of(e.orelse, depth + 1)
            if isinstance(e, ast.BoolOp):
                return [y for x in e.values for y in values_of(x, depth + 1)]
            return [e]

        for c in calls_in(fn):
            if not is_status_publish(c, fn=fn):
                continue
            ctx = _publish_context(c)
            if ctx is None:
                continue
            n += 1
            bad: Optional[Tuple[ast.AST, str]] = None
            for v in values_of(ctx):
                g_ = shared_global(v)
                if g_ is not None:
                    bad = (v, f"`{g_[0]}` is one object bound at module level (`{norm(g_[1])[:50]}`): every status published with it is the same object")
                    break
                if isinstance(v, ast.Call) and isinstance(v.func, (ast.Name, ast.Attribute)):
                    try:
                        r = repo.resolve_name(mod, v.func, v)
                    except Exception:
                        r = None
                    if r is None or not isinstance(r[1], ast.ClassDef):
                        continue
                    for i, a in enumerate(v.args):
                        for av in values_of(a):
                            g_ = shared_global(av)
                            kept = _kept_by_reference(repo, r[0], r[1], i, None) if g_ is not None else None
                            if g_ is not None and kept is not None and _methods_mutate(repo, r[0], r[1], kept[2]) is not None:
                                bad = (v, f"`{g_[0]}` is one mutable object bound at module level (`{norm(g_[1])[:50]}`) and {kept[0].name}.__init__ keeps its parameter `{kept[1]}` by reference in self.{kept[2]}, which its methods change in place: "
                                          f"every {r[1].name} built this way writes into the same {type(g_[1]).__name__.lower()}")
                    for k in v.keywords:
                        for av in (values_of(k.value) if k.arg else []):
                            g_ = shared_global(av)
                            kept = _kept_by_reference(repo, r[0], r[1], None, k.arg) if g_ is not None else None
                            if g_ is not None and kept is not None and _methods_mutate(repo, r[0], r[1], kept[2]) is not None:
                                bad = (v, f"`{g_[0]}` is one mutable object bound at module level (`{norm(g_[1])[:50]}`) and {kept[0].name}.__init__ keeps its parameter `{kept[1]}` by reference in self.{kept[2]}, which its methods change in place: "
                                          f"every {r[1].name} built this way writes into the same {type(g_[1]).__name__.lower()}")
                    if bad is not None:
                        break
            R.check(bad is None, rule, rel, qn, f"status context `{norm(ctx)[:40]}` of `{norm(c.args[0])[:40]}` is this job's own object",
                    f"the status context `{norm(bad[0])[:70] if bad else ''}` shares state between jobs: {bad[1] if bad else ''}; the job id written into it for a later job replaces the id inside every earlier "
                    "status that is still waiting in the transport (the transport hands the object over by reference), so the master completes a later job's Future with an earlier job's outcome "
                    "(cross-talk) and the earlier job's Future never completes (loss)", getattr(bad[0], "lineno", c.lineno) if bad else c.lineno)
    if n == 0:
        raise AnalysisError("worker: no status publish with a context found")
