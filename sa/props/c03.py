"""C03 - parameter sweeps expand to exactly the documented element sequence.

D1 step enumeration, D2 merge precedence, D3 the three generated variants agree and each has the
documented form, D4 publication of <var>_values, D5 YAML conversion table, D6 materialisation
argument provenance.  Numerical content of ranges is not decided.
"""
from __future__ import annotations

import ast
import copy
from typing import Dict, List, Optional, Set, Tuple

from ..cfg import CFG, returns_only_through
from ..engine import (
    AnalysisError,
    FuncNode,
    Repo,
    ancestors,
    assigned_value,
    call_attr,
    call_name,
    calls_in,
    dotted_name,
    kwarg,
    norm,
    qualname_of,
    stmt_of,
    walk_no_nested,
)
from ..report import Report

SWEEP = "semantiva/data_processors/parametric_sweep_factory.py"
NODES = "semantiva/pipeline/nodes/nodes.py"
PREP = "semantiva/pipeline/node_preprocess.py"
CREATE = "ParametricSweepFactory.create"


def _u(e: Optional[ast.AST]) -> str:
    return ast.unparse(e) if e is not None else ""


def _unify(node: ast.AST) -> str:
    """Position-free dump with the receiver (cls/self) and result-list names unified."""
    n = ast.parse(ast.unparse(node)).body[0] if isinstance(node, ast.stmt) else ast.parse(ast.unparse(node), mode="eval").body

    class T(ast.NodeTransformer):
        def visit_Name(self, x):
            if x.id in ("cls", "self"):
                x.id = "S"
            return x

    T().visit(n)
    return ast.dump(n, include_attributes=False)


def variant_bodies(repo: Repo) -> List[Tuple[str, ast.FunctionDef]]:
    create = repo.func(SWEEP, CREATE)
    out = []
    for n in ast.walk(create):
        if isinstance(n, FuncNode) and n.name in ("_get_data", "_process_logic") and any(call_attr(c) == "_iterate_sweep" for c in calls_in(n)):
            out.append((qualname_of(n), n))
    if len(out) != 3:
        raise AnalysisError(f"{len(out)} generated sweep bodies found (3 confirmed by reading)")
    return out


def run(repo: Repo, R: Report) -> None:
    R.assume(
        "itertools.product varies the rightmost sequence fastest; numpy.linspace/logspace return the documented values for their arguments",
        "the wrapped processor applied to the merged parameters is what 'element i' means",
    )
    R.undecided("numerical content of range variables and of expression values; the typed collection's own behaviour")

    # ------------------------------------------------------------------ D1
    r_it = R.rule("C03-D1-step-enumeration", "combinatorial: product over the sequences taken in plain sorted variable-name order, each step dict(zip(names, combo)); by_position: unequal lengths rejected unless broadcast, broadcast cycles seq[i % len(seq)] up to the longest, steps are positions 0..n-1", 7)
    it = repo.func(SWEEP, "_iterate_sweep")
    vn = assigned_value(it, "var_names")
    ok = len(vn) == 1 and isinstance(vn[0], ast.Call) and call_attr(vn[0]) == "sorted" and not vn[0].keywords and len(vn[0].args) == 1 and ast.unparse(vn[0].args[0]) in ("sequences.keys()", "sequences")
    R.check(ok, r_it, SWEEP, "_iterate_sweep", "var_names = sorted(sequences.keys())", "variable names are not taken in plain sorted order (custom key / mapping order): the element sequence is permuted", it.lineno)
    vs = assigned_value(it, "var_seqs")
    ok = len(vs) == 1 and isinstance(vs[0], ast.ListComp) and dotted_name(vs[0].generators[0].iter) == "var_names" and not vs[0].generators[0].ifs and ast.unparse(vs[0].elt) == f"sequences[{vs[0].generators[0].target.id}]"
    R.check(ok, r_it, SWEEP, "_iterate_sweep", "var_seqs = [sequences[v] for v in var_names]", "sequences are not aligned with the sorted names", it.lineno)
    prod = [c for c in calls_in(it) if call_name(c) in ("itertools.product", "product")]
    ok = len(prod) == 1 and len(prod[0].args) == 1 and isinstance(prod[0].args[0], ast.Starred) and dotted_name(prod[0].args[0].value) == "var_seqs"
    R.check(ok, r_it, SWEEP, "_iterate_sweep", "itertools.product(*var_seqs)", "combinatorial steps are not the Cartesian product of the sorted sequences", it.lineno)
    ys = [n for n in ast.walk(it) if isinstance(n, ast.Yield)]
    ok = any(isinstance(y.value, ast.Call) and call_attr(y.value) == "dict" and isinstance(y.value.args[0], ast.Call) and call_attr(y.value.args[0]) == "zip" and dotted_name(y.value.args[0].args[0]) == "var_names" for y in ys)
    R.check(ok, r_it, SWEEP, "_iterate_sweep", "yield dict(zip(var_names, combo))", "a combinatorial step does not pair sorted names with the product tuple", it.lineno)
    g = CFG(it, may_raise=lambda p: set())

    def eq_len(e: ast.AST) -> Optional[bool]:
        if isinstance(e, ast.Compare) and len(e.ops) == 1 and ast.unparse(e.left) == "len(set(seq_lengths))" and isinstance(e.comparators[0], ast.Constant) and e.comparators[0].value == 1:
            if isinstance(e.ops[0], ast.NotEq):
                return False
            if isinstance(e.ops[0], ast.Eq):
                return True
        if dotted_name(e) == "broadcast":
            return True  # broadcast path is the documented alternative
        return None

    pos_yields = [n.id for n in g.nodes if n.ast is not None and n.kind == "stmt" and any(isinstance(x, ast.Yield) and isinstance(x.value, ast.DictComp) for x in ast.walk(n.ast))]
    holds, path, guards = returns_only_through(g, eq_len, targets=pos_yields)
    R.check(holds and guards > 0 and bool(pos_yields), r_it, SWEEP, "_iterate_sweep", "by_position yields only after broadcast or the equal-length test", "positions are aligned although lengths differ and broadcast is off", it.lineno, path)
    mism = [n for n in ast.walk(it) if isinstance(n, ast.If) and eq_len(n.test) is False]
    ok = bool(mism) and isinstance(mism[0].body[-1], ast.Raise) and "ValueError" in ast.unparse(mism[0].body[-1])
    R.check(ok, r_it, SWEEP, "_iterate_sweep", "unequal lengths raise ValueError", "unequal lengths are not rejected with ValueError", it.lineno)
    src = ast.unparse(it)
    ok = "max_len = max(seq_lengths)" in src and "seq[i % len(seq)] for i in range(max_len)" in src and "step_count = max_len" in src
    R.check(ok, r_it, SWEEP, "_iterate_sweep", "broadcast: seq[i % len(seq)] for i in range(max(len))", "broadcast does not cycle shorter sequences up to the longest one", it.lineno)
    ok = any(isinstance(n, ast.For) and ast.unparse(n.iter) == "range(step_count)" and any(isinstance(x, ast.Yield) and isinstance(x.value, ast.DictComp) and ast.unparse(x.value.value) == f"sequences[{x.value.generators[0].target.id}][{n.target.id}]" for x in ast.walk(n)) for n in ast.walk(it))
    R.check(ok, r_it, SWEEP, "_iterate_sweep", "for i in range(step_count): yield {var: sequences[var][i]}", "by_position steps are not the aligned positions in order", it.lineno)

    # ------------------------------------------------------------------ D2
    r_m = R.rule("C03-D2-merge-precedence", "call parameters start from the provided (node/default) values and are then overwritten by the expression outputs", 1)
    mg = repo.func(SWEEP, "_merge_call_parameters")
    body = [s for s in mg.body if not (isinstance(s, ast.Expr) and isinstance(s.value, ast.Constant))]
    ok = len(body) == 3 and ast.unparse(body[0]) == "merged = dict(base_kwargs)" and ast.unparse(body[1]) == "merged.update(expression_outputs)" and ast.unparse(body[2]) == "return merged"
    R.check(ok, r_m, SWEEP, "_merge_call_parameters", "merged = dict(base_kwargs); merged.update(expression_outputs)", "computed-by-expression values no longer take precedence over provided ones", mg.lineno)

    # ------------------------------------------------------------------ D3
    r_v = R.rule("C03-D3-variants", "the three generated bodies (source, operation, probe) materialise, drop from-context keys, select provided kwargs by presence, iterate with the class' mode/broadcast, evaluate every expression on the step, merge, filter to the element's parameter names and call the element once per step in order; they agree with each other on these steps", 24)
    variants = variant_bodies(repo)
    forms: Dict[str, Dict[str, str]] = {}
    for qn, f in variants:
        d: Dict[str, str] = {}
        recv = "cls" if f.name == "_get_data" else "self"
        loop = next((n for n in walk_no_nested(f) if isinstance(n, ast.For) and isinstance(n.iter, ast.Call) and call_attr(n.iter) == "_iterate_sweep"), None)
        if loop is None:
            raise AnalysisError(f"{qn}: sweep loop not found")
        # absolute forms
        mat = next((n for n in walk_no_nested(f) if isinstance(n, ast.Assign) and isinstance(n.value, ast.Call) and call_attr(n.value) == "_materialize_sequences"), None)
        ok = mat is not None and dotted_name(kwarg(mat.value, "vars")) == f"{recv}._vars" and dotted_name(kwarg(mat.value, "params")) == "kwargs"
        R.check(ok, r_v, SWEEP, qn, "_materialize_sequences(vars=S._vars, params=kwargs)", "sequences are not materialised from the class' variables and the call's parameters", f.lineno)
        d["materialise"] = _unify(mat) if mat is not None else ""
        pops = [n for n in walk_no_nested(f) if isinstance(n, ast.For) and dotted_name(n.iter) == f"{recv}._from_context_keys" and any(call_attr(c) == "pop" for c in calls_in(n))]
        R.check(len(pops) == 1 and mat is not None and pops[0].lineno > mat.lineno, r_v, SWEEP, qn, "from-context keys are removed from kwargs after materialisation", "from-context sequences leak into the element's parameters (or are removed before being read)", f.lineno)
        d["pop"] = _unify(pops[0]) if pops else ""
        bk = next((n for n in walk_no_nested(f) if isinstance(n, ast.Assign) and dotted_name(n.targets[0]) == "base_kwargs"), None)
        ok = bk is not None and isinstance(bk.value, ast.DictComp)
        if ok:
            dc = bk.value
            gen = dc.generators[0]
            nm = gen.target.id
            ok = dotted_name(gen.iter) == "base_kwargs_filter" and len(gen.ifs) == 1 and ast.unparse(gen.ifs[0]) == f"{nm} in kwargs" and ast.unparse(dc.key) == nm and ast.unparse(dc.value) == f"kwargs[{nm}]"
        R.check(ok, r_v, SWEEP, qn, "base_kwargs = {n: kwargs[n] for n in base_kwargs_filter if n in kwargs}", "provided parameters are selected by value instead of by presence (an explicit None / falsy node parameter is dropped and the element's default is used)", bk.lineno if bk is not None else f.lineno)
        d["base_kwargs"] = _unify(bk) if bk is not None else ""
        itc = loop.iter
        ok = dotted_name(itc.args[0]) == "sequences" and dotted_name(kwarg(itc, "mode")) == f"{recv}._mode" and dotted_name(kwarg(itc, "broadcast")) == f"{recv}._broadcast"
        R.check(ok, r_v, SWEEP, qn, "_iterate_sweep(sequences, mode=S._mode, broadcast=S._broadcast)", "a variant iterates with a different mode / broadcast than the sweep declares", loop.lineno)
        d["iterate"] = _unify(itc)
        step = loop.target.id if isinstance(loop.target, ast.Name) else None
        eo = next((n for n in loop.body if isinstance(n, ast.Assign) and isinstance(n.value, ast.DictComp) and ".items()" in ast.unparse(n.value.generators[0].iter)), None)
        ok = eo is not None and f"{recv}._compiled_exprs.items()" == ast.unparse(eo.value.generators[0].iter) and not eo.value.generators[0].ifs and isinstance(eo.value.value, ast.Call) and [k.arg for k in eo.value.value.keywords] == [None] and dotted_name(eo.value.value.keywords[0].value) == step
        R.check(ok, r_v, SWEEP, qn, "expr_outputs = {p: fn(**step) for p, fn in S._compiled_exprs.items()}", "expressions are not all evaluated on this step's variable values", loop.lineno)
        d["exprs"] = _unify(eo) if eo is not None else ""
        mc = next((n for n in loop.body if isinstance(n, ast.Assign) and isinstance(n.value, ast.Call) and call_attr(n.value) == "_merge_call_parameters"), None)
        ok = mc is not None and dotted_name(kwarg(mc.value, "base_kwargs")) == "base_kwargs" and eo is not None and dotted_name(kwarg(mc.value, "expression_outputs")) == dotted_name(eo.targets[0])
        R.check(ok, r_v, SWEEP, qn, "call_params = _merge_call_parameters(base_kwargs=base_kwargs, expression_outputs=expr_outputs)", "a variant merges provided and computed parameters differently", loop.lineno)
        d["merge"] = _unify(mc) if mc is not None else ""
        flt = next((n for n in loop.body if isinstance(n, ast.Assign) and isinstance(n.value, ast.DictComp) and "_allowed_names" in ast.unparse(n.value)), None)
        ok = flt is not None and mc is not None and flt.lineno > mc.lineno and len(flt.value.generators[0].ifs) == 1 and ast.unparse(flt.value.generators[0].ifs[0]) == f"{flt.value.generators[0].target.elts[0].id} in {recv}._allowed_names"
        R.check(ok, r_v, SWEEP, qn, "call_params filtered to S._allowed_names", "parameters are not filtered to the element's signature (or filtered by something else)", loop.lineno)
        d["filter"] = _unify(flt) if flt is not None else ""
        # element call once per step, appended in order
        apps = [c for c in calls_in(loop) if call_attr(c) == "append"]
        ok = len(apps) == 1 and not any(isinstance(x, (ast.If, ast.Continue, ast.Break)) for x in ast.walk(loop))
        el = apps[0].args[0] if apps else None
        el_ok = False
        if isinstance(el, ast.Call):
            star = [k for k in el.keywords if k.arg is None]
            el_ok = len(star) == 1 and flt is not None and dotted_name(star[0].value) == dotted_name(flt.targets[0])
            if f.name == "_get_data":
                el_ok = el_ok and dotted_name(el.func) == "cls._element.get_data" and not el.args
            else:
                inst = el.func.value.id if isinstance(el.func, ast.Attribute) and isinstance(el.func.value, ast.Name) else None
                idefs = [n for n in loop.body if isinstance(n, ast.Assign) and dotted_name(n.targets[0]) == inst]
                el_ok = el_ok and el.func.attr == "process" and len(el.args) == 1 and dotted_name(el.args[0]) == f.args.args[1].arg and bool(idefs) and dotted_name(idefs[0].value.func) == "self._element"
        R.check(ok and el_ok, r_v, SWEEP, qn, "results.append(<element>(**call_params)) once per step", "the wrapped processor is not applied exactly once per step, in step order, to the input data with the merged parameters", loop.lineno)
        # return value
        rets = [n for n in walk_no_nested(f) if isinstance(n, ast.Return)]
        lst = dotted_name(apps[0].func.value) if apps else None
        is_probe = "Probe" in qn
        if is_probe:
            ok = len(rets) == 1 and dotted_name(rets[0].value) == lst
            what = "a probe sweep does not return the plain list of results in order"
        else:
            ok = len(rets) == 1 and isinstance(rets[0].value, ast.Call) and ast.unparse(rets[0].value.func) == f"{recv}._collection_output.from_list" and dotted_name(rets[0].value.args[0]) == lst
            what = "the typed collection is not built from the results in step order"
        R.check(ok, r_v, SWEEP, qn, "return " + ("results" if is_probe else "S._collection_output.from_list(results)"), what, f.lineno)
        forms[qn] = d
    names = list(forms)
    for key in ("materialise", "pop", "base_kwargs", "iterate", "exprs", "merge", "filter"):
        vals = {forms[n][key] for n in names}
        R.check(len(vals) == 1, r_v, SWEEP, CREATE, f"variants agree on step `{key}`", f"the generated source / operation / probe bodies differ in `{key}`", 0)

    # ------------------------------------------------------------------ D4
    r_p = R.rule("C03-D4-publication", "every variant declares <var>_values for each variable, materialisation stores exactly those keys, each variant hands them to the run context (or leaves them for the node), and the probe node publishes and declares them", 9)
    create = repo.func(SWEEP, CREATE)
    gck = [n for n in ast.walk(create) if isinstance(n, FuncNode) and n.name == "get_created_keys"]
    ok_n = 0
    for f in gck:
        lcs = [x for x in ast.walk(f) if isinstance(x, ast.ListComp) and isinstance(x.elt, ast.JoinedStr)]
        ok = bool(lcs) and ast.unparse(lcs[0].elt) == "f'{var}_values'" and ast.unparse(lcs[0].generators[0].iter) == "cls._vars"
        ok_n += 1
        R.check(ok, r_p, SWEEP, qualname_of(f), "declares [f'{var}_values' for var in cls._vars]", "declared created keys are not <var>_values for every sweep variable", f.lineno)
    if ok_n != 3:
        raise AnalysisError(f"{ok_n} get_created_keys templates in the sweep factory (3 confirmed by reading)")
    ms = repo.func(SWEEP, "_materialize_sequences")
    st = [n for n in ast.walk(ms) if isinstance(n, ast.Assign) and any(isinstance(t, ast.Subscript) and dotted_name(t.value) == "created" for t in n.targets)]
    ok = len(st) == 1 and ast.unparse(st[0].targets[0].slice) == "f'{var}_values'" and not [a for a in ancestors(st[0]) if isinstance(a, ast.If)]
    seqst = [n for n in ast.walk(ms) if isinstance(n, ast.Assign) and any(isinstance(t, ast.Subscript) and dotted_name(t.value) == "sequences" for t in n.targets)]
    ok = ok and len(seqst) == 1 and dotted_name(seqst[0].value) == dotted_name(st[0].value) and ast.unparse(seqst[0].targets[0].slice) == "var"
    R.check(ok, r_p, SWEEP, "_materialize_sequences", "created[f'{var}_values'] = sequences[var] = seq_list for every variable", "the published sequence is not the one that is swept (or is missing for some variable kind)", ms.lineno)
    for qn, f in variants:
        pubs = [c for c in calls_in(f) if call_attr(c) == "_publish_created_context"]
        loop = next(n for n in walk_no_nested(f) if isinstance(n, ast.For) and isinstance(n.iter, ast.Call) and call_attr(n.iter) == "_iterate_sweep")
        ok = len(pubs) == 1 and dotted_name(pubs[0].args[0]) == "created" and pubs[0].lineno > loop.lineno and not [a for a in ancestors(pubs[0]) if isinstance(a, (ast.If, ast.Try)) and any(a2 is f for a2 in ancestors(a))]
        if f.name == "_process_logic":
            ok = ok and "self._last_created_sequences = created" in ast.unparse(f)
        R.check(ok, r_p, SWEEP, qn, "_publish_created_context(created, <context>) after the loop", "materialised sequences are not handed to the run context by this variant", f.lineno)
    pc = repo.func(SWEEP, "_publish_created_context")
    src = ast.unparse(pc)
    ok = "context.set_value(key, value)" in src and "created.items()" in src and not any(isinstance(n, ast.If) and "key" in {x.id for x in ast.walk(n.test) if isinstance(x, ast.Name)} for n in ast.walk(pc))
    R.check(ok, r_p, SWEEP, "_publish_created_context", "every created key is written with set_value", "some <var>_values keys are not written", pc.lineno)
    pn = repo.func(NODES, "_ProbeContextInjectorNode._process_single_item_with_context")
    loops = [n for n in ast.walk(pn) if isinstance(n, ast.For) and ".items()" in ast.unparse(n.iter) and any(call_attr(c) == "update_context" for c in calls_in(n))]
    ok = bool(loops) and any("_last_created_sequences" in ast.unparse(v) for v in assigned_value(pn, dotted_name(loops[0].iter.func.value) or ""))
    R.check(ok, r_p, NODES, "_ProbeContextInjectorNode._process_single_item_with_context", "publishes processor._last_created_sequences", "a swept probe declares <var>_values but the probe node never writes them into the context", pn.lineno)
    pk = repo.func(NODES, "_ProbeContextInjectorNode.get_created_keys")
    ok = "cls.processor" in ast.unparse(pk) and "get_created_keys" in ast.unparse(pk) and "cls.context_key" in ast.unparse(pk)
    R.check(ok, r_p, NODES, "_ProbeContextInjectorNode.get_created_keys", "context_key + processor's created keys", "the probe node does not declare the keys its swept processor creates", pk.lineno)
    for qn in ("_DataNode._process_single_item_with_context", "_DataOperationContextInjectorProbeNode._process_single_item_with_context"):
        f = repo.func(NODES, qn)
        ok = "setattr(self.processor, 'observer_context', context)" in ast.unparse(f)
        R.check(ok, r_p, NODES, qn, "processor.observer_context = context before process()", "the swept processor has no context to publish <var>_values into", f.lineno)

    # ------------------------------------------------------------------ D5
    r_y = R.rule("C03-D5-yaml-conversion", "YAML variable specs map to the documented spec classes and defaults: [a, b] of two numbers -> range with 10 steps; other lists and {values} -> sequence as given; {lo, hi, steps[, scale=linear][, endpoint=True]} -> range; {from_context: key}", 6)
    cv = repo.func(PREP, "_convert_var_specs")
    rs = [c for c in ast.walk(cv) if isinstance(c, ast.Call) and call_attr(c) == "RangeSpec"]
    two = [c for c in rs if isinstance(kwarg(c, "steps"), ast.Constant)]
    ok = len(two) == 1 and kwarg(two[0], "steps").value == 10 and _u(kwarg(two[0], "lo")) == "float(spec[0])" and _u(kwarg(two[0], "hi")) == "float(spec[1])" and kwarg(two[0], "scale") is None and kwarg(two[0], "endpoint") is None
    R.check(ok, r_y, PREP, "_convert_var_specs", "[a, b] -> RangeSpec(lo=a, hi=b, steps=10)", "the two-number shorthand is not a 10-step linear range from a to b", cv.lineno)
    full = [c for c in rs if c not in two]
    ok = len(full) == 1
    if ok:
        c = full[0]
        ok = (_u(kwarg(c, "lo")) == "float(spec['lo'])" and _u(kwarg(c, "hi")) == "float(spec['hi'])" and _u(kwarg(c, "steps")) == "int(spec['steps'])"
              and _u(kwarg(c, "scale")) == "spec.get('scale', 'linear')" and _u(kwarg(c, "endpoint")) == "spec.get('endpoint', True)")
    R.check(ok, r_y, PREP, "_convert_var_specs", "{lo, hi, steps, scale='linear', endpoint=True} -> RangeSpec field by field", "range fields are swapped or documented defaults changed", cv.lineno)
    ss = [c for c in ast.walk(cv) if isinstance(c, ast.Call) and call_attr(c) == "SequenceSpec"]
    ok = len(ss) == 2 and {ast.unparse(c.args[0]) for c in ss} == {"spec", "spec['values']"}
    R.check(ok, r_y, PREP, "_convert_var_specs", "lists / {values} -> SequenceSpec(values as given)", "explicit sequences are transformed (sorted, deduplicated, ...)", cv.lineno)
    fc = [c for c in ast.walk(cv) if isinstance(c, ast.Call) and call_attr(c) == "FromContext"]
    ok = len(fc) == 1 and any("spec['from_context']" in ast.unparse(v) for v in assigned_value(cv, dotted_name(fc[0].args[0]) or ""))
    R.check(ok, r_y, PREP, "_convert_var_specs", "{from_context: key} -> FromContext(key)", "from_context variables do not read the declared key", cv.lineno)
    pnc = repo.func(PREP, "preprocess_node_config")
    cc = next((c for c in calls_in(pnc) if call_name(c) == "ParametricSweepFactory.create"), None)
    ok = cc is not None and dotted_name(kwarg(cc, "vars")) == "processed_vars" and dotted_name(kwarg(cc, "parametric_expressions")) == "params_spec" and dotted_name(kwarg(cc, "broadcast")) == "broadcast" and "mode" in _u(kwarg(cc, "mode")) and dotted_name(kwarg(cc, "collection_output")) == "collection_cls" and dotted_name(kwarg(cc, "element")) == "element_cls"
    R.check(ok, r_y, PREP, "preprocess_node_config", "create(element, kind, collection, vars, expressions, mode, broadcast) from the block's fields", "a field of the derive.parameter_sweep block is not passed on to the factory as declared", pnc.lineno)
    md = [v for v in assigned_value(pnc, "mode")] + [v for v in assigned_value(pnc, "broadcast")]
    ok = any("'combinatorial'" in ast.unparse(v) for v in md) and any(ast.unparse(v) == "sweep_cfg.get('broadcast', False)" for v in md)
    R.check(ok, r_y, PREP, "preprocess_node_config", "defaults: mode=combinatorial, broadcast=False", "documented defaults of mode / broadcast changed", pnc.lineno)

    # ------------------------------------------------------------------ D6
    r_mat = R.rule("C03-D6-materialisation-arguments", "linspace/logspace receive lo, hi, steps, endpoint in their roles; explicit sequences are taken as given; from_context reads params[key] behind the missing / non-sequence / empty guards", 5)
    lin = [c for c in calls_in(ms) if call_name(c) == "np.linspace"]
    ok = len(lin) == 1 and [ast.unparse(a) for a in lin[0].args] == ["spec.lo", "spec.hi", "spec.steps"] and _u(kwarg(lin[0], "endpoint")) == "spec.endpoint"
    R.check(ok, r_mat, SWEEP, "_materialize_sequences", "np.linspace(spec.lo, spec.hi, spec.steps, endpoint=spec.endpoint)", "a linear range is not built from (lo, hi, steps, endpoint) in their roles", ms.lineno)
    logs = [c for c in calls_in(ms) if call_name(c) == "np.logspace"]
    ok = len(logs) == 2 and all(ast.unparse(c.args[0]) == "np.log10(spec.lo)" and ast.unparse(c.args[2]) == "spec.steps" for c in logs) and any(ast.unparse(c.args[1]) == "np.log10(spec.hi)" for c in logs)
    R.check(ok, r_mat, SWEEP, "_materialize_sequences", "np.logspace(log10(lo), log10(hi | adjusted), steps)", "a log range is not built from log10(lo), log10(hi), steps", ms.lineno)
    ok = any(isinstance(n, ast.Assign) and ast.unparse(n.value) == "list(spec.values)" for n in ast.walk(ms))
    R.check(ok, r_mat, SWEEP, "_materialize_sequences", "seq_list = list(spec.values)", "explicit sequences are reordered / deduplicated", ms.lineno)
    fcb = next((n for n in ast.walk(ms) if isinstance(n, ast.If) and "FromContext" in ast.unparse(n.test)), None)
    ok = fcb is not None
    if ok:
        raises = [n for n in ast.walk(fcb) if isinstance(n, ast.If) and n is not fcb and isinstance(n.body[-1], ast.Raise)]
        tests = " | ".join(ast.unparse(r.test) for r in raises)
        ok = "spec.key not in params" in tests and "isinstance(value, (str, bytes))" in tests and "not seq_list" in tests and "params[spec.key]" in ast.unparse(fcb)
    R.check(ok, r_mat, SWEEP, "_materialize_sequences", "from_context: params[spec.key] with missing / non-sequence / empty guards", "a from_context variable is read without its guards (or from another key)", ms.lineno)
    ok = any(isinstance(n, ast.If) and ast.unparse(n.test) == "spec.scale == 'linear'" for n in ast.walk(ms)) and any(isinstance(n, ast.If) and ast.unparse(n.test) == "spec.endpoint" for n in ast.walk(ms))
    R.check(ok, r_mat, SWEEP, "_materialize_sequences", "branches on spec.scale and spec.endpoint", "scale / endpoint no longer select the materialisation", ms.lineno)
